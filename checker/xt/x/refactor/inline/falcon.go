// Copyright 2023 The Go Authors. All rights reserved.
// Use of this source code is governed by a BSD-style
// license that can be found in the LICENSE file.

package inline

// This file defines the callee side of the "fallible constant" analysis.

import (
	"fmt"
	"go/ast"
	"go/constant"
	"go/format"
	"go/token"
	"go/types"
	"slices"
	"strconv"
	"strings"

	"golang.org/x/tools/go/types/typeutil"
	"sftpcheck/xt/x/typeparams"
)

// falconResult is the result of the analysis of the callee.
type falconResult struct {
	Types       []falconType // types for falcon constraint environment
	Constraints []string     // constraints (Go expressions) on values of fallible constants
}

// A falconType specifies the name and underlying type of a synthetic
// defined type for use in falcon constraints.
//
// Unique types from callee code are bijectively mapped onto falcon
// types so that constraints are independent of callee type
// information but preserve type equivalence classes.
//
// Fresh names are deliberately obscure to avoid shadowing even if a
// callee parameter has a name like "int" or "any".
type falconType struct {
	Name string
	Kind types.BasicKind // string/number/bool
}

// falcon identifies "fallible constant" expressions, which are
// expressions that may fail to compile if one or more of their
// operands is changed from non-constant to constant.
//
// Consider:
//
//	func sub(s string, i, j int) string { return s[i:j] }
//
// If parameters are replaced by constants, the compiler is
// required to perform these additional checks:
//
//   - if i is constant, 0 <= i.
//   - if s and i are constant, i <= len(s).
//   - ditto for j.
//   - if i and j are constant, i <= j.
//
// s[i:j] is thus a "fallible constant" expression dependent on {s, i,
// j}. Each falcon creates a set of conditional constraints across one
// or more parameter variables.
//
//   - When inlining a call such as sub("abc", -1, 2), the parameter i
//     cannot be eliminated by substitution as its argument value is
//     negative.
//
//   - When inlining sub("", 2, 1), all three parameters cannot be
//     simultaneously eliminated by substitution without violating i
//     <= len(s) and j <= len(s), but the parameters i and j could be
//     safely eliminated without s.
//
// Parameters that cannot be eliminated must remain non-constant,
// either in the form of a binding declaration:
//
//	{ var i int = -1; return "abc"[i:2] }
//
// or a parameter of a literalization:
//
//	func (i int) string { return "abc"[i:2] }(-1)
//
// These example expressions are obviously doomed to fail at run
// time, but in realistic cases such expressions are dominated by
// appropriate conditions that make them reachable only when safe:
//
//	if 0 <= i && i <= j && j <= len(s) { _ = s[i:j] }
//
// (In principle a more sophisticated inliner could entirely eliminate
// such unreachable blocks based on the condition being always-false
// for the given parameter substitution, but this is tricky to do safely
// because the type-checker considers only a single configuration.
// Consider: if runtime.GOOS == "linux" { ... }.)
//
// We believe this is an exhaustive list of "fallible constant" operations:
//
//   - switch z { case x: case y } 	// duplicate case values
//   - s[i], s[i:j], s[i:j:k]		// index out of bounds (0 <= i <= j <= k <= len(s))
//   - T{x: 0}				// index out of bounds, duplicate index
//   - x/y, x%y, x/=y, x%=y		// integer division by zero; minint/-1 overflow
//   - x+y, x-y, x*y			// arithmetic overflow
//   - x<<y				// shift out of range
//   - -x				// negation of minint
//   - T(x)				// value out of range
//
// The fundamental reason for this elaborate algorithm is that the
// "separate analysis" of callee and caller, as required when running
// in an environment such as unitchecker, means that there is no way
// for us to simply invoke the type checker on the combination of
// caller and callee code, as by the time we analyze the caller, we no
// longer have access to type information for the callee (and, in
// particular, any of its direct dependencies that are not direct
// dependencies of the caller). So, in effect, we are forced to map
// the problem in a neutral (callee-type-independent) constraint
// system that can be verified later.
func falcon(logf func(string, ...any), fset *token.FileSet, params map[*types.Var]*paramInfo, info *types.Info, decl *ast.FuncDecl) falconResult {

	st := &falconState{
		logf:   logf,
		fset:   fset,
		params: params,
		info:   info,
		decl:   decl,
	}

	// type mapping
	st.int = st.typename(types.Typ[types.Int])
	st.any = "interface{}" // don't use "any" as it may be shadowed

	// Sort params by Index for determinism
	sortedParams := make([]*types.Var, 0, len(st.params))
	for obj := range st.params {
		if isBasic(obj.Type(), types.IsConstType) {
			sortedParams = append(sortedParams, obj)
		}
	}
	slices.SortFunc(sortedParams, func(a, b *types.Var) int {
		return st.params[a].Index - st.params[b].Index
	})
	for _, obj := range sortedParams {
		st.params[obj].FalconType = st.typename(obj.Type())
	}

	st.stmt(st.decl.Body)

	return st.result
}

type falconState struct {
	// inputs
	logf   func(string, ...any)
	fset   *token.FileSet
	params map[*types.Var]*paramInfo
	info   *types.Info
	decl   *ast.FuncDecl

	// working state
	int       string
	any       string
	typenames typeutil.Map

	result falconResult
}

// typename returns the name in the falcon constraint system
// of a given string/number/bool type t. Falcon types are
// specified directly in go/types data structures rather than
// by name, avoiding potential shadowing conflicts with
// confusing parameter names such as "int".
//
// Also, each distinct type (as determined by types.Identical)
// is mapped to a fresh type in the falcon system so that we
// can map the types in the callee code into a neutral form
// that does not depend on imports, allowing us to detect
// potential conflicts such as
//
//	map[any]{T1(1): 0, T2(1): 0}
//
// where T1=T2.
func (st *falconState) typename(t types.Type) string {
	name, ok := st.typenames.At(t).(string)
	if !ok {
		basic := t.Underlying().(*types.Basic)

		// That dot ۰ is an Arabic zero numeral U+06F0.
		// It is very unlikely to appear in a real program.
		// TODO(adonovan): use a non-heuristic solution.
		name = fmt.Sprintf("%s۰%d", basic, st.typenames.Len())
		st.typenames.Set(t, name)
		st.logf("falcon: emit type %s %s // %q", name, basic, t)
		st.result.Types = append(st.result.Types, falconType{
			Name: name,
			Kind: basic.Kind(),
		})
	}
	return name
}

// -- constraint emission --

// emit emits a Go expression that must have a legal type.
// In effect, we let the go/types constant folding algorithm
// do most of the heavy lifting (though it may be hard to
// believe from the complexity of this algorithm!).
func (st *falconState) emit(constraint ast.Expr) {
	var out strings.Builder
	if err := format.Node(&out, st.fset, constraint); err != nil {
		panic(err) // can't happen
	}
	syntax := out.String()
	st.logf("falcon: emit constraint %s", syntax)
	st.result.Constraints = append(st.result.Constraints, syntax)
}

// emitNonNegative emits an []T{}[index] constraint,
// which ensures index is non-negative if constant.
func (st *falconState) emitNonNegative(index ast.Expr) {
	st.emit(&ast.IndexExpr{
		X: &ast.CompositeLit{
			Type: &ast.ArrayType{
				Elt: makeIdent(st.int),
			},
		},
		Index: index,
	})
}

// emitMonotonic emits an []T{}[i:j] constraint,
// which ensures i <= j if both are constant.
func (st *falconState) emitMonotonic(i, j ast.Expr) {
	st.emit(&ast.SliceExpr{
		X: &ast.CompositeLit{
			Type: &ast.ArrayType{
				Elt: makeIdent(st.int),
			},
		},
		Low:  i,
		High: j,
	})
}

// emitUnique emits a T{elem1: 0, ... elemN: 0} constraint,
// which ensures that all constant elems are unique.
// T may be a map, slice, or array depending
// on the desired check semantics.
func (st *falconState) emitUnique(typ ast.Expr, elems []ast.Expr) {
	if len(elems) > 1 {
		var elts []ast.Expr
		for _, elem := range elems {
			elts = append(elts, &ast.KeyValueExpr{
				Key:   elem,
				Value: makeIntLit(0),
			})
		}
		st.emit(&ast.CompositeLit{
			Type: typ,
			Elts: elts,
		})
	}
}

// -- traversal --

// The traversal functions scan the callee body for expressions that
// are not constant but would become constant if the parameter vars
// were redeclared as constants, and emits for each one a constraint
// (a Go expression) with the property that it will not type-check
// (using types.CheckExpr) if the particular argument values are
// unsuitable.
//
// These constraints are checked by Inline with the actual
// constant argument values. Violations cause it to reject
// parameters as candidates for substitution.

func (st *falconState) stmt(s ast.Stmt) {
	ast.Inspect(s, func(n ast.Node) bool {
		switch n := n.(type) {
		case ast.Expr:
			_ = st.expr(n)
			return false // skip usual traversal

		case *ast.AssignStmt:
			switch n.Tok {
			case token.QUO_ASSIGN, token.REM_ASSIGN:
				// x /= y
				// Possible "integer division by zero"
				// Emit constraint: 1/y.
				_ = st.expr(n.Lhs[0])
				kY := st.expr(n.Rhs[0])
				if kY, ok := kY.(ast.Expr); ok {
					op := token.QUO
					if n.Tok == token.REM_ASSIGN {
						op = token.REM
					}
					st.emit(&ast.BinaryExpr{
						Op: op,
						X:  makeIntLit(1),
						Y:  kY,
					})
				}
				return false // skip usual traversal
			}

		case *ast.SwitchStmt:
			if n.Init != nil {
				st.stmt(n.Init)
			}
			tBool := types.Type(types.Typ[types.Bool])
			tagType := tBool // default: true
			if n.Tag != nil {
				st.expr(n.Tag)
				tagType = st.info.TypeOf(n.Tag)
			}

			// Possible "duplicate case value".
			// Emit constraint map[T]int{v1: 0, ..., vN:0}
			// to ensure all maybe-constant case values are unique
			// (unless switch tag is boolean, which is relaxed).
			var unique []ast.Expr
			for _, clause := range n.Body.List {
				clause := clause.(*ast.CaseClause)
				for _, caseval := range clause.List {
					if k := st.expr(caseval); k != nil {
						unique = append(unique, st.toExpr(k))
					}
				}
				for _, stmt := range clause.Body {
					st.stmt(stmt)
				}
			}
			if unique != nil && !types.Identical(tagType.Underlying(), tBool) {
				tname := st.any
				if !types.IsInterface(tagType) {
					tname = st.typename(tagType)
				}
				t := &ast.MapType{
					Key:   makeIdent(tname),
					Value: makeIdent(st.int),
				}
				st.emitUnique(t, unique)
			}
		}
		return true
	})
}

// fieldTypes visits the .Type of each field in the list.
func (st *falconState) fieldTypes(fields *ast.FieldList) {
	if fields != nil {
		for _, field := range fields.List {
			_ = st.expr(field.Type)
		}
	}
}

// expr visits the expression (or type) and returns a
// non-nil result if the expression is constant or would
// become constant if all suitable function parameters were
// redeclared as constants.
//
// If the expression is constant, st.expr returns its type
// and value (types.TypeAndValue). If the expression would
// become constant, st.expr returns an ast.Expr tree whose
// leaves are literals and parameter references, and whose
// interior nodes are operations that may become constant,
// such as -x, x+y, f(x), and T(x). We call these would-be
// constant expressions "fallible constants", since they may
// fail to type-check for some values of x, i, and j. (We
// refer to the non-nil cases collectively as "maybe
// constant", and the nil case as "definitely non-constant".)
//
// As a side effect, st.expr emits constraints for each
// fallible constant expression; this is its main purpose.
//
// Consequently, st.expr must visit the entire subtree so
// that all necessary constraints are emitted. It may not
// short-circuit the traversal when it encounters a constant
// subexpression as constants may contain arbitrary other
// syntax that may impose constraints. Consider (as always)
// this contrived but legal example of a type parameter (!)
// that contains statement syntax:
//
//	func f[T [unsafe.Sizeof(func() { stmts })]int]()
//
// There is no need to emit constraints for (e.g.) s[i] when s
// and i are already constants, because we know the expression
// is sound, but it is sometimes easier to emit these
// redundant constraints than to avoid them.
func (st *falconState) expr(e ast.Expr) (res any) { // = types.TypeAndValue | ast.Expr
	tv := st.info.Types[e]
	if tv.Value != nil {
		// A constant value overrides any other result.
		defer func() { res = tv }()
	}

	switch e := e.(type) {
	case *ast.Ident:
		if v, ok := st.info.Uses[e].(*types.Var); ok {
			if _, ok := st.params[v]; ok && isBasic(v.Type(), types.IsConstType) {
				return e // reference to constable parameter
			}
		}
		// (References to *types.Const are handled by the defer.)

	case *ast.BasicLit:
		// constant

	case *ast.ParenExpr:
		return st.expr(e.X)

	case *ast.FuncLit:
		_ = st.expr(e.Type)
		st.stmt(e.Body)
		// definitely non-constant

	case *ast.CompositeLit:
		// T{k: v, ...}, where T ∈ {array,*array,slice,map},
		// imposes a constraint that all constant k are
		// distinct and, for arrays [n]T, within range 0-n.
		//
		// Types matter, not just values. For example,
		// an interface-keyed map may contain keys
		// that are numerically equal so long as they
		// are of distinct types. For example:
		//
		//   type myint int
		//   map[any]bool{1: true, 1:        true} // error: duplicate key
		//   map[any]bool{1: true, int16(1): true} // ok
		//   map[any]bool{1: true, myint(1): true} // ok
		//
		// This can be asserted by emitting a
		// constraint of the form T{k1: 0, ..., kN: 0}.
		if e.Type != nil {
			_ = st.expr(e.Type)
		}
		t := types.Unalias(typeparams.Deref(tv.Type))
		ct := typeparams.CoreType(t)
		var mapKeys []ast.Expr // map key expressions; must be distinct if constant
		for _, elt := range e.Elts {
			if kv, ok := elt.(*ast.KeyValueExpr); ok {
				if is[*types.Map](ct) {
					if k := st.expr(kv.Key); k != nil {
						mapKeys = append(mapKeys, st.toExpr(k))
					}
				}
				_ = st.expr(kv.Value)
			} else {
				_ = st.expr(elt)
			}
		}
		if len(mapKeys) > 0 {
			// Inlining a map literal may replace variable key expressions by constants.
			// All such constants must have distinct values.
			// (Array and slice literals do not permit non-constant keys.)
			t := ct.(*types.Map)
			var typ ast.Expr
			if types.IsInterface(t.Key()) {
				typ = &ast.MapType{
					Key:   makeIdent(st.any),
					Value: makeIdent(st.int),
				}
			} else {
				typ = &ast.MapType{
					Key:   makeIdent(st.typename(t.Key())),
					Value: makeIdent(st.int),
				}
			}
			st.emitUnique(typ, mapKeys)
		}
		// definitely non-constant

	case *ast.SelectorExpr:
		_ = st.expr(e.X)
		_ = st.expr(e.Sel)
		// The defer is sufficient to handle
		// qualified identifiers (pkg.Const).
		// All other cases are definitely non-constant.

	case *ast.IndexExpr:
		if tv.IsType() {
			// type C[T]
			_ = st.expr(e.X)
			_ = st.expr(e.Index)
		} else {
			// term x[i]
			//
			// Constraints (if x is slice/string/array/*array, not map):
			// - i >= 0
			//     if i is a fallible constant
			// - i < len(x)
			//     if x is array/*array and
			//     i is a fallible constant;
			//  or if s is a string and both i,
			//     s are maybe-constants,
			//     but not both are constants.
			kX := st.expr(e.X)
			kI := st.expr(e.Index)
			if kI != nil && !is[*types.Map](st.info.TypeOf(e.X).Underlying()) {
				if kI, ok := kI.(ast.Expr); ok {
					st.emitNonNegative(kI)
				}
				// Emit constraint to check indices against known length.
				// TODO(adonovan): factor with SliceExpr logic.
				var x ast.Expr
				if kX != nil {
					// string
					x = st.toExpr(kX)
				} else if arr, ok := typeparams.CoreType(typeparams.Deref(st.info.TypeOf(e.X))).(*types.Array); ok {
					// array, *array
					x = &ast.CompositeLit{
						Type: &ast.ArrayType{
							Len: makeIntLit(arr.Len()),
							Elt: makeIdent(st.int),
						},
					}
				}
				if x != nil {
					st.emit(&ast.IndexExpr{
						X:     x,
						Index: st.toExpr(kI),
					})
				}
			}
		}
		// definitely non-constant

	case *ast.SliceExpr:
		// x[low:high:max]
		//
		// Emit non-negative constraints for each index,
		// plus low <= high <= max <= len(x)
		// for each pair that are maybe-constant
		// but not definitely constant.

		kX := st.expr(e.X)
		var kLow, kHigh, kMax any
		if e.Low != nil {
			kLow = st.expr(e.Low)
			if kLow != nil {
				if kLow, ok := kLow.(ast.Expr); ok {
					st.emitNonNegative(kLow)
				}
			}
		}
		if e.High != nil {
			kHigh = st.expr(e.High)
			if kHigh != nil {
				if kHigh, ok := kHigh.(ast.Expr); ok {
					st.emitNonNegative(kHigh)
				}
				if kLow != nil {
					st.emitMonotonic(st.toExpr(kLow), st.toExpr(kHigh))
				}
			}
		}
		if e.Max != nil {
			kMax = st.expr(e.Max)
			if kMax != nil {
				if kMax, ok := kMax.(ast.Expr); ok {
					st.emitNonNegative(kMax)
				}
				if kHigh != nil {
					st.emitMonotonic(st.toExpr(kHigh), st.toExpr(kMax))
				}
			}
		}

		// Emit constraint to check indices against known length.
		var x ast.Expr
		if kX != nil {
			// string
			x = st.toExpr(kX)
		} else if arr, ok := typeparams.CoreType(typeparams.Deref(st.info.TypeOf(e.X))).(*types.Array); ok {
			// array, *array
			x = &ast.CompositeLit{
				Type: &ast.ArrayType{
					Len: makeIntLit(arr.Len()),
					Elt: makeIdent(st.int),
				},
			}
		}
		if x != nil {
			// Avoid slice[::max] if kHigh is nonconstant (nil).
			high, max := st.toExpr(kHigh), st.toExpr(kMax)
			if high == nil {
				high = max // => slice[:max:max]
			}
			st.emit(&ast.SliceExpr{
				X:    x,
				Low:  st.toExpr(kLow),
				High: high,
				Max:  max,
			})
		}
		// definitely non-constant

	case *ast.TypeAssertExpr:
		_ = st.expr(e.X)
		if e.Type != nil {
			_ = st.expr(e.Type)
		}

	case *ast.CallExpr:
		_ = st.expr(e.Fun)
		if tv, ok := st.info.Types[e.Fun]; ok && tv.IsType() {
			// conversion T(x)
			//
			// Possible "value out of range".
			kX := st.expr(e.Args[0])
			if kX != nil && isBasic(tv.Type, types.IsConstType) {
				conv := convert(makeIdent(st.typename(tv.Type)), st.toExpr(kX))
				if is[ast.Expr](kX) {
					st.emit(conv)
				}
				return conv
			}
			return nil // definitely non-constant
		}

		// call f(x)

		all := true // all args are possibly-constant
		kArgs := make([]ast.Expr, len(e.Args))
		for i, arg := range e.Args {
			if kArg := st.expr(arg); kArg != nil {
				kArgs[i] = st.toExpr(kArg)
			} else {
				all = false
			}
		}

		// Calls to built-ins with fallibly constant arguments
		// may become constant. All other calls are either
		// constant or non-constant
		if id, ok := e.Fun.(*ast.Ident); ok && all && tv.Value == nil {
			if builtin, ok := st.info.Uses[id].(*types.Builtin); ok {
				switch builtin.Name() {
				case "len", "imag", "real", "complex", "min", "max":
					return &ast.CallExpr{
						Fun:      id,
						Args:     kArgs,
						Ellipsis: e.Ellipsis,
					}
				}
			}
		}

	case *ast.StarExpr: // *T, *ptr
		_ = st.expr(e.X)

	case *ast.UnaryExpr:
		// + - ! ^ & <- ~
		//
		// Possible "negation of minint".
		// Emit constraint: -x
		kX := st.expr(e.X)
		if kX != nil && !is[types.TypeAndValue](kX) {
			if e.Op == token.SUB {
				st.emit(&ast.UnaryExpr{
					Op: e.Op,
					X:  st.toExpr(kX),
				})
			}

			return &ast.UnaryExpr{
				Op: e.Op,
				X:  st.toExpr(kX),
			}
		}

	case *ast.BinaryExpr:
		kX := st.expr(e.X)
		kY := st.expr(e.Y)
		switch e.Op {
		case token.QUO, token.REM:
			// x/y, x%y
			//
			// Possible "integer division by zero" or
			// "minint / -1" overflow.
			// Emit constraint: x/y or 1/y
			if kY != nil {
				if kX == nil {
					kX = makeIntLit(1)
				}
				st.emit(&ast.BinaryExpr{
					Op: e.Op,
					X:  st.toExpr(kX),
					Y:  st.toExpr(kY),
				})
			}

		case token.ADD, token.SUB, token.MUL:
			// x+y, x-y, x*y
			//
			// Possible "arithmetic overflow".
			// Emit constraint: x+y
			if kX != nil && kY != nil {
				st.emit(&ast.BinaryExpr{
					Op: e.Op,
					X:  st.toExpr(kX),
					Y:  st.toExpr(kY),
				})
			}

		case token.SHL, token.SHR:
			// x << y, x >> y
			//
			// Possible "constant shift too large".
			// Either operand may be too large individually,
			// and they may be too large together.
			// Emit constraint:
			//    x << y (if both maybe-constant)
			//    x << 0 (if y is non-constant)
			//    1 << y (if x is non-constant)
			if kX != nil || kY != nil {
				x := st.toExpr(kX)
				if x == nil {
					x = makeIntLit(1)
				}
				y := st.toExpr(kY)
				if y == nil {
					y = makeIntLit(0)
				}
				st.emit(&ast.BinaryExpr{
					Op: e.Op,
					X:  x,
					Y:  y,
				})
			}

		case token.LSS, token.GTR, token.EQL, token.NEQ, token.LEQ, token.GEQ:
			// < > == != <= <=
			//
			// A "x cmp y" expression with constant operands x, y is
			// itself constant, but I can't see how a constant bool
			// could be fallible: the compiler doesn't reject duplicate
			// boolean cases in a switch, presumably because boolean
			// switches are less like n-way branches and more like
			// sequential if-else chains with possibly overlapping
			// conditions; and there is (sadly) no way to convert a
			// boolean constant to an int constant.
		}
		if kX != nil && kY != nil {
			return &ast.BinaryExpr{
				Op: e.Op,
				X:  st.toExpr(kX),
				Y:  st.toExpr(kY),
			}
		}

	// types
	//
	// We need to visit types (and even type parameters)
	// in order to reach all the places where things could go wrong:
	//
	// 	const (
	// 		s = ""
	// 		i = 0
	// 	)
	// 	type C[T [unsafe.Sizeof(func() { _ = s[i] })]int] bool

	case *ast.IndexListExpr:
		_ = st.expr(e.X)
		for _, expr := range e.Indices {
			_ = st.expr(expr)
		}

	case *ast.Ellipsis:
		if e.Elt != nil {
			_ = st.expr(e.Elt)
		}

	case *ast.ArrayType:
		if e.Len != nil {
			_ = st.expr(e.Len)
		}
		_ = st.expr(e.Elt)

	case *ast.StructType:
		st.fieldTypes(e.Fields)

	case *ast.FuncType:
		st.fieldTypes(e.TypeParams)
		st.fieldTypes(e.Params)
		st.fieldTypes(e.Results)

	case *ast.InterfaceType:
		st.fieldTypes(e.Methods)

	case *ast.MapType:
		_ = st.expr(e.Key)
		_ = st.expr(e.Value)

	case *ast.ChanType:
		_ = st.expr(e.Value)
	}
	return
}

// toExpr converts the result of visitExpr to a falcon expression.
// (We don't do this in visitExpr as we first need to discriminate
// constants from maybe-constants.)
func (st *falconState) toExpr(x any) ast.Expr {
	switch x := x.(type) {
	case nil:
		return nil

	case types.TypeAndValue:
		lit := makeLiteral(x.Value)
		if !isBasic(x.Type, types.IsUntyped) {
			// convert to "typed" type
			lit = &ast.CallExpr{
				Fun:  makeIdent(st.typename(x.Type)),
				Args: []ast.Expr{lit},
			}
		}
		return lit

	case ast.Expr:
		return x

	default:
		panic(x)
	}
}

func makeLiteral(v constant.Value) ast.Expr {
	switch v.Kind() {
	case constant.Bool:
		// Rather than refer to the true or false built-ins,
		// which could be shadowed by poorly chosen parameter
		// names, we use 0 == 0 for true and 0 != 0 for false.
		op := token.EQL
		if !constant.BoolVal(v) {
			op = token.NEQ
		}
		return &ast.BinaryExpr{
			Op: op,
			X:  makeIntLit(0),
			Y:  makeIntLit(0),
		}

	case constant.String:
		return &ast.BasicLit{
			Kind:  token.STRING,
			Value: v.ExactString(),
		}

	case constant.Int:
		return &ast.BasicLit{
			Kind:  token.INT,
			Value: v.ExactString(),
		}

	case constant.Float:
		return &ast.BasicLit{
			Kind:  token.FLOAT,
			Value: v.ExactString(),
		}

	case constant.Complex:
		// The components could be float or int.
		y := makeLiteral(constant.Imag(v))
		y.(*ast.BasicLit).Value += "i" // ugh
		if re := constant.Real(v); !consteq(re, kZeroInt) {
			// complex: x + yi
			y = &ast.BinaryExpr{
				Op: token.ADD,
				X:  makeLiteral(re),
				Y:  y,
			}
		}
		return y

	default:
		panic(v.Kind())
	}
}

func makeIntLit(x int64) *ast.BasicLit {
	return &ast.BasicLit{
		Kind:  token.INT,
		Value: strconv.FormatInt(x, 10),
	}
}

func isBasic(t types.Type, info types.BasicInfo) bool {
	basic, ok := t.Underlying().(*types.Basic)
	return ok && basic.Info()&info != 0
}
