// Copyright 2023 The Go Authors. All rights reserved.
// Use of this source code is governed by a BSD-style
// license that can be found in the LICENSE file.

/*
Package inline implements inlining of Go function calls.

The client provides information about the caller and callee,
including the source text, syntax tree, and type information, and
the inliner returns the modified source file for the caller, or an
error if the inlining operation is invalid (for example because the
function body refers to names that are inaccessible to the caller).

Although this interface demands more information from the client
than might seem necessary, it enables smoother integration with
existing batch and interactive tools that have their own ways of
managing the processes of reading, parsing, and type-checking
packages. In particular, this package does not assume that the
caller and callee belong to the same token.FileSet or
types.Importer realms.

There are many aspects to a function call. It is the only construct
that can simultaneously bind multiple variables of different
explicit types, with implicit assignment conversions. (Neither var
nor := declarations can do that.) It defines the scope of control
labels, of return statements, and of defer statements. Arguments
and results of function calls may be tuples even though tuples are
not first-class values in Go, and a tuple-valued call expression
may be "spread" across the argument list of a call or the operands
of a return statement. All these unique features mean that in the
general case, not everything that can be expressed by a function
call can be expressed without one.

So, in general, inlining consists of modifying a function or method
call expression f(a1, ..., an) so that the name of the function f
is replaced ("literalized") by a literal copy of the function
declaration, with free identifiers suitably modified to use the
locally appropriate identifiers or perhaps constant argument
values.

Inlining must not change the semantics of the call. Semantics
preservation is crucial for clients such as codebase maintenance
tools that automatically inline all calls to designated functions
on a large scale. Such tools must not introduce subtle behavior
changes. (Fully inlining a call is dynamically observable using
reflection over the call stack, but this exception to the rule is
explicitly allowed.)

In many cases it is possible to entirely replace ("reduce") the
call by a copy of the function's body in which parameters have been
replaced by arguments. The inliner supports a number of reduction
strategies, and we expect this set to grow. Nonetheless, sound
reduction is surprisingly tricky.

The inliner is in some ways like an optimizing compiler. A compiler
is considered correct if it doesn't change the meaning of the
program in translation from source language to target language. An
optimizing compiler exploits the particulars of the input to
generate better code, where "better" usually means more efficient.
When a case is found in which it emits suboptimal code, the
compiler is improved to recognize more cases, or more rules, and
more exceptions to rules; this process has no end. Inlining is
similar except that "better" code means tidier code. The baseline
translation (literalization) is correct, but there are endless
rules--and exceptions to rules--by which the output can be
improved.

The following section lists some of the challenges, and ways in
which they can be addressed.

  - All effects of the call argument expressions must be preserved,
    both in their number (they must not be eliminated or repeated),
    and in their order (both with respect to other arguments, and any
    effects in the callee function).

    This must be the case even if the corresponding parameters are
    never referenced, are referenced multiple times, referenced in
    a different order from the arguments, or referenced within a
    nested function that may be executed an arbitrary number of
    times.

    Currently, parameter replacement is not applied to arguments
    with effects, but with further analysis of the sequence of
    strict effects within the callee we could relax this constraint.

  - When not all parameters can be substituted by their arguments
    (e.g. due to possible effects), if the call appears in a
    statement context, the inliner may introduce a var declaration
    that declares the parameter variables (with the correct types)
    and assigns them to their corresponding argument values.
    The rest of the function body may then follow.
    For example, the call

    f(1, 2)

    to the function

    func f(x, y int32) { stmts }

    may be reduced to

    { var x, y int32 = 1, 2; stmts }.

    There are many reasons why this is not always possible. For
    example, true parameters are statically resolved in the same
    scope, and are dynamically assigned their arguments in
    parallel; but each spec in a var declaration is statically
    resolved in sequence and dynamically executed in sequence, so
    earlier parameters may shadow references in later ones.

  - Even an argument expression as simple as ptr.x may not be
    referentially transparent, because another argument may have the
    effect of changing the value of ptr.

    This constraint could be relaxed by some kind of alias or
    escape analysis that proves that ptr cannot be mutated during
    the call.

  - Although constants are referentially transparent, as a matter of
    style we do not wish to duplicate literals that are referenced
    multiple times in the body because this undoes proper factoring.
    Also, string literals may be arbitrarily large.

  - If the function body consists of statements other than just
    "return expr", in some contexts it may be syntactically
    impossible to reduce the call. Consider:

    if x := f(); cond { ... }

    Go has no equivalent to Lisp's progn or Rust's blocks,
    nor ML's let expressions (let param = arg in body);
    its closest equivalent is func(param){body}(arg).
    Reduction strategies must therefore consider the syntactic
    context of the call.

    In such situations we could work harder to extract a statement
    context for the call, by transforming it to:

    { x := f(); if cond { ... } }

  - Similarly, without the equivalent of Rust-style blocks and
    first-class tuples, there is no general way to reduce a call
    to a function such as

    func(params)(args)(results) { stmts; return expr }

    to an expression such as

    { var params = args; stmts; expr }

    or even a statement such as

    results = { var params = args; stmts; expr }

    Consequently the declaration and scope of the result variables,
    and the assignment and control-flow implications of the return
    statement, must be dealt with by cases.

  - A standalone call statement that calls a function whose body is
    "return expr" cannot be simply replaced by the body expression
    if it is not itself a call or channel receive expression; it is
    necessary to explicitly discard the result using "_ = expr".

    Similarly, if the body is a call expression, only calls to some
    built-in functions with no result (such as copy or panic) are
    permitted as statements, whereas others (such as append) return
    a result that must be used, even if just by discarding.

  - If a parameter or result variable is updated by an assignment
    within the function body, it cannot always be safely replaced
    by a variable in the caller. For example, given

    func f(a int) int { a++; return a }

    The call y = f(x) cannot be replaced by { x++; y = x } because
    this would change the value of the caller's variable x.
    Only if the caller is finished with x is this safe.

    A similar argument applies to parameter or result variables
    that escape: by eliminating a variable, inlining would change
    the identity of the variable that escapes.

  - If the function body uses 'defer' and the inlined call is not a
    tail-call, inlining may delay the deferred effects.

  - Because the scope of a control label is the entire function, a
    call cannot be reduced if the caller and callee have intersecting
    sets of control labels. (It is possible to α-rename any
    conflicting ones, but our colleagues building C++ refactoring
    tools report that, when tools must choose new identifiers, they
    generally do a poor job.)

  - Given

    func f() uint8 { return 0 }

    var x any = f()

    reducing the call to var x any = 0 is unsound because it
    discards the implicit conversion to uint8. We may need to make
    each argument-to-parameter conversion explicit if the types
    differ. Assignments to variadic parameters may need to
    explicitly construct a slice.

    An analogous problem applies to the implicit assignments in
    return statements:

    func g() any { return f() }

    Replacing the call f() with 0 would silently lose a
    conversion to uint8 and change the behavior of the program.

  - When inlining a call f(1, x, g()) where those parameters are
    unreferenced, we should be able to avoid evaluating 1 and x
    since they are pure and thus have no effect. But x may be the
    last reference to a local variable in the caller, so removing
    it would cause a compilation error. Parameter substitution must
    avoid making the caller's local variables unreferenced (or must
    be prepared to eliminate the declaration too---this is where an
    iterative framework for simplification would really help).

  - An expression such as s[i] may be valid if s and i are
    variables but invalid if either or both of them are constants.
    For example, a negative constant index s[-1] is always out of
    bounds, and even a non-negative constant index may be out of
    bounds depending on the particular string constant (e.g.
    "abc"[4]).

    So, if a parameter participates in any expression that is
    subject to additional compile-time checks when its operands are
    constant, it may be unsafe to substitute that parameter by a
    constant argument value (#62664).

More complex callee functions are inlinable with more elaborate and
invasive changes to the statements surrounding the call expression.

TODO(adonovan): future work:

  - Handle more of the above special cases by careful analysis,
    thoughtful factoring of the large design space, and thorough
    test coverage.

  - Compute precisely (not conservatively) when parameter
    substitution would remove the last reference to a caller local
    variable, and blank out the local instead of retreating from
    the substitution.

  - Afford the client more control such as a limit on the total
    increase in line count, or a refusal to inline using the
    general approach (replacing name by function literal). This
    could be achieved by returning metadata alongside the result
    and having the client conditionally discard the change.

  - Support inlining of generic functions, replacing type parameters
    by their instantiations.

  - Support inlining of calls to function literals ("closures").
    But note that the existing algorithm makes widespread assumptions
    that the callee is a package-level function or method.

  - Eliminate explicit conversions of "untyped" literals inserted
    conservatively when they are redundant. For example, the
    conversion int32(1) is redundant when this value is used only as a
    slice index; but it may be crucial if it is used in x := int32(1)
    as it changes the type of x, which may have further implications.
    The conversions may also be important to the falcon analysis.

  - Allow non-'go' build systems such as Bazel/Blaze a chance to
    decide whether an import is accessible using logic other than
    "/internal/" path segments. This could be achieved by returning
    the list of added import paths instead of a text diff.

  - Inlining a function from another module may change the
    effective version of the Go language spec that governs it. We
    should probably make the client responsible for rejecting
    attempts to inline from newer callees to older callers, since
    there's no way for this package to access module versions.

  - Use an alternative implementation of the import-organizing
    operation that doesn't require operating on a complete file
    (and reformatting). Then return the results in a higher-level
    form as a set of import additions and deletions plus a single
    diff that encloses the call expression. This interface could
    perhaps be implemented atop imports.Process by post-processing
    its result to obtain the abstract import changes and discarding
    its formatted output.
*/
package inline
