// Copyright 2023 The Go Authors. All rights reserved.
// Use of this source code is governed by a BSD-style
// license that can be found in the LICENSE file.

package inline

import (
	"bytes"
	"fmt"
	"go/ast"
	"go/constant"
	"go/format"
	"go/parser"
	"go/token"
	"go/types"
	"maps"
	pathpkg "path"
	"reflect"
	"slices"
	"strings"

	"golang.org/x/tools/go/ast/astutil"
	"golang.org/x/tools/go/types/typeutil"
	internalastutil "sftpcheck/xt/x/astutil"
	"sftpcheck/xt/x/astutil/free"
	"sftpcheck/xt/x/packagepath"
	"sftpcheck/xt/x/refactor"
	"sftpcheck/xt/x/typeparams"
	"sftpcheck/xt/x/typesinternal"
	"sftpcheck/xt/x/versions"
)

// A Caller describes the function call and its enclosing context.
//
// The client is responsible for populating this struct and passing it to Inline.
type Caller struct {
	Fset  *token.FileSet
	Types *types.Package
	Info  *types.Info
	File  *ast.File
	Call  *ast.CallExpr

	// CountUses is an optional optimized computation of
	// the number of times pkgname appears in Info.Uses.
	CountUses func(pkgname *types.PkgName) int

	path          []ast.Node    // path from call to root of file syntax tree
	enclosingFunc *ast.FuncDecl // top-level function/method enclosing the call, if any
}

type logger = func(string, ...any)

// Options specifies parameters affecting the inliner algorithm.
// All fields are optional.
type Options struct {
	Logf          logger // log output function, records decision-making process
	IgnoreEffects bool   // ignore potential side effects of arguments (unsound)
	Recover       bool   // catch panics from inliner and report as errors (for ill-typed ASTs)
}

// Result holds the result of code transformation.
type Result struct {
	Edits       []refactor.Edit // edits around CallExpr and imports
	Literalized bool            // chosen strategy replaced callee() with func(){...}()
	BindingDecl bool            // transformation added "var params = args" declaration
}

// Inline inlines the called function (callee) into the function call (caller)
// and returns the updated, formatted content of the caller source file.
//
// Inline does not mutate any public fields of Caller or Callee.
func Inline(caller *Caller, callee *Callee, opts *Options) (res *Result, err error) {
	if opts == nil {
		opts = new(Options)
	} else {
		opts = new(*opts)
	}
	// Set default options.
	if opts.Logf == nil {
		opts.Logf = func(string, ...any) {}
	}
	if opts.Recover {
		defer func() {
			if x := recover(); x != nil {
				err = fmt.Errorf("inlining failed (%q), likely because inputs were ill-typed", x)
			}
		}()
	}

	st := &state{
		caller: caller,
		callee: callee,
		opts:   opts,
	}
	return st.inline()
}

// state holds the working state of the inliner.
type state struct {
	caller *Caller
	callee *Callee
	opts   *Options
}

func (st *state) inline() (*Result, error) {
	logf, caller, callee := st.opts.Logf, st.caller, st.callee

	logf("inline %s @ %v",
		debugFormatNode(caller.Fset, caller.Call),
		caller.Fset.PositionFor(caller.Call.Lparen, false))

	if ast.IsGenerated(caller.File) {
		return nil, fmt.Errorf("cannot inline calls from generated files")
	}

	res, err := st.inlineCall()
	if err != nil {
		return nil, err
	}

	// Replace the call (or some node that encloses it) by new syntax.
	assert(res.old != nil, "old is nil")
	assert(res.new != nil, "new is nil")

	// A single return operand inlined to a unary
	// expression context may need parens. Otherwise:
	//    func two() int { return 1+1 }
	//    print(-two())  =>  print(-1+1) // oops!
	//
	// Usually it is not necessary to insert ParenExprs
	// as the formatter is smart enough to insert them as
	// needed by the context. But the res.{old,new}
	// substitution is done by formatting res.new in isolation
	// and then splicing its text over res.old, so the
	// formatter doesn't see the parent node and cannot do
	// the right thing. (One solution would be to always
	// format the enclosing node of old, but that requires
	// non-lossy comment handling, #20744.)
	//
	// So, we must analyze the call's context
	// to see whether ambiguity is possible.
	// For example, if the context is x[y:z], then
	// the x subtree is subject to precedence ambiguity
	// (replacing x by p+q would give p+q[y:z] which is wrong)
	// but the y and z subtrees are safe.
	if new, ok := res.new.(ast.Expr); ok {
		parent := caller.path[slices.Index(caller.path, res.old)+1]
		res.new = internalastutil.MaybeParenthesize(parent, res.old.(ast.Expr), new)
	}

	// Some reduction strategies return a new block holding the
	// callee's statements. The block's braces may be elided when
	// there is no conflict between names declared in the block
	// with those declared by the parent block, and no risk of
	// a caller's goto jumping forward across a declaration.
	//
	// This elision is only safe when the ExprStmt is beneath a
	// BlockStmt, CaseClause.Body, or CommClause.Body;
	// (see "statement theory").
	//
	// The inlining analysis may have already determined that eliding braces is
	// safe. Otherwise, we analyze its safety here.
	elideBraces := res.elideBraces
	if !elideBraces {
		if newBlock, ok := res.new.(*ast.BlockStmt); ok {
			i := slices.Index(caller.path, res.old)
			parent := caller.path[i+1]
			var body []ast.Stmt
			switch parent := parent.(type) {
			case *ast.BlockStmt:
				body = parent.List
			case *ast.CommClause:
				body = parent.Body
			case *ast.CaseClause:
				body = parent.Body
			}
			if body != nil {
				callerNames := declares(body)

				// If BlockStmt is a function body,
				// include its receiver, params, and results.
				addFieldNames := func(fields *ast.FieldList) {
					if fields != nil {
						for _, field := range fields.List {
							for _, id := range field.Names {
								callerNames[id.Name] = true
							}
						}
					}
				}
				switch f := caller.path[i+2].(type) {
				case *ast.FuncDecl:
					addFieldNames(f.Recv)
					addFieldNames(f.Type.Params)
					addFieldNames(f.Type.Results)
				case *ast.FuncLit:
					addFieldNames(f.Type.Params)
					addFieldNames(f.Type.Results)
				}

				if len(callerLabels(caller.path)) > 0 {
					// TODO(adonovan): be more precise and reject
					// only forward gotos across the inlined block.
					logf("keeping block braces: caller uses control labels")
				} else if intersects(declares(newBlock.List), callerNames) {
					logf("keeping block braces: avoids name conflict")
				} else {
					elideBraces = true
				}
			}
		}
	}

	var edits []refactor.Edit

	// Format the cloned callee.
	{
		// TODO(adonovan): might it make more sense to use
		// callee.Fset when formatting res.new?
		// The new tree is a mix of (cloned) caller nodes for
		// the argument expressions and callee nodes for the
		// function body. In essence the question is: which
		// is more likely to have comments?
		// Usually the callee body will be larger and more
		// statement-heavy than the arguments, but a
		// strategy may widen the scope of the replacement
		// (res.old) from CallExpr to, say, its enclosing
		// block, so the caller nodes dominate.
		// Precise comment handling would make this a
		// non-issue. Formatting wouldn't really need a
		// FileSet at all.

		var out bytes.Buffer
		if elideBraces {
			for i, stmt := range res.new.(*ast.BlockStmt).List {
				if i > 0 {
					out.WriteByte('\n')
				}
				if err := format.Node(&out, caller.Fset, stmt); err != nil {
					return nil, err
				}
			}
		} else {
			if err := format.Node(&out, caller.Fset, res.new); err != nil {
				return nil, err
			}
		}

		edits = append(edits, refactor.Edit{
			Pos:     res.old.Pos(),
			End:     res.old.End(),
			NewText: out.Bytes(),
		})
	}

	// Add new imports.
	//
	// It's possible that not all are needed (e.g. for type names
	// that melted away), but we'll let the client (such as an
	// analysis driver) clean it up since it must remove unused
	// imports anyway.
	for _, imp := range res.newImports {
		// Check that the new imports are accessible.
		if !packagepath.CanImport(caller.Types.Path(), imp.path) {
			return nil, fmt.Errorf("can't inline function %v as its body refers to inaccessible package %q", callee, imp.path)
		}

		// We've already validated the import, so we call
		// AddImportEdits directly to compute the edit.
		name := ""
		if imp.explicit {
			name = imp.name
		}
		edits = append(edits, refactor.AddImportEdits(caller.File, name, imp.path)...)
	}

	literalized := false
	if call, ok := res.new.(*ast.CallExpr); ok && is[*ast.FuncLit](call.Fun) {
		literalized = true
	}

	// Delete imports referenced only by caller.Call.Fun.
	//
	// It's ambiguous to let the client (e.g. analysis driver)
	// remove unneeded imports in this case because it is common
	// to inlining a call from "dir1/a".F to "dir2/a".F, which
	// leaves two imports of packages named 'a', both providing a.F.
	//
	// However, the only two import deletion tools at our disposal
	// are astutil.DeleteNamedImport, which mutates the AST, and
	// refactor.Delete{Spec,Decl}, which need a Cursor. So we need
	// to reinvent the wheel here.
	for _, oldImport := range res.oldImports {
		spec := oldImport.spec

		// Include adjacent comments.
		pos := spec.Pos()
		if doc := spec.Doc; doc != nil {
			pos = doc.Pos()
		}
		end := spec.End()
		if doc := spec.Comment; doc != nil {
			end = doc.End()
		}

		// Find the enclosing import decl.
		// If it's paren-less, we must delete it too.
		for _, decl := range caller.File.Decls {
			decl, ok := decl.(*ast.GenDecl)
			if !(ok && decl.Tok == token.IMPORT) {
				break // stop at first non-import decl
			}
			if internalastutil.NodeContainsPos(decl, spec.Pos()) && !decl.Rparen.IsValid() {
				// Include adjacent comments.
				pos = decl.Pos()
				if doc := decl.Doc; doc != nil {
					pos = doc.Pos()
				}
				end = decl.End()
				break
			}
		}

		edits = append(edits, refactor.Edit{
			Pos: pos,
			End: end,
		})
	}

	return &Result{
		Edits:       edits,
		Literalized: literalized,
		BindingDecl: res.bindingDecl,
	}, nil
}

// An oldImport is an import that will be deleted from the caller file.
type oldImport struct {
	pkgName *types.PkgName
	spec    *ast.ImportSpec
}

// A newImport is an import that will be added to the caller file.
type newImport struct {
	name     string
	path     string
	explicit bool // use name as ImportSpec.Name
}

// importState tracks information about imports.
type importState struct {
	logf       func(string, ...any)
	caller     *Caller
	importMap  map[string][]string // from package paths in the caller's file to local names
	newImports []newImport         // for references to free names in callee; to be added to the file
	oldImports []oldImport         // referenced only by caller.Call.Fun; to be removed from the file
}

// newImportState returns an importState with initial information about the caller's imports.
func newImportState(logf func(string, ...any), caller *Caller, callee *gobCallee) *importState {
	// For simplicity we ignore existing dot imports, so that a qualified
	// identifier (QI) in the callee is always represented by a QI in the caller,
	// allowing us to treat a QI like a selection on a package name.
	ist := &importState{
		logf:      logf,
		caller:    caller,
		importMap: make(map[string][]string),
	}

	// Provide an inefficient default implementation of CountUses.
	// (Ideally clients amortize this for the entire package.)
	countUses := caller.CountUses
	if countUses == nil {
		uses := make(map[*types.PkgName]int)
		for _, obj := range caller.Info.Uses {
			if pkgname, ok := obj.(*types.PkgName); ok {
				uses[pkgname]++
			}
		}
		countUses = func(pkgname *types.PkgName) int {
			return uses[pkgname]
		}
	}

	for _, imp := range caller.File.Imports {
		if pkgName, ok := importedPkgName(caller.Info, imp); ok &&
			pkgName.Name() != "." &&
			pkgName.Name() != "_" {

			// If the import's sole use is in caller.Call.Fun of the form p.F(...),
			// where p.F is a qualified identifier, the p import may not be
			// necessary.
			//
			// Only the qualified identifier case matters, as other references to
			// imported package names in the Call.Fun expression (e.g.
			// x.after(3*time.Second).f() or time.Second.String()) will remain after
			// inlining, as arguments.
			//
			// If that is the case, proactively check if any of the callee FreeObjs
			// need this import. Doing so eagerly simplifies the resulting logic.
			needed := true
			if sel, ok := ast.Unparen(caller.Call.Fun).(*ast.SelectorExpr); ok &&
				is[*ast.Ident](sel.X) &&
				caller.Info.Uses[sel.X.(*ast.Ident)] == pkgName &&
				countUses(pkgName) == 1 {
				needed = false // no longer needed by caller
				// Check to see if any of the inlined free objects need this package.
				for _, obj := range callee.FreeObjs {
					if obj.PkgPath == pkgName.Imported().Path() && obj.Shadow[pkgName.Name()] == 0 {
						needed = true // needed by callee
						break
					}
				}
			}

			// Exclude imports not needed by the caller or callee after inlining; the second
			// return value holds these.
			if needed {
				path := pkgName.Imported().Path()
				ist.importMap[path] = append(ist.importMap[path], pkgName.Name())
			} else {
				ist.oldImports = append(ist.oldImports, oldImport{pkgName: pkgName, spec: imp})
			}
		}
	}
	return ist
}

// importName finds an existing import name to use in a particular shadowing
// context. It is used to determine the set of new imports in
// localName, and is also used for writing out names in inlining
// strategies below.
func (i *importState) importName(pkgPath string, shadow shadowMap) string {
	for _, name := range i.importMap[pkgPath] {
		// Check that either the import preexisted, or that it was newly added
		// (no PkgName) but is not shadowed, either in the callee (shadows) or
		// caller (caller.lookup).
		if shadow[name] == 0 {
			found := i.caller.lookup(name)
			if is[*types.PkgName](found) || found == nil {
				return name
			}
		}
	}
	return ""
}

// findNewLocalName returns a new local package name to use in a particular shadowing context.
// It considers the existing local name used by the callee, or construct a new local name
// based on the package name.
func (i *importState) findNewLocalName(pkgName, calleePkgName string, shadow shadowMap) string {
	newlyAdded := func(name string) bool {
		return slices.ContainsFunc(i.newImports, func(n newImport) bool { return n.name == name })
	}

	// shadowedInCaller reports whether a candidate package name
	// already refers to a declaration in the caller.
	shadowedInCaller := func(name string) bool {
		obj := i.caller.lookup(name)
		if obj == nil {
			return false
		}
		// If obj will be removed, the name is available.
		return !slices.ContainsFunc(i.oldImports, func(o oldImport) bool { return o.pkgName == obj })
	}

	// import added by callee
	//
	// Try to preserve the local package name used by the callee first.
	//
	// If that is shadowed, choose a local package name based on last segment of
	// package path plus, if needed, a numeric suffix to ensure uniqueness.
	//
	// "init" is not a legal PkgName.
	if shadow[calleePkgName] == 0 && !shadowedInCaller(calleePkgName) && !newlyAdded(calleePkgName) && calleePkgName != "init" {
		return calleePkgName
	}

	base := pkgName
	name := base
	for n := 0; shadow[name] != 0 || shadowedInCaller(name) || newlyAdded(name) || name == "init"; n++ {
		name = fmt.Sprintf("%s%d", base, n)
	}

	return name
}

// localName returns the local name for a given imported package path,
// adding one if it doesn't exists.
func (i *importState) localName(pkgPath, pkgName, calleePkgName string, shadow shadowMap) string {
	// Does an import already exist that works in this shadowing context?
	if name := i.importName(pkgPath, shadow); name != "" {
		return name
	}

	name := i.findNewLocalName(pkgName, calleePkgName, shadow)
	i.logf("adding import %s %q", name, pkgPath)
	// Use explicit pkgname (out of necessity) when it differs from the declared name,
	// or (for good style) when it differs from base(pkgpath).
	i.newImports = append(i.newImports, newImport{
		name:     name,
		path:     pkgPath,
		explicit: name != pkgName || name != pathpkg.Base(pkgPath),
	})
	i.importMap[pkgPath] = append(i.importMap[pkgPath], name)
	return name
}

type inlineCallResult struct {
	newImports []newImport // to add
	oldImports []oldImport // to remove

	// If elideBraces is set, old is an ast.Stmt and new is an ast.BlockStmt to
	// be spliced in. This allows the inlining analysis to assert that inlining
	// the block is OK; if elideBraces is unset and old is an ast.Stmt and new is
	// an ast.BlockStmt, braces may still be elided if the post-processing
	// analysis determines that it is safe to do so.
	//
	// Ideally, it would not be necessary for the inlining analysis to "reach
	// through" to the post-processing pass in this way. Instead, inlining could
	// just set old to be an ast.BlockStmt and rewrite the entire BlockStmt, but
	// unfortunately in order to preserve comments, it is important that inlining
	// replace as little syntax as possible.
	elideBraces bool
	bindingDecl bool     // transformation inserted "var params = args" declaration
	old, new    ast.Node // e.g. replace call expr by callee function body expression
}

// inlineCall returns a pair of an old node (the call, or something
// enclosing it) and a new node (its replacement, which may be a
// combination of caller, callee, and new nodes), along with the set
// of new imports needed.
//
// TODO(adonovan): rethink the 'result' interface. The assumption of a
// one-to-one replacement seems fragile. One can easily imagine the
// transformation replacing the call and adding new variable
// declarations, for example, or replacing a call statement by zero or
// many statements.)
// NOTE(rfindley): we've sort-of done this, with the 'elideBraces' flag that
// allows inlining a statement list. However, due to loss of comments, more
// sophisticated rewrites are challenging.
//
// TODO(rfindley): see if we can reduce the amount of comment lossiness by
// using printer.CommentedNode, which has been useful elsewhere.
//
// TODO(rfindley): inlineCall is getting very long, and very stateful, making
// it very hard to read. The following refactoring may improve readability and
// maintainability:
//   - Rename 'state' to 'callsite', since that is what it encapsulates.
//   - Add results of pre-processing analysis into the callsite struct, such as
//     the effective importMap, new/old imports, arguments, etc. Essentially
//     anything that resulted from initial analysis of the call site, and which
//     may be useful to inlining strategies.
//   - Delegate this call site analysis to a constructor or initializer, such
//     as 'analyzeCallsite', so that it does not consume bandwidth in the
//     'inlineCall' logical flow.
//   - Once analyzeCallsite returns, the callsite is immutable, much in the
//     same way as the Callee and Caller are immutable.
//   - Decide on a standard interface for strategies (and substrategies), such
//     that they may be delegated to a separate method on callsite.
//
// In this way, the logical flow of inline call will clearly follow the
// following structure:
//  1. Analyze the call site.
//  2. Try strategies, in order, until one succeeds.
//  3. Process the results.
//
// If any expensive analysis may be avoided by earlier strategies, it can be
// encapsulated in its own type and passed to subsequent strategies.
func (st *state) inlineCall() (*inlineCallResult, error) {
	logf, caller, callee := st.opts.Logf, st.caller, &st.callee.impl

	checkInfoFields(caller.Info)

	// Inlining of dynamic calls is not currently supported,
	// even for local closure calls. (This would be a lot of work.)
	calleeSymbol := typeutil.StaticCallee(caller.Info, caller.Call)
	if calleeSymbol == nil {
		// e.g. interface method
		return nil, fmt.Errorf("cannot inline: not a static function call")
	}

	// Reject cross-package inlining if callee has
	// free references to unexported symbols.
	samePkg := caller.Types.Path() == callee.PkgPath
	if !samePkg && len(callee.Unexported) > 0 {
		return nil, fmt.Errorf("cannot inline call to %s because body refers to non-exported %s",
			callee.Name, callee.Unexported[0])
	}

	// Reject cross-file inlining if callee requires a newer dialect of Go (#75726).
	// (Versions default to types.Config.GoVersion, which is unset in many tests,
	// though should be populated by an analysis driver.)
	callerGoVersion := caller.Info.FileVersions[caller.File]
	if callerGoVersion != "" && callee.GoVersion != "" && versions.Before(callerGoVersion, callee.GoVersion) {
		return nil, fmt.Errorf("cannot inline call to %s (declared using %s) into a file using %s",
			callee.Name, callee.GoVersion, callerGoVersion)
	}

	// -- analyze callee's free references in caller context --

	// Compute syntax path enclosing Call, innermost first (Path[0]=Call),
	// and outermost enclosing function, if any.
	caller.path, _ = astutil.PathEnclosingInterval(caller.File, caller.Call.Pos(), caller.Call.End())
	for _, n := range caller.path {
		if decl, ok := n.(*ast.FuncDecl); ok {
			caller.enclosingFunc = decl
			break
		}
	}

	// If call is within a function, analyze all its
	// local vars for the "single assignment" property.
	// (Taking the address &v counts as a potential assignment.)
	var assign1 func(v *types.Var) bool // reports whether v a single-assignment local var
	{
		updatedLocals := make(map[*types.Var]bool)
		if caller.enclosingFunc != nil {
			escape(caller.Info, caller.enclosingFunc, func(v *types.Var, _ bool) {
				updatedLocals[v] = true
			})
			logf("multiple-assignment vars: %v", updatedLocals)
		}
		assign1 = func(v *types.Var) bool { return !updatedLocals[v] }
	}

	// Extract information about the caller's imports.
	istate := newImportState(logf, caller, callee)

	// Compute the renaming of the callee's free identifiers.
	objRenames, err := st.renameFreeObjs(istate)
	if err != nil {
		return nil, err
	}

	res := &inlineCallResult{
		newImports: istate.newImports,
		oldImports: istate.oldImports,
	}

	// Parse callee function declaration.
	calleeFset, calleeDecl, err := parseCompact(callee.Content)
	if err != nil {
		return nil, err // "can't happen"
	}

	// replaceCalleeID replaces an identifier in the callee. See [replacer] for
	// more detailed semantics.
	replaceCalleeID := func(offset int, repl ast.Expr, unpackVariadic bool) {
		path, id := findIdent(calleeDecl, calleeDecl.Pos()+token.Pos(offset))
		logf("- replace id %q @ #%d to %q", id.Name, offset, debugFormatNode(calleeFset, repl))
		// Replace f([]T{a, b, c}...) with f(a, b, c).
		if lit, ok := repl.(*ast.CompositeLit); ok && unpackVariadic && len(path) > 0 {
			if call, ok := last(path).(*ast.CallExpr); ok &&
				call.Ellipsis.IsValid() &&
				id == last(call.Args) {

				call.Args = append(call.Args[:len(call.Args)-1], lit.Elts...)
				call.Ellipsis = token.NoPos
				return
			}
		}
		if len(path) > 0 {
			repl = internalastutil.MaybeParenthesize(last(path), id, repl)
		}
		replaceNode(calleeDecl, id, repl)
	}

	// Generate replacements for each free identifier.
	// (The same tree may be spliced in multiple times, resulting in a DAG.)
	for _, ref := range callee.FreeRefs {
		if repl := objRenames[ref.Object]; repl != nil {
			replaceCalleeID(ref.Offset, repl, false)
		}
	}

	// Gather the effective call arguments, including the receiver.
	// Later, elements will be eliminated (=> nil) by parameter substitution.
	args, err := st.arguments(caller, calleeDecl, assign1)
	if err != nil {
		return nil, err // e.g. implicit field selection cannot be made explicit
	}

	// Gather effective parameter tuple, including the receiver if any.
	// Simplify variadic parameters to slices (in all cases but one).
	var params []*parameter // including receiver; nil => parameter substituted
	{
		sig := calleeSymbol.Type().(*types.Signature)
		if sig.Recv() != nil {
			params = append(params, &parameter{
				obj:       sig.Recv(),
				fieldType: calleeDecl.Recv.List[0].Type,
				info:      callee.Params[0],
			})
		}

		// Flatten the list of syntactic types.
		var types []ast.Expr
		for _, field := range calleeDecl.Type.Params.List {
			if field.Names == nil {
				types = append(types, field.Type)
			} else {
				for range field.Names {
					types = append(types, field.Type)
				}
			}
		}

		for i := 0; i < sig.Params().Len(); i++ {
			params = append(params, &parameter{
				obj:       sig.Params().At(i),
				fieldType: types[i],
				info:      callee.Params[len(params)],
			})
		}

		// Variadic function?
		//
		// There are three possible types of call:
		// - ordinary f(a1, ..., aN)
		// - ellipsis f(a1, ..., slice...)
		// - spread   f(recv?, g()) where g() is a tuple.
		// The first two are desugared to non-variadic calls
		// with an ordinary slice parameter;
		// the third is tricky and cannot be reduced, and (if
		// a receiver is present) cannot even be literalized.
		// Fortunately it is vanishingly rare.
		//
		// TODO(adonovan): extract this to a function.
		if sig.Variadic() {
			lastParam := last(params)
			if len(args) > 0 && last(args).spread {
				// spread call to variadic: tricky
				lastParam.variadic = true
			} else {
				// ordinary/ellipsis call to variadic

				// simplify decl: func(T...) -> func([]T)
				var lastParamFieldType ast.Expr
				if len(calleeDecl.Type.Params.List) > 0 {
					lastParamField := last(calleeDecl.Type.Params.List)
					if ellipsis, ok := lastParamField.Type.(*ast.Ellipsis); ok {
						lastParamField.Type = &ast.ArrayType{
							Elt: ellipsis.Elt,
						}
					}
					lastParamFieldType = lastParamField.Type
				}

				if caller.Call.Ellipsis.IsValid() {
					// ellipsis call: f(slice...) -> f(slice)
					// nop
				} else {
					// ordinary call: f(a1, ... aN) -> f([]T{a1, ..., aN})
					//
					// Substitution of []T{...} in the callee body may lead to
					// g([]T{a1, ..., aN}...), which we simplify to g(a1, ..., an)
					// later; see replaceCalleeID.
					n := len(params) - 1
					ordinary, extra := args[:n], args[n:]
					var elts []ast.Expr
					freevars := make(map[string]bool)
					pure, effects := true, false
					for _, arg := range extra {
						elts = append(elts, arg.expr)
						pure = pure && arg.pure
						effects = effects || arg.effects
						maps.Copy(freevars, arg.freevars)
					}
					args = append(ordinary, &argument{
						expr: &ast.CompositeLit{
							Type: lastParamFieldType,
							Elts: elts,
						},
						typ:        lastParam.obj.Type(),
						constant:   nil,
						pure:       pure,
						effects:    effects,
						duplicable: false,
						freevars:   freevars,
						variadic:   true,
					})
				}
			}
		}
	}

	// Substitute type parameters in calleeDecl AST with type arguments from the
	// call, and synchronize the parameter metadata.
	{
		typeArgs := st.typeArguments(caller.Call)
		if len(typeArgs) != len(callee.TypeParams) {
			return nil, fmt.Errorf("cannot inline: type parameter inference is not yet supported")
		}
		if err := substituteTypeParams(logf, callee.TypeParams, typeArgs, replaceCalleeID); err != nil {
			return nil, err
		}
		// Synchronize the parameters' type pointers with the mutated calleeDecl.
		syncParamFieldTypes(calleeDecl, params)
	}

	// Log effective arguments.
	for i, arg := range args {
		logf("arg #%d: %s pure=%t effects=%t duplicable=%t free=%v type=%v",
			i, debugFormatNode(caller.Fset, arg.expr),
			arg.pure, arg.effects, arg.duplicable, arg.freevars, arg.typ)
	}

	// Note: computation below should be expressed in terms of
	// the args and params slices, not the raw material.

	// Perform parameter substitution.
	// May eliminate some elements of params/args.
	substitute(logf, caller, params, args, callee.Effects, callee.Falcon, replaceCalleeID)

	// Update the callee's signature syntax.
	updateCalleeParams(calleeDecl, params)

	// Create a var (param = arg; ...) decl for use by some strategies.
	bindingDecl := createBindingDecl(logf, caller, args, calleeDecl, callee.Results)

	var remainingArgs []ast.Expr
	for _, arg := range args {
		if arg != nil {
			remainingArgs = append(remainingArgs, arg.expr)
		}
	}

	// -- let the inlining strategies begin --
	//
	// When we commit to a strategy, we log a message of the form:
	//
	//   "strategy: reduce expr-context call to { return expr }"
	//
	// This is a terse way of saying:
	//
	//    we plan to reduce a call
	//    that appears in expression context
	//    to a function whose body is of the form { return expr }

	// TODO(adonovan): split this huge function into a sequence of
	// function calls with an error sentinel that means "try the
	// next strategy", and make sure each strategy writes to the
	// log the reason it didn't match.

	// Special case: eliminate a call to a function whose body is empty.
	// (=> callee has no results and caller is a statement.)
	//
	//    func f(params) {}
	//    f(args)
	//    => _, _ = args
	//
	if len(calleeDecl.Body.List) == 0 {
		logf("strategy: reduce call to empty body")

		// Evaluate the arguments for effects and delete the call entirely.
		// Note(golang/go#71486): stmt can be nil if the call is in a go or defer
		// statement.
		// TODO: discard go or defer statements as well.
		if stmt := callStmt(caller.path, false); stmt != nil {
			res.old = stmt
			if nargs := len(remainingArgs); nargs > 0 {
				// Emit "_, _ = args" to discard results.

				// TODO(adonovan): if args is the []T{a1, ..., an}
				// literal synthesized during variadic simplification,
				// consider unwrapping it to its (pure) elements.
				// Perhaps there's no harm doing this for any slice literal.

				// Make correction for spread calls
				// f(g()) or recv.f(g()) where g() is a tuple.
				if last := last(args); last != nil && last.spread {
					nspread := last.typ.(*types.Tuple).Len()
					if len(args) > 1 { // [recv, g()]
						// A single AssignStmt cannot discard both, so use a 2-spec var decl.
						res.new = &ast.GenDecl{
							Tok: token.VAR,
							Specs: []ast.Spec{
								&ast.ValueSpec{
									Names:  []*ast.Ident{makeIdent("_")},
									Values: []ast.Expr{args[0].expr},
								},
								&ast.ValueSpec{
									Names:  blanks[*ast.Ident](nspread),
									Values: []ast.Expr{args[1].expr},
								},
							},
						}
						return res, nil
					}

					// Sole argument is spread call.
					nargs = nspread
				}

				res.new = &ast.AssignStmt{
					Lhs: blanks[ast.Expr](nargs),
					Tok: token.ASSIGN,
					Rhs: remainingArgs,
				}

			} else {
				// No remaining arguments: delete call statement entirely
				res.new = &ast.EmptyStmt{}
			}
			return res, nil
		}
	}

	// If all parameters have been substituted and no result
	// variable is referenced, we don't need a binding decl.
	// This may enable better reduction strategies.
	allResultsUnreferenced := forall(callee.Results, func(i int, r *paramInfo) bool { return len(r.Refs) == 0 })
	needBindingDecl := !allResultsUnreferenced ||
		exists(params, func(i int, p *parameter) bool { return p != nil })

	// The two strategies below overlap for a tail call of {return exprs}:
	// The expr-context reduction is nice because it keeps the
	// caller's return stmt and merely switches its operand,
	// without introducing a new block, but it doesn't work with
	// implicit return conversions.
	//
	// TODO(adonovan): unify these cases more cleanly, allowing return-
	// operand replacement and implicit conversions, by adding
	// conversions around each return operand (if not a spread return).

	// Special case: call to { return exprs }.
	//
	// Reduces to:
	//	    { var (bindings); _, _ = exprs }
	//     or   _, _ = exprs
	//     or   expr
	//
	// If:
	// - the body is just "return expr" with trivial implicit conversions,
	//   or the caller's return type matches the callee's,
	// - all parameters and result vars can be eliminated
	//   or replaced by a binding decl,
	// then the call expression can be replaced by the
	// callee's body expression, suitably substituted.
	if len(calleeDecl.Body.List) == 1 &&
		is[*ast.ReturnStmt](calleeDecl.Body.List[0]) &&
		len(calleeDecl.Body.List[0].(*ast.ReturnStmt).Results) > 0 { // not a bare return
		results := calleeDecl.Body.List[0].(*ast.ReturnStmt).Results

		parent, grandparent := callContext(caller.path)

		// statement context
		if stmt, ok := parent.(*ast.ExprStmt); ok &&
			(!needBindingDecl || bindingDecl != nil) {
			logf("strategy: reduce stmt-context call to { return exprs }")
			clearPositions(calleeDecl.Body)

			if callee.ValidForCallStmt {
				logf("callee body is valid as statement")
				// Inv: len(results) == 1
				if !needBindingDecl {
					// Reduces to: expr
					res.old = caller.Call
					res.new = results[0]
				} else {
					// Reduces to: { var (bindings); expr }
					res.bindingDecl = true
					res.old = stmt
					res.new = &ast.BlockStmt{
						List: []ast.Stmt{
							bindingDecl.stmt,
							&ast.ExprStmt{X: results[0]},
						},
					}
				}
			} else {
				logf("callee body is not valid as statement")
				// The call is a standalone statement, but the
				// callee body is not suitable as a standalone statement
				// (f() or <-ch), explicitly discard the results:
				// Reduces to: _, _ = exprs
				discard := &ast.AssignStmt{
					Lhs: blanks[ast.Expr](callee.NumResults),
					Tok: token.ASSIGN,
					Rhs: results,
				}
				res.old = stmt
				if !needBindingDecl {
					// Reduces to: _, _ = exprs
					res.new = discard
				} else {
					// Reduces to: { var (bindings); _, _ = exprs }
					res.bindingDecl = true
					res.new = &ast.BlockStmt{
						List: []ast.Stmt{
							bindingDecl.stmt,
							discard,
						},
					}
				}
			}
			return res, nil
		}

		// Assignment context.
		//
		// If there is no binding decl, or if the binding decl declares no names,
		// an assignment a, b := f() can be reduced to a, b := x, y.
		if stmt, ok := parent.(*ast.AssignStmt); ok &&
			is[*ast.BlockStmt](grandparent) &&
			(!needBindingDecl || (bindingDecl != nil && len(bindingDecl.names) == 0)) {

			// Reduces to: { var (bindings); lhs... := rhs... }
			if newStmts, ok := st.assignStmts(stmt, results, istate.importName); ok {
				logf("strategy: reduce assign-context call to { return exprs }")

				clearPositions(calleeDecl.Body)

				block := &ast.BlockStmt{
					List: newStmts,
				}
				if needBindingDecl {
					res.bindingDecl = true
					block.List = prepend(bindingDecl.stmt, block.List...)
				}

				// assignStmts does not introduce new bindings, and replacing an
				// assignment only works if the replacement occurs in the same scope.
				// Therefore, we must ensure that braces are elided.
				res.elideBraces = true
				res.old = stmt
				res.new = block
				return res, nil
			}
		}

		// expression context
		if !needBindingDecl {
			clearPositions(calleeDecl.Body)

			anyNonTrivialReturns := hasNonTrivialReturn(callee.Returns)

			if callee.NumResults == 1 {
				logf("strategy: reduce expr-context call to { return expr }")
				// (includes some simple tail-calls)

				// Make implicit return conversion explicit.
				if anyNonTrivialReturns {
					results[0] = convert(calleeDecl.Type.Results.List[0].Type, results[0])
				}

				res.old = caller.Call
				res.new = results[0]
				return res, nil

			} else if !anyNonTrivialReturns {
				logf("strategy: reduce spread-context call to { return expr }")
				// There is no general way to reify conversions in a spread
				// return, hence the requirement above.
				//
				// TODO(adonovan): allow this reduction when no
				// conversion is required by the context.

				// The call returns multiple results but is
				// not a standalone call statement. It must
				// be the RHS of a spread assignment:
				//   var x, y  = f()
				//       x, y := f()
				//       x, y  = f()
				// or the sole argument to a spread call:
				//        printf(f())
				// or spread return statement:
				//        return f()
				res.old = parent
				switch context := parent.(type) {
				case *ast.AssignStmt:
					// Inv: the call must be in Rhs[0], not Lhs.
					assign := shallowCopy(context)
					assign.Rhs = results
					res.new = assign
				case *ast.ValueSpec:
					// Inv: the call must be in Values[0], not Names.
					spec := shallowCopy(context)
					spec.Values = results
					res.new = spec
				case *ast.CallExpr:
					// Inv: the call must be in Args[0], not Fun.
					call := shallowCopy(context)
					call.Args = results
					res.new = call
				case *ast.ReturnStmt:
					// Inv: the call must be Results[0].
					ret := shallowCopy(context)
					ret.Results = results
					res.new = ret
				default:
					return nil, fmt.Errorf("internal error: unexpected context %T for spread call", context)
				}
				return res, nil
			}
		}
	}

	// Special case: tail-call.
	//
	// Inlining:
	//         return f(args)
	// where:
	//         func f(params) (results) { body }
	// reduces to:
	//         { var (bindings); body }
	//         { body }
	// so long as:
	// - all parameters can be eliminated or replaced by a binding decl,
	// - call is a tail-call;
	// - all returns in body have trivial result conversions,
	//   or the caller's return type matches the callee's,
	// - there is no label conflict;
	// - no result variable is referenced by name,
	//   or implicitly by a bare return.
	//
	// The body may use defer, arbitrary control flow, and
	// multiple returns.
	//
	// TODO(adonovan): add a strategy for a 'void tail
	// call', i.e. a call statement prior to an (explicit
	// or implicit) return.
	parent, _ := callContext(caller.path)
	if ret, ok := parent.(*ast.ReturnStmt); ok &&
		len(ret.Results) == 1 &&
		tailCallSafeReturn(caller, calleeSymbol, callee) &&
		!callee.HasBareReturn &&
		(!needBindingDecl || bindingDecl != nil) &&
		!hasLabelConflict(caller.path, callee.Labels) &&
		allResultsUnreferenced {
		logf("strategy: reduce tail-call")
		body := calleeDecl.Body
		clearPositions(body)
		if needBindingDecl {
			res.bindingDecl = true
			body.List = prepend(bindingDecl.stmt, body.List...)
		}
		res.old = ret
		res.new = body
		return res, nil
	}

	// Special case: call to void function
	//
	// Inlining:
	//         f(args)
	// where:
	//	   func f(params) { stmts }
	// reduces to:
	//         { var (bindings); stmts }
	//         { stmts }
	// so long as:
	// - callee is a void function (no returns)
	// - callee does not use defer
	// - there is no label conflict between caller and callee
	// - all parameters and result vars can be eliminated
	//   or replaced by a binding decl,
	// - caller ExprStmt is in unrestricted statement context.
	if stmt := callStmt(caller.path, true); stmt != nil &&
		(!needBindingDecl || bindingDecl != nil) &&
		!callee.HasDefer &&
		!hasLabelConflict(caller.path, callee.Labels) &&
		len(callee.Returns) == 0 {
		logf("strategy: reduce stmt-context call to { stmts }")
		body := calleeDecl.Body
		var repl ast.Stmt = body
		clearPositions(repl)
		if needBindingDecl {
			body.List = prepend(bindingDecl.stmt, body.List...)
		}
		res.old = stmt
		res.new = repl
		return res, nil
	}

	// TODO(adonovan): parameterless call to { stmts; return expr }
	// from one of these contexts:
	//    x, y     = f()
	//    x, y    := f()
	//    var x, y = f()
	// =>
	//    var (x T1, y T2); { stmts; x, y = expr }
	//
	// Because the params are no longer declared simultaneously
	// we need to check that (for example) x ∉ freevars(T2),
	// in addition to the usual checks for arg/result conversions,
	// complex control, etc.
	// Also test cases where expr is an n-ary call (spread returns).

	// Literalization isn't quite infallible.
	// Consider a spread call to a method in which
	// no parameters are eliminated, e.g.
	// 	new(T).f(g())
	// where
	//  	func (recv *T) f(x, y int) { body }
	//  	func g() (int, int)
	// This would be literalized to:
	// 	func (recv *T, x, y int) { body }(new(T), g()),
	// which is not a valid argument list because g() must appear alone.
	// Reject this case for now.
	if len(args) == 2 && args[0] != nil && args[1] != nil && is[*types.Tuple](args[1].typ) {
		return nil, fmt.Errorf("can't yet inline spread call to method")
	}

	// Infallible general case: literalization.
	//
	//    func(params) { body }(args)
	//
	logf("strategy: literalization")
	funcLit := &ast.FuncLit{
		Type: calleeDecl.Type,
		Body: calleeDecl.Body,
	}
	// clear positions before prepending the binding decl below, since the
	// binding decl contains syntax from the caller and we must not mutate the
	// caller. (This was a prior bug.)
	clearPositions(funcLit)

	// Literalization can still make use of a binding
	// decl as it gives a more natural reading order:
	//
	//    func() { var params = args; body }()
	//
	// TODO(adonovan): relax the allResultsUnreferenced requirement
	// by adding a parameter-only (no named results) binding decl.
	if bindingDecl != nil && allResultsUnreferenced {
		funcLit.Type.Params.List = nil
		remainingArgs = nil
		res.bindingDecl = true
		funcLit.Body.List = prepend(bindingDecl.stmt, funcLit.Body.List...)
	}

	// Emit a new call to a function literal in place of
	// the callee name, with appropriate replacements.
	newCall := &ast.CallExpr{
		Fun:      funcLit,
		Ellipsis: token.NoPos, // f(slice...) is always simplified
		Args:     remainingArgs,
	}
	res.old = caller.Call
	res.new = newCall
	return res, nil
}

// renameFreeObjs computes the renaming of the callee's free identifiers.
// It returns a slice of names (identifiers or selector expressions) corresponding
// to the callee's free objects (gobCallee.FreeObjs).
func (st *state) renameFreeObjs(istate *importState) ([]ast.Expr, error) {
	caller, callee := st.caller, &st.callee.impl
	objRenames := make([]ast.Expr, len(callee.FreeObjs)) // nil => no change
	for i, obj := range callee.FreeObjs {
		// obj is a free object of the callee.
		//
		// Possible cases are:
		// - builtin function, type, or value (e.g. nil, zero)
		//   => check not shadowed in caller.
		// - package-level var/func/const/types
		//   => same package: check not shadowed in caller.
		//   => otherwise: import other package, form a qualified identifier.
		//      (Unexported cross-package references were rejected already.)
		// - type parameter
		//   => not yet supported
		// - pkgname
		//   => import other package and use its local name.
		//
		// There can be no free references to labels, fields, or methods.

		// Note that we must consider potential shadowing both
		// at the caller side (caller.lookup) and, when
		// choosing new PkgNames, within the callee (obj.shadow).

		var newName ast.Expr
		if obj.Kind == "pkgname" {
			// Use locally appropriate import, creating as needed.
			n := istate.localName(obj.PkgPath, obj.PkgName, obj.Name, obj.Shadow)
			newName = makeIdent(n) // imported package
		} else if !obj.ValidPos {
			// Built-in function, type, or value (e.g. nil, zero):
			// check not shadowed at caller.
			found := caller.lookup(obj.Name) // always finds something
			if found.Pos().IsValid() {
				return nil, fmt.Errorf("cannot inline, because the callee refers to built-in %q, which in the caller is shadowed by a %s (declared at line %d)",
					obj.Name, objectKind(found),
					caller.Fset.PositionFor(found.Pos(), false).Line)
			}

		} else {
			// Must be reference to package-level var/func/const/type,
			// since type parameters are not yet supported.
			qualify := false
			if obj.PkgPath == callee.PkgPath {
				// reference within callee package
				if caller.Types.Path() == callee.PkgPath {
					// Caller and callee are in same package.
					// Check caller has not shadowed the decl.
					//
					// This may fail if the callee is "fake", such as for signature
					// refactoring where the callee is modified to be a trivial wrapper
					// around the refactored signature.
					found := caller.lookup(obj.Name)
					if found != nil && !isPkgLevel(found) {
						return nil, fmt.Errorf("cannot inline, because the callee refers to %s %q, which in the caller is shadowed by a %s (declared at line %d)",
							obj.Kind, obj.Name,
							objectKind(found),
							caller.Fset.PositionFor(found.Pos(), false).Line)
					}
				} else {
					// Cross-package reference.
					qualify = true
				}
			} else {
				// Reference to a package-level declaration
				// in another package, without a qualified identifier:
				// it must be a dot import.
				qualify = true
			}

			// Form a qualified identifier, pkg.Name.
			if qualify {
				pkgName := istate.localName(obj.PkgPath, obj.PkgName, obj.PkgName, obj.Shadow)
				newName = &ast.SelectorExpr{
					X:   makeIdent(pkgName),
					Sel: makeIdent(obj.Name),
				}
			}
		}
		objRenames[i] = newName
	}
	return objRenames, nil
}

type argument struct {
	expr          ast.Expr
	typ           types.Type      // may be tuple for sole non-receiver arg in spread call
	constant      constant.Value  // value of argument if constant
	spread        bool            // final arg is call() assigned to multiple params
	pure          bool            // expr is pure (doesn't read variables)
	effects       bool            // expr has effects (updates variables)
	duplicable    bool            // expr may be duplicated
	freevars      map[string]bool // free names of expr
	variadic      bool            // is explicit []T{...} for eliminated variadic
	desugaredRecv bool            // is *recv or &recv, where operator was elided
}

// typeArguments returns the type arguments of the call.
// It only collects the arguments that are explicitly provided; it does
// not attempt type inference.
func (st *state) typeArguments(call *ast.CallExpr) []*argument {
	var exprs []ast.Expr
	switch d := ast.Unparen(call.Fun).(type) {
	case *ast.IndexExpr:
		exprs = []ast.Expr{d.Index}
	case *ast.IndexListExpr:
		exprs = d.Indices
	default:
		// No type  arguments
		return nil
	}
	var args []*argument
	for _, e := range exprs {
		arg := &argument{expr: e, freevars: freeVars(st.caller.Info, e)}
		args = append(args, arg)
	}
	return args
}

// arguments returns the effective arguments of the call.
//
// If the receiver argument and parameter have
// different pointerness, make the "&" or "*" explicit.
//
// Also, if x.f() is shorthand for promoted method x.y.f(),
// make the .y explicit in T.f(x.y, ...).
//
// Beware that:
//
//   - a method can only be called through a selection, but only
//     the first of these two forms needs special treatment:
//
//     expr.f(args)     -> ([&*]expr, args)	MethodVal
//     T.f(recv, args)  -> (    expr, args)	MethodExpr
//
//   - the presence of a value in receiver-position in the call
//     is a property of the caller, not the callee. A method
//     (calleeDecl.Recv != nil) may be called like an ordinary
//     function.
//
//   - the types.Signatures seen by the caller (from
//     StaticCallee) and by the callee (from decl type)
//     differ in this case.
//
// In a spread call f(g()), the sole ordinary argument g(),
// always last in args, has a tuple type.
//
// We compute type-based predicates like pure, duplicable,
// freevars, etc, now, before we start modifying syntax.
func (st *state) arguments(caller *Caller, calleeDecl *ast.FuncDecl, assign1 func(*types.Var) bool) ([]*argument, error) {
	var args []*argument

	callArgs := caller.Call.Args
	if calleeDecl.Recv != nil {
		if len(st.callee.impl.TypeParams) > 0 {
			return nil, fmt.Errorf("cannot inline: generic methods not yet supported")
		}
		sel := ast.Unparen(caller.Call.Fun).(*ast.SelectorExpr)
		seln := caller.Info.Selections[sel]
		var recvArg ast.Expr
		switch seln.Kind() {
		case types.MethodVal: // recv.f(callArgs)
			recvArg = sel.X
		case types.MethodExpr: // T.f(recv, callArgs)
			recvArg = callArgs[0]
			callArgs = callArgs[1:]
		}
		if recvArg != nil {
			// Compute all the type-based predicates now,
			// before we start meddling with the syntax;
			// the meddling will update them.
			arg := &argument{
				expr:       recvArg,
				typ:        caller.Info.TypeOf(recvArg),
				constant:   caller.Info.Types[recvArg].Value,
				pure:       pure(caller.Info, assign1, recvArg),
				effects:    st.effects(caller.Info, recvArg),
				duplicable: duplicable(caller.Info, recvArg),
				freevars:   freeVars(caller.Info, recvArg),
			}
			recvArg = nil // prevent accidental use

			// Move receiver argument recv.f(args) to argument list f(&recv, args).
			args = append(args, arg)

			// Make field selections explicit (recv.f -> recv.y.f),
			// updating arg.{expr,typ}.
			indices := seln.Index()
			for _, index := range indices[:len(indices)-1] {
				fld := typeparams.CoreType(typeparams.Deref(arg.typ)).(*types.Struct).Field(index)
				if fld.Pkg() != caller.Types && !fld.Exported() {
					return nil, fmt.Errorf("in %s, implicit reference to unexported field .%s cannot be made explicit",
						debugFormatNode(caller.Fset, caller.Call.Fun),
						fld.Name())
				}
				if isPointer(arg.typ) {
					arg.pure = false // implicit *ptr operation => impure
				}
				arg.expr = &ast.SelectorExpr{
					X:   arg.expr,
					Sel: makeIdent(fld.Name()),
				}
				arg.typ = fld.Type()
				arg.duplicable = false
			}

			// Make * or & explicit.
			argIsPtr := isPointer(arg.typ)
			paramIsPtr := isPointer(seln.Obj().Type().Underlying().(*types.Signature).Recv().Type())
			if !argIsPtr && paramIsPtr {
				// &recv
				arg.expr = &ast.UnaryExpr{Op: token.AND, X: arg.expr}
				arg.typ = types.NewPointer(arg.typ)
				arg.desugaredRecv = true
			} else if argIsPtr && !paramIsPtr {
				// *recv
				arg.expr = &ast.StarExpr{X: arg.expr}
				arg.typ = typeparams.Deref(arg.typ)
				arg.duplicable = false
				arg.pure = false
				arg.desugaredRecv = true
			}
		}
	}
	for _, expr := range callArgs {
		tv := caller.Info.Types[expr]
		args = append(args, &argument{
			expr:       expr,
			typ:        tv.Type,
			constant:   tv.Value,
			spread:     is[*types.Tuple](tv.Type), // => last
			pure:       pure(caller.Info, assign1, expr),
			effects:    st.effects(caller.Info, expr),
			duplicable: duplicable(caller.Info, expr),
			freevars:   freeVars(caller.Info, expr),
		})
	}

	// Re-typecheck each constant argument expression in a neutral context.
	//
	// In a call such as func(int16){}(1), the type checker infers
	// the type "int16", not "untyped int", for the argument 1,
	// because it has incorporated information from the left-hand
	// side of the assignment implicit in parameter passing, but
	// of course in a different context, the expression 1 may have
	// a different type.
	//
	// So, we must use CheckExpr to recompute the type of the
	// argument in a neutral context to find its inherent type.
	// (This is arguably a bug in go/types, but I'm pretty certain
	// I requested it be this way long ago... -adonovan)
	//
	// This is only needed for constants. Other implicit
	// assignment conversions, such as unnamed-to-named struct or
	// chan to <-chan, do not result in the type-checker imposing
	// the LHS type on the RHS value.
	for _, arg := range args {
		if arg.constant == nil {
			continue
		}
		info := &types.Info{Types: make(map[ast.Expr]types.TypeAndValue)}
		if err := types.CheckExpr(caller.Fset, caller.Types, caller.Call.Pos(), arg.expr, info); err != nil {
			return nil, err
		}
		arg.typ = info.TypeOf(arg.expr)
	}

	return args, nil
}

type parameter struct {
	obj       *types.Var // parameter var from caller's signature
	fieldType ast.Expr   // syntax of type, from calleeDecl.Type.{Recv,Params}
	info      *paramInfo // information from AnalyzeCallee
	variadic  bool       // (final) parameter is unsimplified ...T
}

// A replacer replaces an identifier at the given offset in the callee.
// The replacement tree must not belong to the caller; use cloneNode as needed.
// If unpackVariadic is set, the replacement is a composite resulting from
// variadic elimination, and may be unpacked into variadic calls.
type replacer = func(offset int, repl ast.Expr, unpackVariadic bool)

// substituteTypeParams replaces type parameters in the callee with the
// corresponding type arguments from the call.
func substituteTypeParams(logf logger, typeParams []*paramInfo, typeArgs []*argument, replace replacer) error {
	assert(len(typeParams) == len(typeArgs), "mismatched number of type params/args")
	for i, paramInfo := range typeParams {
		arg := typeArgs[i]
		// Perform a simplified, conservative shadow analysis: fail if there is any shadowing.
		for free := range arg.freevars {
			if paramInfo.Shadow[free] != 0 {
				return fmt.Errorf("cannot inline: type argument #%d (type parameter %s) is shadowed", i, paramInfo.Name)
			}
		}
		logf("replacing type param %s with %s", paramInfo.Name, debugFormatNode(token.NewFileSet(), arg.expr))
		for _, ref := range paramInfo.Refs {
			replace(ref.Offset, internalastutil.CloneNode(arg.expr), false)
		}
	}
	return nil
}

// syncParamFieldTypes synchronizes the fieldType of each parameter in params
// with the mutated calleeDecl AST. This is necessary because substituteTypeParams
// mutates the calleeDecl AST, replacing type nodes, but params still references
// the original (now outdated) type nodes.
func syncParamFieldTypes(calleeDecl *ast.FuncDecl, params []*parameter) {
	var i int
	setFieldType := func(t ast.Expr) {
		assert(i < len(params), "mismatched parameter count")
		params[i].fieldType = t
		i++
	}

	if calleeDecl.Recv != nil && len(calleeDecl.Recv.List) > 0 {
		setFieldType(calleeDecl.Recv.List[0].Type)
	}
	if calleeDecl.Type.Params != nil {
		for _, field := range calleeDecl.Type.Params.List {
			if field.Names == nil {
				setFieldType(field.Type)
			} else {
				for range field.Names {
					setFieldType(field.Type)
				}
			}
		}
	}
	assert(i == len(params), "mismatched parameter count")
}

// substitute implements parameter elimination by substitution.
//
// It considers each parameter and its corresponding argument in turn
// and evaluate these conditions:
//
//   - the parameter is neither address-taken nor assigned;
//   - the argument is pure;
//   - if the parameter refcount is zero, the argument must
//     not contain the last use of a local var;
//   - if the parameter refcount is > 1, the argument must be duplicable;
//   - the argument (or types.Default(argument) if it's untyped) has
//     the same type as the parameter.
//
// If all conditions are met then the parameter can be substituted and
// each reference to it replaced by the argument. In that case, the
// replaceCalleeID function is called for each reference to the
// parameter, and is provided with its relative offset and replacement
// expression (argument), and the corresponding elements of params and
// args are replaced by nil.
func substitute(logf logger, caller *Caller, params []*parameter, args []*argument, effects []int, falcon falconResult, replace replacer) {
	// Inv:
	//  in        calls to     variadic, len(args) >= len(params)-1
	//  in spread calls to non-variadic, len(args) <  len(params)
	//  in spread calls to     variadic, len(args) <= len(params)
	// (In spread calls len(args) = 1, or 2 if call has receiver.)
	// Non-spread variadics have been simplified away already,
	// so the args[i] lookup is safe if we stop after the spread arg.
	assert(len(args) <= len(params), "too many arguments")

	// Collect candidates for substitution.
	//
	// An argument is a candidate if it is not otherwise rejected, and any free
	// variables that are shadowed only by other parameters.
	//
	// Therefore, substitution candidates are represented by a graph, where edges
	// lead from each argument to the other arguments that, if substituted, would
	// allow the argument to be substituted. We collect these edges in the
	// [substGraph]. Any node that is known not to be elided from the graph.
	// Arguments in this graph with no edges are substitutable independent of
	// other nodes, though they may be removed due to falcon or effects analysis.
	sg := make(substGraph)
next:
	for i, param := range params {
		arg := args[i]

		// Check argument against parameter.
		//
		// Beware: don't use types.Info on arg since
		// the syntax may be synthetic (not created by parser)
		// and thus lacking positions and types;
		// do it earlier (see pure/duplicable/freevars).

		if arg.spread {
			// spread => last argument, but not always last parameter
			logf("keeping param %q and following ones: argument %s is spread",
				param.info.Name, debugFormatNode(caller.Fset, arg.expr))
			return // give up
		}
		assert(!param.variadic, "unsimplified variadic parameter")
		if param.info.Escapes {
			logf("keeping param %q: escapes from callee", param.info.Name)
			continue
		}
		if param.info.Assigned {
			logf("keeping param %q: assigned by callee", param.info.Name)
			continue // callee needs the parameter variable
		}
		if len(param.info.Refs) > 1 && !arg.duplicable {
			logf("keeping param %q: argument is not duplicable", param.info.Name)
			continue // incorrect or poor style to duplicate an expression
		}
		if len(param.info.Refs) == 0 {
			if arg.effects {
				logf("keeping param %q: though unreferenced, it has effects", param.info.Name)
				continue
			}

			// If the caller is within a function body,
			// eliminating an unreferenced parameter might
			// remove the last reference to a caller local var.
			if caller.enclosingFunc != nil {
				for free := range arg.freevars {
					// TODO(rfindley): we can get this 100% right by looking for
					// references among other arguments which have non-zero references
					// within the callee.
					if v, ok := caller.lookup(free).(*types.Var); ok && within(v.Pos(), caller.enclosingFunc.Body) && !isUsedOutsideCall(caller, v) {

						// Check to see if the substituted var is used within other args
						// whose corresponding params ARE used in the callee
						usedElsewhere := func() bool {
							for i, param := range params {
								if i < len(args) && len(param.info.Refs) > 0 { // excludes original param
									for name := range args[i].freevars {
										if caller.lookup(name) == v {
											return true
										}
									}
								}
							}
							return false
						}
						if !usedElsewhere() {
							logf("keeping param %q: arg contains perhaps the last reference to caller local %v @ %v",
								param.info.Name, v, caller.Fset.PositionFor(v.Pos(), false))
							continue next
						}
					}
				}
			}
		}

		// Arg is a potential substitution candidate: analyze its shadowing.
		//
		// Consider inlining a call f(z, 1) to
		//
		// 	func f(x, y int) int { z := y; return x + y + z }
		//
		// we can't replace x in the body by z (or any
		// expression that has z as a free identifier) because there's an
		// intervening declaration of z that would shadow the caller's one.
		//
		// However, we *could* replace x in the body by y, as long as the y
		// parameter is also removed by substitution.

		sg[arg] = nil // Absent shadowing, the arg is substitutable.
		for free := range arg.freevars {
			switch s := param.info.Shadow[free]; {
			case s < 0:
				// Shadowed by a non-parameter symbol, so arg is not substitutable.
				delete(sg, arg)
			case s > 0:
				// Shadowed by a parameter; arg may be substitutable, if only shadowed
				// by other substitutable parameters.
				if s > len(args) {
					// Defensive: this should not happen in the current factoring, since
					// spread arguments are already handled.
					delete(sg, arg)
				}
				if edges, ok := sg[arg]; ok {
					sg[arg] = append(edges, args[s-1])
				}
			}
		}
	}

	// Process the initial state of the substitution graph.
	sg.prune()

	// Now we check various conditions on the substituted argument set as a
	// whole. These conditions reject substitution candidates, but since their
	// analysis depends on the full set of candidates, we do not process side
	// effects of their candidate rejection until after the analysis completes,
	// in a call to prune. After pruning, we must re-run the analysis to check
	// for additional rejections.
	//
	// Here's an example of that in practice:
	//
	// 	var a [3]int
	//
	// 	func falcon(x, y, z int) {
	// 		_ = x + a[y+z]
	// 	}
	//
	// 	func _() {
	// 		var y int
	// 		const x, z = 1, 2
	// 		falcon(y, x, z)
	// 	}
	//
	// In this example, arguments 0 and 1 are shadowed by each other's
	// corresponding parameter, and so each can be substituted only if they are
	// both substituted. But the fallible constant analysis finds a violated
	// constraint: x + z = 3, and so the constant array index would cause a
	// compile-time error if argument 1 (x) were substituted. Therefore,
	// following the falcon analysis, we must also prune argument 0.
	//
	// As far as I (rfindley) can tell, the falcon analysis should always succeed
	// after the first pass, as it's not possible for additional bindings to
	// cause new constraint failures. Nevertheless, we re-run it to be sure.
	//
	// However, the same cannot be said of the effects analysis, as demonstrated
	// by this example:
	//
	// 	func effects(w, x, y, z int) {
	// 		_ = x + w + y + z
	// 	}

	// 	func _() {
	// 		v := 0
	// 		w := func() int { v++; return 0 }
	// 		x := func() int { v++; return 0 }
	// 		y := func() int { v++; return 0 }
	// 		effects(x(), w(), y(), x()) //@ inline(re"effects", effects)
	// 	}
	//
	// In this example, arguments 0, 1, and 3 are related by the substitution
	// graph. The first effects analysis implies that arguments 0 and 1 must be
	// bound, and therefore argument 3 must be bound. But then a subsequent
	// effects analysis forces argument 2 to also be bound.

	// Reject constant arguments as substitution candidates if they cause
	// violation of falcon constraints.
	//
	// Keep redoing the analysis until we no longer reject additional arguments,
	// as the set of substituted parameters affects the falcon package.
	for checkFalconConstraints(logf, params, args, falcon, sg) {
		sg.prune()
	}

	// As a final step, introduce bindings to resolve any
	// evaluation order hazards. This must be done last, as
	// additional subsequent bindings could introduce new hazards.
	//
	// As with the falcon analysis, keep redoing the analysis until the no more
	// arguments are rejected.
	for resolveEffects(logf, args, effects, sg) {
		sg.prune()
	}

	// The remaining candidates are safe to substitute.
	for i, param := range params {
		if arg := args[i]; sg.has(arg) {

			// It is safe to substitute param and replace it with arg.
			// The formatter introduces parens as needed for precedence.
			//
			// Because arg.expr belongs to the caller,
			// we clone it before splicing it into the callee tree.
			logf("replacing parameter %q by argument %q",
				param.info.Name, debugFormatNode(caller.Fset, arg.expr))
			for _, ref := range param.info.Refs {
				// Apply any transformations necessary for this reference.
				argExpr := arg.expr

				// If the reference itself is being selected, and we applied desugaring
				// (an explicit &x or *x), we can undo that desugaring here as it is
				// not necessary for a selector. We don't need to check addressability
				// here because if we desugared, the receiver must have been
				// addressable.
				if ref.IsSelectionOperand && arg.desugaredRecv {
					switch e := argExpr.(type) {
					case *ast.UnaryExpr:
						argExpr = e.X
					case *ast.StarExpr:
						argExpr = e.X
					}
				}

				// If the reference requires exact type agreement between parameter and
				// argument, wrap the argument in an explicit conversion if
				// substitution might materially change its type. (We already did the
				// necessary shadowing check on the parameter type syntax.)
				//
				// The types must agree in any of these cases:
				// - the argument affects type inference;
				// - the reference's concrete type is assigned to an interface type;
				// - the reference is not an assignment, nor a trivial conversion of an untyped constant.
				//
				// In all other cases, no explicit conversion is necessary as either
				// the type does not matter, or must have already agreed for well-typed
				// code.
				//
				// This is only needed for substituted arguments. All other arguments
				// are given explicit types in either a binding decl or when using the
				// literalization strategy.
				//
				// If the types are identical, we can eliminate
				// redundant type conversions such as this:
				//
				// Callee:
				//    func f(i int32) { fmt.Println(i) }
				// Caller:
				//    func g() { f(int32(1)) }
				// Inlined as:
				//    func g() { fmt.Println(int32(int32(1)))
				//
				// Recall that non-trivial does not imply non-identical for constant
				// conversions; however, at this point state.arguments has already
				// re-typechecked the constant and set arg.type to its (possibly
				// "untyped") inherent type, so the conversion from untyped 1 to int32
				// is non-trivial even though both arg and param have identical types
				// (int32).
				needType := ref.AffectsInference ||
					(ref.Assignable && ref.IfaceAssignment && !param.info.IsInterface) ||
					(!ref.Assignable && !trivialConversion(arg.constant, arg.typ, param.obj.Type()))

				if needType &&
					!types.Identical(types.Default(arg.typ), param.obj.Type()) {

					// If arg.expr is already an interface call, strip it.
					if call, ok := argExpr.(*ast.CallExpr); ok && len(call.Args) == 1 {
						if typ, ok := isConversion(caller.Info, call); ok && isNonTypeParamInterface(typ) {
							argExpr = call.Args[0]
						}
					}

					argExpr = convert(param.fieldType, argExpr)
					logf("param %q (offset %d): adding explicit %s -> %s conversion around argument",
						param.info.Name, ref.Offset, arg.typ, param.obj.Type())
				}
				replace(ref.Offset, internalastutil.CloneNode(argExpr).(ast.Expr), arg.variadic)
			}
			params[i] = nil // substituted
			args[i] = nil   // substituted
		}
	}
}

// isConversion reports whether the given call is a type conversion, returning
// (operand, true) if so.
//
// If the call is not a conversion, it returns (nil, false).
func isConversion(info *types.Info, call *ast.CallExpr) (types.Type, bool) {
	if tv, ok := info.Types[call.Fun]; ok && tv.IsType() {
		return tv.Type, true
	}
	return nil, false
}

// isNonTypeParamInterface reports whether t is a non-type parameter interface
// type.
func isNonTypeParamInterface(t types.Type) bool {
	return !typeparams.IsTypeParam(t) && types.IsInterface(t)
}

// isUsedOutsideCall reports whether v is used outside of caller.Call, within
// the body of caller.enclosingFunc.
func isUsedOutsideCall(caller *Caller, v *types.Var) bool {
	used := false
	ast.Inspect(caller.enclosingFunc.Body, func(n ast.Node) bool {
		if n == caller.Call {
			return false
		}
		switch n := n.(type) {
		case *ast.Ident:
			if use := caller.Info.Uses[n]; use == v {
				used = true
			}
		case *ast.FuncType:
			// All params are used.
			for _, fld := range n.Params.List {
				for _, n := range fld.Names {
					if def := caller.Info.Defs[n]; def == v {
						used = true
					}
				}
			}
		}
		return !used // keep going until we find a use
	})
	return used
}

// checkFalconConstraints checks whether constant arguments
// are safe to substitute (e.g. s[i] -> ""[0] is not safe.)
//
// Any failed constraint causes us to reject all constant arguments as
// substitution candidates (by clearing args[i].substitution=false).
//
// TODO(adonovan): we could obtain a finer result rejecting only the
// freevars of each failed constraint, and processing constraints in
// order of increasing arity, but failures are quite rare.
func checkFalconConstraints(logf logger, params []*parameter, args []*argument, falcon falconResult, sg substGraph) bool {
	// Create a dummy package, as this is the only
	// way to create an environment for CheckExpr.
	pkg := types.NewPackage("falcon", "falcon")

	// Declare types used by constraints.
	for _, typ := range falcon.Types {
		logf("falcon env: type %s %s", typ.Name, types.Typ[typ.Kind])
		pkg.Scope().Insert(types.NewTypeName(token.NoPos, pkg, typ.Name, types.Typ[typ.Kind]))
	}

	// Declared constants and variables for parameters.
	nconst := 0
	for i, param := range params {
		name := param.info.Name
		if name == "" {
			continue // unreferenced
		}
		arg := args[i]
		if arg.constant != nil && sg.has(arg) && param.info.FalconType != "" {
			t := pkg.Scope().Lookup(param.info.FalconType).Type()
			pkg.Scope().Insert(types.NewConst(token.NoPos, pkg, name, t, arg.constant))
			logf("falcon env: const %s %s = %v", name, param.info.FalconType, arg.constant)
			nconst++
		} else {
			v := types.NewVar(token.NoPos, pkg, name, arg.typ)
			typesinternal.SetVarKind(v, typesinternal.PackageVar)
			pkg.Scope().Insert(v)
			logf("falcon env: var %s %s", name, arg.typ)
		}
	}
	if nconst == 0 {
		return false // nothing to do
	}

	// Parse and evaluate the constraints in the environment.
	fset := token.NewFileSet()
	removed := false
	for _, falcon := range falcon.Constraints {
		expr, err := parser.ParseExprFrom(fset, "falcon", falcon, 0)
		if err != nil {
			panic(fmt.Sprintf("failed to parse falcon constraint %s: %v", falcon, err))
		}
		if err := types.CheckExpr(fset, pkg, token.NoPos, expr, nil); err != nil {
			logf("falcon: constraint %s violated: %v", falcon, err)
			for j, arg := range args {
				if arg.constant != nil && sg.has(arg) {
					logf("keeping param %q due falcon violation", params[j].info.Name)
					removed = sg.remove(arg) || removed
				}
			}
			break
		}
		logf("falcon: constraint %s satisfied", falcon)
	}
	return removed
}

// resolveEffects marks arguments as non-substitutable to resolve
// hazards resulting from the callee evaluation order described by the
// effects list.
//
// To do this, each argument is categorized as a read (R), write (W),
// or pure. A hazard occurs when the order of evaluation of a W
// changes with respect to any R or W. Pure arguments can be
// effectively ignored, as they can be safely evaluated in any order.
//
// The callee effects list contains the index of each parameter in the
// order it is first evaluated during execution of the callee. In
// addition, the two special values R∞ and W∞ indicate the relative
// position of the callee's first non-parameter read and its first
// effects (or other unknown behavior).
// For example, the list [0 2 1 R∞ 3 W∞] for func(a, b, c, d)
// indicates that the callee referenced parameters a, c, and b,
// followed by an arbitrary read, then parameter d, and finally
// unknown behavior.
//
// When an argument is marked as not substitutable, we say that it is
// 'bound', in the sense that its evaluation occurs in a binding decl
// or literalized call. Such bindings always occur in the original
// callee parameter order.
//
// In this context, "resolving hazards" means binding arguments so
// that they are evaluated in a valid, hazard-free order. A trivial
// solution to this problem would be to bind all arguments, but of
// course that's not useful. The goal is to bind as few arguments as
// possible.
//
// The algorithm proceeds by inspecting arguments in reverse parameter
// order (right to left), preserving the invariant that every
// higher-ordered argument is either already substituted or does not
// need to be substituted. At each iteration, if there is an
// evaluation hazard in the callee effects relative to the current
// argument, the argument must be bound. Subsequently, if the argument
// is bound for any reason, each lower-ordered argument must also be
// bound if either the argument or lower-order argument is a
// W---otherwise the binding itself would introduce a hazard.
//
// Thus, after each iteration, there are no hazards relative to the
// current argument. Subsequent iterations cannot introduce hazards
// with that argument because they can result only in additional
// binding of lower-ordered arguments.
func resolveEffects(logf logger, args []*argument, effects []int, sg substGraph) bool {
	effectStr := func(effects bool, idx int) string {
		i := fmt.Sprint(idx)
		if idx == len(args) {
			i = "∞"
		}
		return string("RW"[btoi(effects)]) + i
	}
	removed := false
	for i, argi := range slices.Backward(args) {
		if sg.has(argi) && !argi.pure {
			// i is not bound: check whether it must be bound due to hazards.
			idx := slices.Index(effects, i)
			if idx >= 0 {
				for _, j := range effects[:idx] {
					var (
						ji int  // effective param index
						jw bool // j is a write
					)
					if j == winf || j == rinf {
						jw = j == winf
						ji = len(args)
					} else {
						jw = args[j].effects
						ji = j
					}
					if ji > i && (jw || argi.effects) { // out of order evaluation
						logf("binding argument %s: preceded by %s",
							effectStr(argi.effects, i), effectStr(jw, ji))

						removed = sg.remove(argi) || removed
						break
					}
				}
			}
		}
		if !sg.has(argi) {
			for j := range i {
				argj := args[j]
				if argj.pure {
					continue
				}
				if (argi.effects || argj.effects) && sg.has(argj) {
					logf("binding argument %s: %s is bound",
						effectStr(argj.effects, j), effectStr(argi.effects, i))

					removed = sg.remove(argj) || removed
				}
			}
		}
	}
	return removed
}

// A substGraph is a directed graph representing arguments that may be
// substituted, provided all of their related arguments (or "dependencies") are
// also substituted. The candidates arguments for substitution are the keys in
// this graph, and the edges represent shadowing of free variables of the key
// by parameters corresponding to the dependency arguments.
//
// Any argument not present as a map key is known not to be substitutable. Some
// arguments may have edges leading to other arguments that are not present in
// the graph. In this case, those arguments also cannot be substituted, because
// they have free variables that are shadowed by parameters that cannot be
// substituted. Calling [substGraph.prune] removes these arguments from the
// graph.
//
// The 'prune' operation is not built into the 'remove' step both because
// analyses (falcon, effects) need local information about each argument
// independent of dependencies, and for the efficiency of pruning once en masse
// after each analysis.
type substGraph map[*argument][]*argument

// has reports whether arg is a candidate for substitution.
func (g substGraph) has(arg *argument) bool {
	_, ok := g[arg]
	return ok
}

// remove marks arg as not substitutable, reporting whether the arg was
// previously substitutable.
//
// remove does not have side effects on other arguments that may be
// unsubstitutable as a result of their dependency being removed.
// Call [substGraph.prune] to propagate these side effects, removing dependent
// arguments.
func (g substGraph) remove(arg *argument) bool {
	pre := len(g)
	delete(g, arg)
	return len(g) < pre
}

// prune updates the graph to remove any keys that reach other arguments not
// present in the graph.
func (g substGraph) prune() {
	// visit visits the forward transitive closure of arg and reports whether any
	// missing argument was encountered, removing all nodes on the path to it
	// from arg.
	//
	// The seen map is used for cycle breaking. In the presence of cycles, visit
	// may report a false positive for an intermediate argument. For example,
	// consider the following graph, where only a and b are candidates for
	// substitution (meaning, only a and b are present in the graph).
	//
	//   a ↔ b
	//   ↓
	//  [c]
	//
	// In this case, starting a visit from a, visit(b, seen) may report 'true',
	// because c has not yet been considered. For this reason, we must guarantee
	// that visit is called with an empty seen map at least once for each node.
	var visit func(*argument, map[*argument]unit) bool
	visit = func(arg *argument, seen map[*argument]unit) bool {
		deps, ok := g[arg]
		if !ok {
			return false
		}
		if _, ok := seen[arg]; !ok {
			seen[arg] = unit{}
			for _, dep := range deps {
				if !visit(dep, seen) {
					delete(g, arg)
					return false
				}
			}
		}
		return true
	}
	for arg := range g {
		// Remove any argument that is, or transitively depends upon,
		// an unsubstitutable argument.
		//
		// Each visitation gets a fresh cycle-breaking set.
		visit(arg, make(map[*argument]unit))
	}
}

// updateCalleeParams updates the calleeDecl syntax to remove
// substituted parameters and move the receiver (if any) to the head
// of the ordinary parameters.
func updateCalleeParams(calleeDecl *ast.FuncDecl, params []*parameter) {
	// The logic is fiddly because of the three forms of ast.Field:
	//
	//	func(int), func(x int), func(x, y int)
	//
	// Also, ensure that all remaining parameters are named
	// to avoid a mix of named/unnamed when joining (recv, params...).
	// func (T) f(int, bool) -> (_ T, _ int, _ bool)
	// (Strictly, we need do this only for methods and only when
	// the namednesses of Recv and Params differ; that might be tidier.)

	paramIdx := 0 // index in original parameter list (incl. receiver)
	var newParams []*ast.Field
	filterParams := func(field *ast.Field) {
		var names []*ast.Ident
		if field.Names == nil {
			// Unnamed parameter field (e.g. func f(int)
			if params[paramIdx] != nil {
				// Give it an explicit name "_" since we will
				// make the receiver (if any) a regular parameter
				// and one cannot mix named and unnamed parameters.
				names = append(names, makeIdent("_"))
			}
			paramIdx++
		} else {
			// Named parameter field e.g. func f(x, y int)
			// Remove substituted parameters in place.
			// If all were substituted, delete field.
			for _, id := range field.Names {
				if pinfo := params[paramIdx]; pinfo != nil {
					// Rename unreferenced parameters with "_".
					// This is crucial for binding decls, since
					// unlike parameters, they are subject to
					// "unreferenced var" checks.
					if len(pinfo.info.Refs) == 0 {
						id = makeIdent("_")
					}
					names = append(names, id)
				}
				paramIdx++
			}
		}
		if names != nil {
			newParams = append(newParams, &ast.Field{
				Names: names,
				Type:  field.Type,
			})
		}
	}
	if calleeDecl.Recv != nil {
		filterParams(calleeDecl.Recv.List[0])
		calleeDecl.Recv = nil
	}
	for _, field := range calleeDecl.Type.Params.List {
		filterParams(field)
	}
	calleeDecl.Type.Params.List = newParams
}

// bindingDeclInfo records information about the binding decl produced by
// createBindingDecl.
type bindingDeclInfo struct {
	names map[string]bool // names bound by the binding decl; possibly empty
	stmt  ast.Stmt        // the binding decl itself
}

// createBindingDecl constructs a "binding decl" that implements
// parameter assignment and declares any named result variables
// referenced by the callee. It returns nil if there were no
// unsubstituted parameters.
//
// It may not always be possible to create the decl (e.g. due to
// shadowing), in which case it also returns nil; but if it succeeds,
// the declaration may be used by reduction strategies to relax the
// requirement that all parameters have been substituted.
//
// For example, a call:
//
//	f(a0, a1, a2)
//
// where:
//
//	func f(p0, p1 T0, p2 T1) { body }
//
// reduces to:
//
//	{
//	  var (
//	    p0, p1 T0 = a0, a1
//	    p2     T1 = a2
//	  )
//	  body
//	}
//
// so long as p0, p1 ∉ freevars(T1) or freevars(a2), and so on,
// because each spec is statically resolved in sequence and
// dynamically assigned in sequence. By contrast, all
// parameters are resolved simultaneously and assigned
// simultaneously.
//
// The pX names should already be blank ("_") if the parameter
// is unreferenced; this avoids "unreferenced local var" checks.
//
// Strategies may impose additional checks on return
// conversions, labels, defer, etc.
func createBindingDecl(logf logger, caller *Caller, args []*argument, calleeDecl *ast.FuncDecl, results []*paramInfo) *bindingDeclInfo {
	// Spread calls are tricky as they may not align with the
	// parameters' field groupings nor types.
	// For example, given
	//   func g() (int, string)
	// the call
	//   f(g())
	// is legal with these decls of f:
	//   func f(int, string)
	//   func f(x, y any)
	//   func f(x, y ...any)
	// TODO(adonovan): support binding decls for spread calls by
	// splitting parameter groupings as needed.
	if lastArg := last(args); lastArg != nil && lastArg.spread {
		logf("binding decls not yet supported for spread calls")
		return nil
	}

	var (
		specs []ast.Spec
		names = make(map[string]bool) // names defined by previous specs
	)
	// shadow reports whether any name referenced by spec is
	// shadowed by a name declared by a previous spec (since,
	// unlike parameters, each spec of a var decl is within the
	// scope of the previous specs).
	shadow := func(spec *ast.ValueSpec) bool {
		// Compute union of free names of type and values
		// and detect shadowing. Values is the arguments
		// (caller syntax), so we can use type info.
		// But Type is the untyped callee syntax,
		// so we have to use a syntax-only algorithm.
		const includeComplitIdents = true
		free := free.Names(spec.Type, includeComplitIdents)
		for _, value := range spec.Values {
			for name := range freeVars(caller.Info, value) {
				free[name] = true
			}
		}
		for name := range free {
			if names[name] {
				logf("binding decl would shadow free name %q", name)
				return true
			}
		}
		for _, id := range spec.Names {
			if id.Name != "_" {
				names[id.Name] = true
			}
		}
		return false
	}

	// parameters
	//
	// Bind parameters that were not eliminated through
	// substitution. (Non-nil arguments correspond to the
	// remaining parameters in calleeDecl.)
	var values []ast.Expr
	for _, arg := range args {
		if arg != nil {
			values = append(values, arg.expr)
		}
	}
	for _, field := range calleeDecl.Type.Params.List {
		// Each field (param group) becomes a ValueSpec.
		spec := &ast.ValueSpec{
			Names:  cleanNodes(field.Names),
			Type:   cleanNode(field.Type),
			Values: values[:len(field.Names)],
		}
		values = values[len(field.Names):]
		if shadow(spec) {
			return nil
		}
		specs = append(specs, spec)
	}
	assert(len(values) == 0, "args/params mismatch")

	// results
	//
	// Add specs to declare any named result
	// variables that are referenced by the body.
	if calleeDecl.Type.Results != nil {
		resultIdx := 0
		for _, field := range calleeDecl.Type.Results.List {
			if field.Names == nil {
				resultIdx++
				continue // unnamed field
			}
			var names []*ast.Ident
			for _, id := range field.Names {
				if len(results[resultIdx].Refs) > 0 {
					names = append(names, id)
				}
				resultIdx++
			}
			if len(names) > 0 {
				spec := &ast.ValueSpec{
					Names: cleanNodes(names),
					Type:  cleanNode(field.Type),
				}
				if shadow(spec) {
					return nil
				}
				specs = append(specs, spec)
			}
		}
	}

	if len(specs) == 0 {
		logf("binding decl not needed: all parameters substituted")
		return nil
	}

	stmt := &ast.DeclStmt{
		Decl: &ast.GenDecl{
			Tok:   token.VAR,
			Specs: specs,
		},
	}
	logf("binding decl: %s", debugFormatNode(caller.Fset, stmt))
	return &bindingDeclInfo{names: names, stmt: stmt}
}

// lookup does a symbol lookup in the lexical environment of the caller.
func (caller *Caller) lookup(name string) types.Object {
	pos := caller.Call.Pos()
	for _, n := range caller.path {
		if scope := scopeFor(caller.Info, n); scope != nil {
			if _, obj := scope.LookupParent(name, pos); obj != nil {
				return obj
			}
		}
	}
	return nil
}

func scopeFor(info *types.Info, n ast.Node) *types.Scope {
	// The function body scope (containing not just params)
	// is associated with the function's type, not body.
	switch fn := n.(type) {
	case *ast.FuncDecl:
		n = fn.Type
	case *ast.FuncLit:
		n = fn.Type
	}
	return info.Scopes[n]
}

// -- predicates over expressions --

// freeVars returns the names of all free identifiers of e:
// those lexically referenced by it but not defined within it.
// (Fields and methods are not included.)
func freeVars(info *types.Info, e ast.Expr) map[string]bool {
	free := make(map[string]bool)
	ast.Inspect(e, func(n ast.Node) bool {
		if id, ok := n.(*ast.Ident); ok {
			// The isField check is so that we don't treat T{f: 0} as a ref to f.
			if obj, ok := info.Uses[id]; ok && !within(obj.Pos(), e) && !isField(obj) {
				free[obj.Name()] = true
			}
		}
		return true
	})
	return free
}

// effects reports whether an expression might change the state of the
// program (through function calls and channel receives) and affect
// the evaluation of subsequent expressions.
func (st *state) effects(info *types.Info, expr ast.Expr) bool {
	effects := false
	ast.Inspect(expr, func(n ast.Node) bool {
		switch n := n.(type) {
		case *ast.FuncLit:
			return false // prune descent

		case *ast.CallExpr:
			if info.Types[n.Fun].IsType() {
				// A conversion T(x) has only the effect of its operand.
			} else if !typesinternal.CallsPureBuiltin(info, n) {
				// A handful of built-ins have no effect
				// beyond those of their arguments.
				// All other calls (including append, copy, recover)
				// have unknown effects.
				//
				// As with 'pure', there is room for
				// improvement by inspecting the callee.
				effects = true
			}

		case *ast.UnaryExpr:
			if n.Op == token.ARROW { // <-ch
				effects = true
			}
		}
		return true
	})

	// Even if consideration of effects is not desired,
	// we continue to compute, log, and discard them.
	if st.opts.IgnoreEffects && effects {
		effects = false
		st.opts.Logf("ignoring potential effects of argument %s",
			debugFormatNode(st.caller.Fset, expr))
	}

	return effects
}

// pure reports whether an expression has the same result no matter
// when it is executed relative to other expressions, so it can be
// commuted with any other expression or statement without changing
// its meaning.
//
// An expression is considered impure if it reads the contents of any
// variable, with the exception of "single assignment" local variables
// (as classified by the provided callback), which are never updated
// after their initialization.
//
// Pure does not imply duplicable: for example, new(T) and T{} are
// pure expressions but both return a different value each time they
// are evaluated, so they are not safe to duplicate.
//
// Purity does not imply freedom from run-time panics. We assume that
// target programs do not encounter run-time panics nor depend on them
// for correct operation.
//
// TODO(adonovan): add unit tests of this function.
func pure(info *types.Info, assign1 func(*types.Var) bool, e ast.Expr) bool {
	var pure func(e ast.Expr) bool
	pure = func(e ast.Expr) bool {
		switch e := e.(type) {
		case *ast.ParenExpr:
			return pure(e.X)

		case *ast.Ident:
			if v, ok := info.Uses[e].(*types.Var); ok {
				// In general variables are impure
				// as they may be updated, but
				// single-assignment local variables
				// never change value.
				//
				// We assume all package-level variables
				// may be updated, but for non-exported
				// ones we could do better by analyzing
				// the complete package.
				return !isPkgLevel(v) && assign1(v)
			}

			// All other kinds of reference are pure.
			return true

		case *ast.FuncLit:
			// A function literal may allocate a closure that
			// references mutable variables, but mutation
			// cannot be observed without calling the function,
			// and calls are considered impure.
			return true

		case *ast.BasicLit:
			return true

		case *ast.UnaryExpr: // + - ! ^ & but not <-
			return e.Op != token.ARROW && pure(e.X)

		case *ast.BinaryExpr: // arithmetic, shifts, comparisons, &&/||
			return pure(e.X) && pure(e.Y)

		case *ast.CallExpr:
			// A conversion is as pure as its operand.
			if info.Types[e.Fun].IsType() {
				return pure(e.Args[0])
			}

			// Calls to some built-ins are as pure as their arguments.
			if typesinternal.CallsPureBuiltin(info, e) {
				for _, arg := range e.Args {
					if !pure(arg) {
						return false
					}
				}
				return true
			}

			// All other calls are impure, so we can
			// reject them without even looking at e.Fun.
			//
			// More sophisticated analysis could infer purity in
			// commonly used functions such as strings.Contains;
			// perhaps we could offer the client a hook so that
			// go/analysis-based implementation could exploit the
			// results of a purity analysis. But that would make
			// the inliner's choices harder to explain.
			return false

		case *ast.CompositeLit:
			// T{...} is as pure as its elements.
			for _, elt := range e.Elts {
				if kv, ok := elt.(*ast.KeyValueExpr); ok {
					if !pure(kv.Value) {
						return false
					}
					if id, ok := kv.Key.(*ast.Ident); ok {
						if v, ok := info.Uses[id].(*types.Var); ok && v.IsField() {
							continue // struct {field: value}
						}
					}
					// map/slice/array {key: value}
					if !pure(kv.Key) {
						return false
					}

				} else if !pure(elt) {
					return false
				}
			}
			return true

		case *ast.SelectorExpr:
			if seln, ok := info.Selections[e]; ok {
				// See types.SelectionKind for background.
				switch seln.Kind() {
				case types.MethodExpr:
					// A method expression T.f acts like a
					// reference to a func decl, so it is pure.
					return true

				case types.MethodVal, types.FieldVal:
					// A field or method selection x.f is pure
					// if x is pure and the selection does
					// not indirect a pointer.
					return !indirectSelection(seln) && pure(e.X)

				default:
					panic(seln)
				}
			} else {
				// A qualified identifier is
				// treated like an unqualified one.
				return pure(e.Sel)
			}

		case *ast.StarExpr:
			return false // *ptr depends on the state of the heap

		default:
			return false
		}
	}
	return pure(e)
}

// duplicable reports whether it is appropriate for the expression to
// be freely duplicated.
//
// Given the declaration
//
//	func f(x T) T { return x + g() + x }
//
// an argument y is considered duplicable if we would wish to see a
// call f(y) simplified to y+g()+y. This is true for identifiers,
// integer literals, unary negation, and selectors x.f where x is not
// a pointer. But we would not wish to duplicate expressions that:
// - have side effects (e.g. nearly all calls),
// - are not referentially transparent (e.g. &T{}, ptr.field, *ptr), or
// - are long (e.g. "huge string literal").
func duplicable(info *types.Info, e ast.Expr) bool {
	switch e := e.(type) {
	case *ast.ParenExpr:
		return duplicable(info, e.X)

	case *ast.Ident:
		return true

	case *ast.BasicLit:
		v := info.Types[e].Value
		switch e.Kind {
		case token.INT:
			return true // any int
		case token.STRING:
			return consteq(v, kZeroString) // only ""
		case token.FLOAT:
			return consteq(v, kZeroFloat) || consteq(v, kOneFloat) // only 0.0 or 1.0
		}

	case *ast.UnaryExpr: // e.g. +1, -1
		return (e.Op == token.ADD || e.Op == token.SUB) && duplicable(info, e.X)

	case *ast.CompositeLit:
		// Empty struct or array literals T{} are duplicable.
		// (Non-empty literals are too verbose, and slice/map
		// literals allocate indirect variables.)
		if len(e.Elts) == 0 {
			switch info.TypeOf(e).Underlying().(type) {
			case *types.Struct, *types.Array:
				return true
			}
		}
		return false

	case *ast.CallExpr:
		// Treat type conversions as duplicable if they do not observably allocate.
		// The only cases of observable allocations are
		// the `[]byte(string)` and `[]rune(string)` conversions.
		//
		// Duplicating string([]byte) conversions increases
		// allocation but doesn't change behavior, but the
		// reverse, []byte(string), allocates a distinct array,
		// which is observable.

		if !info.Types[e.Fun].IsType() { // check whether e.Fun is a type conversion
			return false
		}

		fun := info.TypeOf(e.Fun)
		arg := info.TypeOf(e.Args[0])

		switch fun := fun.Underlying().(type) {
		case *types.Slice:
			// Do not mark []byte(string) and []rune(string) as duplicable.
			elem, ok := fun.Elem().Underlying().(*types.Basic)
			if ok && (elem.Kind() == types.Rune || elem.Kind() == types.Byte) {
				from, ok := arg.Underlying().(*types.Basic)
				isString := ok && from.Info()&types.IsString != 0
				return !isString
			}
		case *types.TypeParam:
			return false // be conservative
		}
		return true

	case *ast.SelectorExpr:
		if seln, ok := info.Selections[e]; ok {
			// A field or method selection x.f is referentially
			// transparent if it does not indirect a pointer.
			return !indirectSelection(seln)
		}
		// A qualified identifier pkg.Name is referentially transparent.
		return true
	}
	return false
}

func consteq(x, y constant.Value) bool {
	return constant.Compare(x, token.EQL, y)
}

var (
	kZeroInt    = constant.MakeInt64(0)
	kZeroString = constant.MakeString("")
	kZeroFloat  = constant.MakeFloat64(0.0)
	kOneFloat   = constant.MakeFloat64(1.0)
)

// -- inline helpers --

func assert(cond bool, msg string) {
	if !cond {
		panic(msg)
	}
}

// blanks returns a slice of n > 0 blank identifiers.
func blanks[E ast.Expr](n int) []E {
	if n == 0 {
		panic("blanks(0)")
	}
	res := make([]E, n)
	for i := range res {
		res[i] = ast.Expr(makeIdent("_")).(E) // ugh
	}
	return res
}

func makeIdent(name string) *ast.Ident {
	return &ast.Ident{Name: name}
}

// importedPkgName returns the PkgName object declared by an ImportSpec.
// TODO(adonovan): make this a method of types.Info (#62037).
func importedPkgName(info *types.Info, imp *ast.ImportSpec) (*types.PkgName, bool) {
	var obj types.Object
	if imp.Name != nil {
		obj = info.Defs[imp.Name]
	} else {
		obj = info.Implicits[imp]
	}
	pkgname, ok := obj.(*types.PkgName)
	return pkgname, ok
}

func isPkgLevel(obj types.Object) bool {
	// TODO(adonovan): consider using the simpler obj.Parent() ==
	// obj.Pkg().Scope() instead. But be sure to test carefully
	// with instantiations of generics.
	return obj.Pkg().Scope().Lookup(obj.Name()) == obj
}

// callContext returns the two nodes immediately enclosing the call
// (specified as a PathEnclosingInterval), ignoring parens.
func callContext(callPath []ast.Node) (parent, grandparent ast.Node) {
	_ = callPath[0].(*ast.CallExpr) // sanity check
	for _, n := range callPath[1:] {
		if !is[*ast.ParenExpr](n) {
			if parent == nil {
				parent = n
			} else {
				return parent, n
			}
		}
	}
	return parent, nil
}

// hasLabelConflict reports whether the set of labels of the function
// enclosing the call (specified as a PathEnclosingInterval)
// intersects with the set of callee labels.
func hasLabelConflict(callPath []ast.Node, calleeLabels []string) bool {
	labels := callerLabels(callPath)
	for _, label := range calleeLabels {
		if labels[label] {
			return true // conflict
		}
	}
	return false
}

// callerLabels returns the set of control labels in the function (if
// any) enclosing the call (specified as a PathEnclosingInterval).
func callerLabels(callPath []ast.Node) map[string]bool {
	var callerBody *ast.BlockStmt
	switch f := callerFunc(callPath).(type) {
	case *ast.FuncDecl:
		callerBody = f.Body
	case *ast.FuncLit:
		callerBody = f.Body
	}
	var labels map[string]bool
	if callerBody != nil {
		ast.Inspect(callerBody, func(n ast.Node) bool {
			switch n := n.(type) {
			case *ast.FuncLit:
				return false // prune traversal
			case *ast.LabeledStmt:
				if labels == nil {
					labels = make(map[string]bool)
				}
				labels[n.Label.Name] = true
			}
			return true
		})
	}
	return labels
}

// callerFunc returns the innermost Func{Decl,Lit} node enclosing the
// call (specified as a PathEnclosingInterval).
func callerFunc(callPath []ast.Node) ast.Node {
	_ = callPath[0].(*ast.CallExpr) // sanity check
	for _, n := range callPath[1:] {
		if is[*ast.FuncDecl](n) || is[*ast.FuncLit](n) {
			return n
		}
	}
	return nil
}

// callStmt reports whether the function call (specified
// as a PathEnclosingInterval) appears within an ExprStmt,
// and returns it if so.
//
// If unrestricted, callStmt returns nil if the ExprStmt f() appears
// in a restricted context (such as "if f(); cond {") where it cannot
// be replaced by an arbitrary statement. (See "statement theory".)
func callStmt(callPath []ast.Node, unrestricted bool) *ast.ExprStmt {
	parent, _ := callContext(callPath)
	stmt, ok := parent.(*ast.ExprStmt)
	if ok && unrestricted {
		switch callPath[slices.Index(callPath, ast.Node(stmt))+1].(type) {
		case *ast.LabeledStmt,
			*ast.BlockStmt,
			*ast.CaseClause,
			*ast.CommClause:
			// unrestricted
		default:
			// TODO(adonovan): handle restricted
			// XYZStmt.Init contexts (but not ForStmt.Post)
			// by creating a block around the if/for/switch:
			// "if f(); cond {"  ->  "{ stmts; if cond {"

			return nil // restricted
		}
	}
	return stmt
}

// Statement theory
//
// These are all the places a statement may appear in the AST:
//
// LabeledStmt.Stmt       Stmt      -- any
// BlockStmt.List       []Stmt      -- any (but see switch/select)
// IfStmt.Init            Stmt?     -- simple
// IfStmt.Body            BlockStmt
// IfStmt.Else            Stmt?     -- IfStmt or BlockStmt
// CaseClause.Body      []Stmt      -- any
// SwitchStmt.Init        Stmt?     -- simple
// SwitchStmt.Body        BlockStmt -- CaseClauses only
// TypeSwitchStmt.Init    Stmt?     -- simple
// TypeSwitchStmt.Assign  Stmt      -- AssignStmt(TypeAssertExpr) or ExprStmt(TypeAssertExpr)
// TypeSwitchStmt.Body    BlockStmt -- CaseClauses only
// CommClause.Comm        Stmt?     -- SendStmt or ExprStmt(UnaryExpr) or AssignStmt(UnaryExpr)
// CommClause.Body      []Stmt      -- any
// SelectStmt.Body        BlockStmt -- CommClauses only
// ForStmt.Init           Stmt?     -- simple
// ForStmt.Post           Stmt?     -- simple
// ForStmt.Body           BlockStmt
// RangeStmt.Body         BlockStmt
//
// simple = AssignStmt | SendStmt | IncDecStmt | ExprStmt.
//
// A BlockStmt cannot replace an ExprStmt in
// {If,Switch,TypeSwitch}Stmt.Init or ForStmt.Post.
// That is allowed only within:
//   LabeledStmt.Stmt       Stmt
//   BlockStmt.List       []Stmt
//   CaseClause.Body      []Stmt
//   CommClause.Body      []Stmt

// replaceNode performs a destructive update of the tree rooted at
// root, replacing each occurrence of "from" with "to". If to is nil and
// the element is within a slice, the slice element is removed.
//
// The root itself cannot be replaced; an attempt will panic.
//
// This function must not be called on the caller's syntax tree.
//
// TODO(adonovan): polish this up and move it to astutil package.
// TODO(adonovan): needs a unit test.
func replaceNode(root ast.Node, from, to ast.Node) {
	if from == nil {
		panic("from == nil")
	}
	if reflect.ValueOf(from).IsNil() {
		panic(fmt.Sprintf("from == (%T)(nil)", from))
	}
	if from == root {
		panic("from == root")
	}
	found := false
	var parent reflect.Value // parent variable of interface type, containing a pointer
	var visit func(reflect.Value)
	visit = func(v reflect.Value) {
		switch v.Kind() {
		case reflect.Pointer:
			if v.Interface() == from {
				found = true

				// If v is a struct field or array element
				// (e.g. Field.Comment or Field.Names[i])
				// then it is addressable (a pointer variable).
				//
				// But if it was the value an interface
				// (e.g. *ast.Ident within ast.Node)
				// then it is non-addressable, and we need
				// to set the enclosing interface (parent).
				if !v.CanAddr() {
					v = parent
				}

				// to=nil => use zero value
				var toV reflect.Value
				if to != nil {
					toV = reflect.ValueOf(to)
				} else {
					toV = reflect.Zero(v.Type()) // e.g. ast.Expr(nil)
				}
				v.Set(toV)

			} else if !v.IsNil() {
				switch v.Interface().(type) {
				case *ast.Object, *ast.Scope:
					// Skip fields of types potentially involved in cycles.
				default:
					visit(v.Elem())
				}
			}

		case reflect.Struct:
			for i := range v.Type().NumField() {
				visit(v.Field(i))
			}

		case reflect.Slice:
			compact := false
			for i := range v.Len() {
				visit(v.Index(i))
				if v.Index(i).IsNil() {
					compact = true
				}
			}
			if compact {
				// Elements were deleted. Eliminate nils.
				// (Do this is a second pass to avoid
				// unnecessary writes in the common case.)
				j := 0
				for i := range v.Len() {
					if !v.Index(i).IsNil() {
						v.Index(j).Set(v.Index(i))
						j++
					}
				}
				v.SetLen(j)
			}
		case reflect.Interface:
			parent = v
			visit(v.Elem())

		case reflect.Array, reflect.Chan, reflect.Func, reflect.Map, reflect.UnsafePointer:
			panic(v) // unreachable in AST
		default:
			// bool, string, number: nop
		}
		parent = reflect.Value{}
	}
	visit(reflect.ValueOf(root))
	if !found {
		panic(fmt.Sprintf("%T not found", from))
	}
}

// cleanNode returns a clone of node with positions cleared.
//
// It should be used for any callee nodes that are formatted using the caller
// file set.
func cleanNode[T ast.Node](node T) T {
	clone := internalastutil.CloneNode(node)
	clearPositions(clone)
	return clone
}

func cleanNodes[T ast.Node](nodes []T) []T {
	var clean []T
	for _, node := range nodes {
		clean = append(clean, cleanNode(node))
	}
	return clean
}

// clearPositions destroys token.Pos information within the tree rooted at root,
// as positions in callee trees may cause caller comments to be emitted prematurely.
//
// In general it isn't safe to clear a valid Pos because some of them
// (e.g. CallExpr.Ellipsis, TypeSpec.Assign) are significant to
// go/printer, so this function sets each non-zero Pos to 1, which
// suffices to avoid advancing the printer's comment cursor.
//
// This function mutates its argument; do not invoke on caller syntax.
//
// TODO(adonovan): remove this horrendous workaround when #20744 is finally fixed.
func clearPositions(root ast.Node) {
	posType := reflect.TypeFor[token.Pos]()
	ast.Inspect(root, func(n ast.Node) bool {
		if n != nil {
			v := reflect.ValueOf(n).Elem() // deref the pointer to struct
			fields := v.Type().NumField()
			for i := range fields {
				f := v.Field(i)
				// Clearing Pos arbitrarily is destructive,
				// as its presence may be semantically significant
				// (e.g. CallExpr.Ellipsis, TypeSpec.Assign)
				// or affect formatting preferences (e.g. GenDecl.Lparen).
				//
				// Note: for proper formatting, it may be necessary to be selective
				// about which positions we set to 1 vs which we set to token.NoPos.
				// (e.g. we can set most to token.NoPos, save the few that are
				// significant).
				if f.Type() == posType {
					if f.Interface() != token.NoPos {
						f.Set(reflect.ValueOf(token.Pos(1)))
					}
				}
			}
		}
		return true
	})
}

// findIdent finds the Ident beneath root that has the given pos.
// It returns the path to the ident (excluding the ident), and the ident
// itself, where the path is the sequence of ast.Nodes encountered in a
// depth-first search to find ident.
func findIdent(root ast.Node, pos token.Pos) ([]ast.Node, *ast.Ident) {
	// TODO(adonovan): opt: skip subtrees that don't contain pos.
	var (
		path  []ast.Node
		found *ast.Ident
	)
	ast.Inspect(root, func(n ast.Node) bool {
		if found != nil {
			return false
		}
		if n == nil {
			path = path[:len(path)-1]
			return false
		}
		if id, ok := n.(*ast.Ident); ok {
			if id.Pos() == pos {
				found = id
				return true
			}
		}
		path = append(path, n)
		return true
	})
	if found == nil {
		panic(fmt.Sprintf("findIdent %d not found in %s",
			pos, debugFormatNode(token.NewFileSet(), root)))
	}
	return path, found
}

func prepend[T any](elem T, slice ...T) []T {
	return append([]T{elem}, slice...)
}

// debugFormatNode formats a node or returns a formatting error.
// Its sloppy treatment of errors is appropriate only for logging.
func debugFormatNode(fset *token.FileSet, n ast.Node) string {
	var out strings.Builder
	if err := format.Node(&out, fset, n); err != nil {
		out.WriteString(err.Error())
	}
	return out.String()
}

func shallowCopy[T any](ptr *T) *T {
	copy := *ptr
	return &copy
}

// ∀
func forall[T any](list []T, f func(i int, x T) bool) bool {
	for i, x := range list {
		if !f(i, x) {
			return false
		}
	}
	return true
}

// ∃
func exists[T any](list []T, f func(i int, x T) bool) bool {
	for i, x := range list {
		if f(i, x) {
			return true
		}
	}
	return false
}

// last returns the last element of a slice, or zero if empty.
func last[T any](slice []T) T {
	n := len(slice)
	if n > 0 {
		return slice[n-1]
	}
	return *new(T)
}

// declares returns the set of lexical names declared by a
// sequence of statements from the same block, excluding sub-blocks.
// (Lexical names do not include control labels.)
func declares(stmts []ast.Stmt) map[string]bool {
	names := make(map[string]bool)
	for _, stmt := range stmts {
		switch stmt := stmt.(type) {
		case *ast.DeclStmt:
			for _, spec := range stmt.Decl.(*ast.GenDecl).Specs {
				switch spec := spec.(type) {
				case *ast.ValueSpec:
					for _, id := range spec.Names {
						names[id.Name] = true
					}
				case *ast.TypeSpec:
					names[spec.Name.Name] = true
				}
			}

		case *ast.AssignStmt:
			if stmt.Tok == token.DEFINE {
				for _, lhs := range stmt.Lhs {
					names[lhs.(*ast.Ident).Name] = true
				}
			}
		}
	}
	delete(names, "_")
	return names
}

// A importNameFunc is used to query local import names in the caller, in a
// particular shadowing context.
//
// The shadow map contains additional names shadowed in the inlined code, at
// the position the local import name is to be used. The shadow map only needs
// to contain newly introduced names in the inlined code; names shadowed at the
// caller are handled automatically.
type importNameFunc = func(pkgPath string, shadow shadowMap) string

// assignStmts rewrites a statement assigning the results of a call into zero
// or more statements that assign its return operands, or (nil, false) if no
// such rewrite is possible. The set of bindings created by the result of
// assignStmts is the same as the set of bindings created by the callerStmt.
//
// The callee must contain exactly one return statement.
//
// This is (once again) a surprisingly complex task. For example, depending on
// types and existing bindings, the assignment
//
//	a, b := f()
//
// could be rewritten as:
//
//	a, b := 1, 2
//
// but may need to be written as:
//
//	a, b := int8(1), int32(2)
//
// In the case where the return statement within f is a spread call to another
// function g(), we cannot explicitly convert the return values inline, and so
// it may be necessary to split the declaration and assignment of variables
// into separate statements:
//
//	a, b := g()
//
// or
//
//	var a int32
//	a, b = g()
//
// or
//
//	var (
//		a int8
//		b int32
//	)
//	a, b = g()
//
// Note: assignStmts may return (nil, true) if it determines that the rewritten
// assignment consists only of _ = nil assignments.
func (st *state) assignStmts(callerStmt *ast.AssignStmt, returnOperands []ast.Expr, importName importNameFunc) ([]ast.Stmt, bool) {
	logf, caller, callee := st.opts.Logf, st.caller, &st.callee.impl

	assert(len(callee.Returns) == 1, "unexpected multiple returns")
	resultInfo := callee.Returns[0]

	// When constructing assign statements, we need to make sure that we don't
	// modify types on the left-hand side, such as would happen if the type of a
	// RHS expression does not match the corresponding LHS type at the caller
	// (due to untyped conversion or interface widening).
	//
	// This turns out to be remarkably tricky to handle correctly.
	//
	// Substrategies below are labeled as `Substrategy <name>:`.

	// Collect LHS information.
	var (
		lhs    []ast.Expr                                // shallow copy of the LHS slice, for mutation
		defs   = make([]*ast.Ident, len(callerStmt.Lhs)) // indexes in lhs of defining identifiers
		blanks = make([]bool, len(callerStmt.Lhs))       // indexes in lhs of blank identifiers
		byType typeutil.Map                              // map of distinct types -> indexes, for writing specs later
	)
	for i, expr := range callerStmt.Lhs {
		lhs = append(lhs, expr)
		if name, ok := expr.(*ast.Ident); ok {
			if name.Name == "_" {
				blanks[i] = true
				continue // no type
			}

			if obj, isDef := caller.Info.Defs[name]; isDef {
				defs[i] = name
				typ := obj.Type()
				idxs, _ := byType.At(typ).([]int)
				idxs = append(idxs, i)
				byType.Set(typ, idxs)
			}
		}
	}

	// Collect RHS information
	//
	// The RHS is either a parallel assignment or spread assignment, but by
	// looping over both callerStmt.Rhs and returnOperands we handle both.
	var (
		rhs             []ast.Expr              // new RHS of assignment, owned by the inliner
		callIdx         = -1                    // index of the call among the original RHS
		nilBlankAssigns = make(map[int]unit)    // indexes in rhs of _ = nil assignments, which can be deleted
		freeNames       = make(map[string]bool) // free(ish) names among rhs expressions
		nonTrivial      = make(map[int]bool)    // indexes in rhs of nontrivial result conversions
	)
	const includeComplitIdents = true

	for i, expr := range callerStmt.Rhs {
		if expr == caller.Call {
			assert(callIdx == -1, "malformed (duplicative) AST")
			callIdx = i
			for j, returnOperand := range returnOperands {
				maps.Copy(freeNames, free.Names(returnOperand, includeComplitIdents))
				rhs = append(rhs, returnOperand)
				if resultInfo[j]&nonTrivialResult != 0 {
					nonTrivial[i+j] = true
				}
				if blanks[i+j] && resultInfo[j]&untypedNilResult != 0 {
					nilBlankAssigns[i+j] = unit{}
				}
			}
		} else {
			// We must clone before clearing positions, since e came from the caller.
			expr = internalastutil.CloneNode(expr)
			clearPositions(expr)
			maps.Copy(freeNames, free.Names(expr, includeComplitIdents))
			rhs = append(rhs, expr)
		}
	}
	assert(callIdx >= 0, "failed to find call in RHS")

	// Substrategy "splice": Check to see if we can simply splice in the result
	// expressions from the callee, such as simplifying
	//
	//  x, y := f()
	//
	// to
	//
	//  x, y := e1, e2
	//
	// where the types of x and y match the types of e1 and e2.
	//
	// This works as long as we don't need to write any additional type
	// information.
	if len(nonTrivial) == 0 { // no non-trivial conversions to worry about

		logf("substrategy: splice assignment")
		return []ast.Stmt{&ast.AssignStmt{
			Lhs:    lhs,
			Tok:    callerStmt.Tok,
			TokPos: callerStmt.TokPos,
			Rhs:    rhs,
		}}, true
	}

	// Inlining techniques below will need to write type information in order to
	// preserve the correct types of LHS identifiers.
	//
	// typeExpr is a simple helper to write out type expressions. It currently
	// handles (possibly qualified) type names.
	//
	// TODO(rfindley):
	//   1. expand this to handle more type expressions.
	//   2. refactor to share logic with callee rewriting.
	universeAny := types.Universe.Lookup("any")
	typeExpr := func(typ types.Type, shadow shadowMap) ast.Expr {
		var (
			typeName string
			obj      *types.TypeName // nil for basic types
		)
		if tname := typesinternal.TypeNameFor(typ); tname != nil {
			obj = tname
			typeName = tname.Name()
		}

		// Special case: check for universe "any".
		// TODO(golang/go#66921): this may become unnecessary if any becomes a proper alias.
		if typ == universeAny.Type() {
			typeName = "any"
		}

		if typeName == "" {
			return nil
		}

		if obj == nil || obj.Pkg() == nil || obj.Pkg() == caller.Types { // local type or builtin
			if shadow[typeName] != 0 {
				logf("cannot write shadowed type name %q", typeName)
				return nil
			}
			obj, _ := caller.lookup(typeName).(*types.TypeName)
			if obj != nil && types.Identical(obj.Type(), typ) {
				return ast.NewIdent(typeName)
			}
		} else if pkgName := importName(obj.Pkg().Path(), shadow); pkgName != "" {
			return &ast.SelectorExpr{
				X:   ast.NewIdent(pkgName),
				Sel: ast.NewIdent(typeName),
			}
		}
		return nil
	}

	// Substrategy "spread": in the case of a spread call (func f() (T1, T2) return
	// g()), since we didn't hit the 'splice' substrategy, there must be some
	// non-declaring expression on the LHS. Simplify this by pre-declaring
	// variables, rewriting
	//
	//   x, y := f()
	//
	// to
	//
	//  var x int
	//  x, y = g()
	//
	// Which works as long as the predeclared variables do not overlap with free
	// names on the RHS.
	if len(rhs) != len(lhs) {
		assert(len(rhs) == 1 && len(returnOperands) == 1, "expected spread call")

		for _, id := range defs {
			if id != nil && freeNames[id.Name] {
				// By predeclaring variables, we're changing them to be in scope of the
				// RHS. We can't do this if their names are free on the RHS.
				return nil, false
			}
		}

		// Write out the specs, being careful to avoid shadowing free names in
		// their type expressions.
		var (
			specs    []ast.Spec
			specIdxs []int
			shadow   = make(shadowMap)
		)
		failed := false
		byType.Iterate(func(typ types.Type, v any) {
			if failed {
				return
			}
			idxs := v.([]int)
			specIdxs = append(specIdxs, idxs[0])
			texpr := typeExpr(typ, shadow)
			if texpr == nil {
				failed = true
				return
			}
			spec := &ast.ValueSpec{
				Type: texpr,
			}
			for _, idx := range idxs {
				spec.Names = append(spec.Names, ast.NewIdent(defs[idx].Name))
			}
			specs = append(specs, spec)
		})
		if failed {
			return nil, false
		}
		logf("substrategy: spread assignment")
		return []ast.Stmt{
			&ast.DeclStmt{
				Decl: &ast.GenDecl{
					Tok:   token.VAR,
					Specs: specs,
				},
			},
			&ast.AssignStmt{
				Lhs: callerStmt.Lhs,
				Tok: token.ASSIGN,
				Rhs: returnOperands,
			},
		}, true
	}

	assert(len(lhs) == len(rhs), "mismatching LHS and RHS")

	// Substrategy "convert": write out RHS expressions with explicit type conversions
	// as necessary, rewriting
	//
	//  x, y := f()
	//
	// to
	//
	//  x, y := 1, int32(2)
	//
	// As required to preserve types.
	//
	// In the special case of _ = nil, which is disallowed by the type checker
	// (since nil has no default type), we delete the assignment.
	var origIdxs []int // maps back to original indexes after lhs and rhs are pruned
	i := 0
	for j := range lhs {
		if _, ok := nilBlankAssigns[j]; !ok {
			lhs[i] = lhs[j]
			rhs[i] = rhs[j]
			origIdxs = append(origIdxs, j)
			i++
		}
	}
	lhs = lhs[:i]
	rhs = rhs[:i]

	if len(lhs) == 0 {
		logf("trivial assignment after pruning nil blanks assigns")
		// After pruning, we have no remaining assignments.
		// Signal this by returning a non-nil slice of statements.
		return nil, true
	}

	// Write out explicit conversions as necessary.
	//
	// A conversion is necessary if the LHS is being defined, and the RHS return
	// involved a nontrivial implicit conversion.
	for i, expr := range rhs {
		idx := origIdxs[i]
		if nonTrivial[idx] && defs[idx] != nil {
			typ := caller.Info.TypeOf(lhs[i])
			texpr := typeExpr(typ, nil)
			if texpr == nil {
				return nil, false
			}
			if _, ok := texpr.(*ast.StarExpr); ok {
				// TODO(rfindley): is this necessary? Doesn't the formatter add these parens?
				texpr = &ast.ParenExpr{X: texpr} // *T -> (*T)   so that (*T)(x) is valid
			}
			rhs[i] = &ast.CallExpr{
				Fun:  texpr,
				Args: []ast.Expr{expr},
			}
		}
	}
	logf("substrategy: convert assignment")
	return []ast.Stmt{&ast.AssignStmt{
		Lhs: lhs,
		Tok: callerStmt.Tok,
		Rhs: rhs,
	}}, true
}

// tailCallSafeReturn reports whether the callee's return statements may be safely
// used to return from the function enclosing the caller (which must exist).
func tailCallSafeReturn(caller *Caller, calleeSymbol *types.Func, callee *gobCallee) bool {
	// It is safe if all callee returns involve only trivial conversions.
	if !hasNonTrivialReturn(callee.Returns) {
		return true
	}

	var callerType types.Type
	// Find type of innermost function enclosing call.
	// (Beware: Caller.enclosingFunc is the outermost.)
loop:
	for _, n := range caller.path {
		switch f := n.(type) {
		case *ast.FuncDecl:
			callerType = caller.Info.ObjectOf(f.Name).Type()
			break loop
		case *ast.FuncLit:
			callerType = caller.Info.TypeOf(f)
			break loop
		}
	}

	// Non-trivial return conversions in the callee are permitted
	// if the same non-trivial conversion would occur after inlining,
	// i.e. if the caller and callee results tuples are identical.
	callerResults := callerType.(*types.Signature).Results()
	calleeResults := calleeSymbol.Type().(*types.Signature).Results()
	return types.Identical(callerResults, calleeResults)
}

// hasNonTrivialReturn reports whether any of the returns involve a nontrivial
// implicit conversion of a result expression.
func hasNonTrivialReturn(returnInfo [][]returnOperandFlags) bool {
	for _, resultInfo := range returnInfo {
		for _, r := range resultInfo {
			if r&nonTrivialResult != 0 {
				return true
			}
		}
	}
	return false
}

type unit struct{} // for representing sets as maps
