// Copyright 2023 The Go Authors. All rights reserved.
// Use of this source code is governed by a BSD-style
// license that can be found in the LICENSE file.

package inline

// This file defines the analysis of callee effects.

import (
	"go/ast"
	"go/token"
	"go/types"
	"slices"

	"sftpcheck/xt/x/typesinternal"
)

const (
	rinf = -1 //  R∞: arbitrary read from memory
	winf = -2 //  W∞: arbitrary write to memory (or unknown control)
)

// calleefx returns a list of parameter indices indicating the order
// in which parameters are first referenced during evaluation of the
// callee, relative both to each other and to other effects of the
// callee (if any), such as arbitrary reads (rinf) and arbitrary
// effects (winf), including unknown control flow. Each parameter
// that is referenced appears once in the list.
//
// For example, the effects list of this function:
//
//	func f(x, y, z int) int {
//	    return y + x + g() + z
//	}
//
// is [1 0 -2 2], indicating reads of y and x, followed by the unknown
// effects of the g() call, and finally the read of parameter z. This
// information is used during inlining to ascertain when it is safe
// for parameter references to be replaced by their corresponding
// argument expressions. Such substitutions are permitted only when
// they do not cause "write" operations (those with effects) to
// commute with "read" operations (those that have no effect but are
// not pure). Impure operations may be reordered with other impure
// operations, and pure operations may be reordered arbitrarily.
//
// The analysis ignores the effects of runtime panics, on the
// assumption that well-behaved programs shouldn't encounter them.
func calleefx(info *types.Info, body *ast.BlockStmt, paramInfos map[*types.Var]*paramInfo) []int {
	// This traversal analyzes the callee's statements (in syntax
	// form, though one could do better with SSA) to compute the
	// sequence of events of the following kinds:
	//
	// 1  read of a parameter variable.
	// 2. reads from other memory.
	// 3. writes to memory

	var effects []int // indices of parameters, or rinf/winf (-ve)
	seen := make(map[int]bool)
	effect := func(i int) {
		if !seen[i] {
			seen[i] = true
			effects = append(effects, i)
		}
	}

	// unknown is called for statements of unknown effects (or control).
	unknown := func() {
		effect(winf)

		// Ensure that all remaining parameters are "seen"
		// after we go into the unknown (unless they are
		// unreferenced by the function body). This lets us
		// not bother implementing the complete traversal into
		// control structures.

		// Sort params by Index for determinism
		sortedParams := make([]*types.Var, 0, len(paramInfos))
		for obj, pinfo := range paramInfos {
			if !pinfo.IsResult && len(pinfo.Refs) > 0 {
				sortedParams = append(sortedParams, obj)
			}
		}
		slices.SortFunc(sortedParams, func(a, b *types.Var) int {
			return paramInfos[a].Index - paramInfos[b].Index
		})
		for _, obj := range sortedParams {
			effect(paramInfos[obj].Index)
		}
	}

	var visitExpr func(n ast.Expr)
	var visitStmt func(n ast.Stmt) bool
	visitExpr = func(n ast.Expr) {
		switch n := n.(type) {
		case *ast.Ident:
			if v, ok := info.Uses[n].(*types.Var); ok && !v.IsField() {
				// Use of global?
				if v.Parent() == v.Pkg().Scope() {
					effect(rinf) // read global var
				}

				// Use of parameter?
				if pinfo, ok := paramInfos[v]; ok && !pinfo.IsResult {
					effect(pinfo.Index) // read parameter var
				}

				// Use of local variables is ok.
			}

		case *ast.BasicLit:
			// no effect

		case *ast.FuncLit:
			// A func literal has no read or write effect
			// until called, and (most) function calls are
			// considered to have arbitrary effects.
			// So, no effect.

		case *ast.CompositeLit:
			for _, elt := range n.Elts {
				visitExpr(elt) // note: visits KeyValueExpr
			}

		case *ast.ParenExpr:
			visitExpr(n.X)

		case *ast.SelectorExpr:
			if seln, ok := info.Selections[n]; ok {
				visitExpr(n.X)

				// See types.SelectionKind for background.
				switch seln.Kind() {
				case types.MethodExpr:
					// A method expression T.f acts like a
					// reference to a func decl,
					// so it doesn't read x until called.

				case types.MethodVal, types.FieldVal:
					// A field or method value selection x.f
					// reads x if the selection indirects a pointer.

					if indirectSelection(seln) {
						effect(rinf)
					}
				}
			} else {
				// qualified identifier: treat like unqualified
				visitExpr(n.Sel)
			}

		case *ast.IndexExpr:
			if tv := info.Types[n.Index]; tv.IsType() {
				// no effect (G[T] instantiation)
			} else {
				visitExpr(n.X)
				visitExpr(n.Index)
				switch tv.Type.Underlying().(type) {
				case *types.Slice, *types.Pointer: // []T, *[n]T (not string, [n]T)
					effect(rinf) // indirect read of slice/array element
				}
			}

		case *ast.IndexListExpr:
			// no effect (M[K,V] instantiation)

		case *ast.SliceExpr:
			visitExpr(n.X)
			visitExpr(n.Low)
			visitExpr(n.High)
			visitExpr(n.Max)

		case *ast.TypeAssertExpr:
			visitExpr(n.X)

		case *ast.CallExpr:
			if info.Types[n.Fun].IsType() {
				// conversion T(x)
				visitExpr(n.Args[0])
			} else {
				// call f(args)
				visitExpr(n.Fun)
				for i, arg := range n.Args {
					if i == 0 && info.Types[arg].IsType() {
						continue // new(T), make(T, n)
					}
					visitExpr(arg)
				}

				// The pure built-ins have no effects beyond
				// those of their operands (not even memory reads).
				// All other calls have unknown effects.
				if !typesinternal.CallsPureBuiltin(info, n) {
					unknown() // arbitrary effects
				}
			}

		case *ast.StarExpr:
			visitExpr(n.X)
			effect(rinf) // *ptr load or store depends on state of heap

		case *ast.UnaryExpr: // + - ! ^ & ~ <-
			visitExpr(n.X)
			if n.Op == token.ARROW {
				unknown() // effect: channel receive
			}

		case *ast.BinaryExpr:
			visitExpr(n.X)
			visitExpr(n.Y)

		case *ast.KeyValueExpr:
			visitExpr(n.Key) // may be a struct field
			visitExpr(n.Value)

		case *ast.BadExpr:
			// no effect

		case nil:
			// optional subtree

		default:
			// type syntax: unreachable given traversal
			panic(n)
		}
	}

	// visitStmt's result indicates the continuation:
	// false for return, true for the next statement.
	//
	// We could treat return as an unknown, but this way
	// yields definite effects for simple sequences like
	// {S1; S2; return}, so unreferenced parameters are
	// not spuriously added to the effects list, and thus
	// not spuriously disqualified from elimination.
	visitStmt = func(n ast.Stmt) bool {
		switch n := n.(type) {
		case *ast.DeclStmt:
			decl := n.Decl.(*ast.GenDecl)
			for _, spec := range decl.Specs {
				switch spec := spec.(type) {
				case *ast.ValueSpec:
					for _, v := range spec.Values {
						visitExpr(v)
					}

				case *ast.TypeSpec:
					// no effect
				}
			}

		case *ast.LabeledStmt:
			return visitStmt(n.Stmt)

		case *ast.ExprStmt:
			visitExpr(n.X)

		case *ast.SendStmt:
			visitExpr(n.Chan)
			visitExpr(n.Value)
			unknown() // effect: channel send

		case *ast.IncDecStmt:
			visitExpr(n.X)
			unknown() // effect: variable increment

		case *ast.AssignStmt:
			for _, lhs := range n.Lhs {
				visitExpr(lhs)
			}
			for _, rhs := range n.Rhs {
				visitExpr(rhs)
			}
			for _, lhs := range n.Lhs {
				id, _ := lhs.(*ast.Ident)
				if id != nil && id.Name == "_" {
					continue // blank assign has no effect
				}
				if n.Tok == token.DEFINE && id != nil && info.Defs[id] != nil {
					continue // new var declared by := has no effect
				}
				unknown() // assignment to existing var
				break
			}

		case *ast.GoStmt:
			visitExpr(n.Call.Fun)
			for _, arg := range n.Call.Args {
				visitExpr(arg)
			}
			unknown() // effect: create goroutine

		case *ast.DeferStmt:
			visitExpr(n.Call.Fun)
			for _, arg := range n.Call.Args {
				visitExpr(arg)
			}
			unknown() // effect: push defer

		case *ast.ReturnStmt:
			for _, res := range n.Results {
				visitExpr(res)
			}
			return false

		case *ast.BlockStmt:
			for _, stmt := range n.List {
				if !visitStmt(stmt) {
					return false
				}
			}

		case *ast.BranchStmt:
			unknown() // control flow

		case *ast.IfStmt:
			visitStmt(n.Init)
			visitExpr(n.Cond)
			unknown() // control flow

		case *ast.SwitchStmt:
			visitStmt(n.Init)
			visitExpr(n.Tag)
			unknown() // control flow

		case *ast.TypeSwitchStmt:
			visitStmt(n.Init)
			visitStmt(n.Assign)
			unknown() // control flow

		case *ast.SelectStmt:
			unknown() // control flow

		case *ast.ForStmt:
			visitStmt(n.Init)
			visitExpr(n.Cond)
			unknown() // control flow

		case *ast.RangeStmt:
			visitExpr(n.X)
			unknown() // control flow

		case *ast.EmptyStmt, *ast.BadStmt:
			// no effect

		case nil:
			// optional subtree

		default:
			panic(n)
		}
		return true
	}
	visitStmt(body)

	return effects
}
