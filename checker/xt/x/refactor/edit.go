// Copyright 2025 The Go Authors. All rights reserved.
// Use of this source code is governed by a BSD-style
// license that can be found in the LICENSE file.p

package refactor

// This is the only file in this package that should import analysis.
//
// TODO(adonovan): consider unaliasing the type to break the
// dependency. (The ergonomics of slice append are unfortunate.)

import "golang.org/x/tools/go/analysis"

// An Edit describes a deletion and/or an insertion.
type Edit = analysis.TextEdit
