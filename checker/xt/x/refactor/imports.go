// Copyright 2025 The Go Authors. All rights reserved.
// Use of this source code is governed by a BSD-style
// license that can be found in the LICENSE file.

package refactor

// This file defines operations for computing edits to imports.

import (
	"go/ast"
	"go/token"
	"go/types"
	pathpkg "path"
	"strconv"

	"sftpcheck/xt/x/packagepath"
)

// AddImport returns the prefix (either "pkg." or "") that should be
// used to qualify references to the desired symbol (member) imported
// from the specified package, plus any necessary edits to the file's
// import declaration to add a new import.
//
// If the import already exists, and is accessible at pos, AddImport
// returns the existing name and no edits. (If the existing import is
// a dot import, the prefix is "".)
//
// Otherwise, it adds a new import, using a local name derived from
// the preferred name. To request a blank import, use a preferredName
// of "_", and discard the prefix result; member is ignored in this
// case.
//
// AddImport accepts the caller's implicit claim that the imported
// package declares member.
//
// AddImport does not mutate its arguments.
func AddImport(info *types.Info, file *ast.File, preferredName, pkgpath, member string, pos token.Pos) (prefix string, edits []Edit) {
	// Find innermost enclosing lexical block.
	scope := info.Scopes[file].Innermost(pos)
	if scope == nil {
		panic("no enclosing lexical block")
	}

	// Is there an existing import of this package?
	// If so, are we in its scope? (not shadowed)
	for _, spec := range file.Imports {
		pkgname := info.PkgNameOf(spec)
		if pkgname != nil && pkgname.Imported().Path() == pkgpath {
			name := pkgname.Name()
			if preferredName == "_" {
				// Request for blank import; any existing import will do.
				return "", nil
			}
			if name == "." {
				// The scope of ident must be the file scope.
				if s, _ := scope.LookupParent(member, pos); s == info.Scopes[file] {
					return "", nil
				}
			} else if _, obj := scope.LookupParent(name, pos); obj == pkgname {
				return name + ".", nil
			}
		}
	}

	// We must add a new import.

	// Ensure we have a fresh name.
	newName := preferredName
	if preferredName != "_" {
		newName = FreshName(scope, pos, preferredName)
		prefix = newName + "."
	}

	// Use a renaming import whenever the preferred name is not
	// available, or the chosen name does not match the last
	// segment of its path.
	if newName == preferredName && newName == pathpkg.Base(pkgpath) {
		newName = ""
	}

	return prefix, AddImportEdits(file, newName, pkgpath)
}

// AddImportEdits returns the edits to add an import of the specified
// package, without any analysis of whether this is necessary or safe.
// If name is nonempty, it is used as an explicit [ImportSpec.Name].
//
// A sequence of calls to AddImportEdits that each add the file's
// first import (or in a file that does not have a grouped import) may
// result in multiple import declarations, rather than a single one
// with multiple ImportSpecs. However, a subsequent run of
// x/tools/cmd/goimports ([imports.Process]) will combine them.
//
// AddImportEdits does not mutate the AST.
func AddImportEdits(file *ast.File, name, pkgpath string) []Edit {
	newText := strconv.Quote(pkgpath)
	if name != "" {
		newText = name + " " + newText
	}

	// Create a new import declaration either before the first existing
	// declaration (if it exists), including its comments; or at the end of the
	// file (if there are no decls); or inside the declaration, if it is an
	// import group.
	var (
		before token.Pos
		decl0  ast.Decl
	)
	if len(file.Decls) > 0 {
		decl0 = file.Decls[0]
		before = decl0.Pos()
		switch decl0 := decl0.(type) {
		case *ast.GenDecl:
			if decl0.Doc != nil {
				before = decl0.Doc.Pos()
			}
		case *ast.FuncDecl:
			if decl0.Doc != nil {
				before = decl0.Doc.Pos()
			}
		}
	} else {
		before = file.FileEnd
	}
	var pos token.Pos
	if gd, ok := decl0.(*ast.GenDecl); ok && gd.Tok == token.IMPORT && gd.Rparen.IsValid() {
		// Have existing grouped import ( ... ) decl.
		if packagepath.MaybeStdPackage(pkgpath) && len(gd.Specs) > 0 {
			// Add spec for a std package before
			// first existing spec, followed by
			// a blank line if the next one is non-std.
			first := gd.Specs[0].(*ast.ImportSpec)
			pos = first.Pos()
			if !packagepath.MaybeStdPackage(first.Path.Value) {
				newText += "\n"
			}
			newText += "\n\t"
		} else {
			// Add spec at end of group.
			pos = gd.Rparen
			newText = "\t" + newText + "\n"
		}
	} else {
		// No import decl, or non-grouped import.
		// Add a new import decl before first decl.
		// (gofmt will merge multiple import decls.)
		//
		// TODO(adonovan): do better here; plunder the
		// mergeImports logic from [imports.Process].
		pos = before
		newText = "import " + newText + "\n\n"
	}
	return []Edit{{
		Pos:     pos,
		End:     pos,
		NewText: []byte(newText),
	}}
}
