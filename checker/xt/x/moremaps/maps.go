// Copyright 2023 The Go Authors. All rights reserved.
// Use of this source code is governed by a BSD-style
// license that can be found in the LICENSE file.

// Package moremaps contains more functions for working with maps.
package moremaps

import (
	"cmp"
	"iter"
	"maps"
	"slices"
)

// Arbitrary returns an arbitrary (key, value) entry from the map and ok is true, if
// the map is not empty. Otherwise, it returns zero values for K and V, and false.
func Arbitrary[K comparable, V any](m map[K]V) (_ K, _ V, ok bool) {
	for k, v := range m {
		return k, v, true
	}
	return
}

// Group returns a new non-nil map containing the elements of s grouped by the
// keys returned from the key func.
func Group[K comparable, V any](s []V, key func(V) K) map[K][]V {
	m := make(map[K][]V)
	for _, v := range s {
		k := key(v)
		m[k] = append(m[k], v)
	}
	return m
}

// KeySlice returns the keys of the map M, like slices.Collect(maps.Keys(m)).
func KeySlice[M ~map[K]V, K comparable, V any](m M) []K {
	r := make([]K, 0, len(m))
	for k := range m {
		r = append(r, k)
	}
	return r
}

// ValueSlice returns the values of the map M, like slices.Collect(maps.Values(m)).
func ValueSlice[M ~map[K]V, K comparable, V any](m M) []V {
	r := make([]V, 0, len(m))
	for _, v := range m {
		r = append(r, v)
	}
	return r
}

// SameKeys reports whether x and y have equal sets of keys.
func SameKeys[K comparable, V1, V2 any](x map[K]V1, y map[K]V2) bool {
	ignoreValues := func(V1, V2) bool { return true }
	return maps.EqualFunc(x, y, ignoreValues)
}

// Sorted returns an iterator over the entries of m in key order.
func Sorted[M ~map[K]V, K cmp.Ordered, V any](m M) iter.Seq2[K, V] {
	// TODO(adonovan): use maps.Sorted if proposal #68598 is accepted.
	return func(yield func(K, V) bool) {
		keys := KeySlice(m)
		slices.Sort(keys)
		for _, k := range keys {
			if !yield(k, m[k]) {
				break
			}
		}
	}
}

// SortedFunc returns an iterator over the entries of m in the key order determined by cmp.
func SortedFunc[M ~map[K]V, K comparable, V any](m M, cmp func(x, y K) int) iter.Seq2[K, V] {
	// TODO(adonovan): use maps.SortedFunc if proposal #68598 is accepted.
	return func(yield func(K, V) bool) {
		keys := KeySlice(m)
		slices.SortFunc(keys, cmp)
		for _, k := range keys {
			if !yield(k, m[k]) {
				break
			}
		}
	}
}

// Delete is like delete(m, k) but reports whether deletion occurred.
func Delete[M ~map[K]V, K comparable, V any](m M, k K) bool {
	pre := len(m)
	delete(m, k)
	return pre != len(m)
}

// Entry is a key-value pair obtained from a map.
type Entry[K comparable, V any] struct {
	Key   K
	Value V
}

// Entries returns a new unordered array of the entries of a map.
func Entries[M ~map[K]V, K comparable, V any](m M) []Entry[K, V] {
	entries := make([]Entry[K, V], 0, len(m))
	for k, v := range m {
		entries = append(entries, Entry[K, V]{k, v})
	}
	return entries
}

// FromEntries returns a new map into which the entries have been inserted in order.
func FromEntries[K comparable, V any](entries []Entry[K, V]) map[K]V {
	m := make(map[K]V, len(entries))
	for _, e := range entries {
		m[e.Key] = e.Value
	}
	return m
}
