// Copyright 2023 The Go Authors. All rights reserved.
// Use of this source code is governed by a BSD-style
// license that can be found in the LICENSE file.

// This is a fork of internal/gover for use by x/tools until
// go1.21 and earlier are no longer supported by x/tools.

package versions

import "strings"

// A gover is a parsed Go gover: major[.Minor[.Patch]][kind[pre]]
// The numbers are the original decimal strings to avoid integer overflows
// and since there is very little actual math. (Probably overflow doesn't matter in practice,
// but at the time this code was written, there was an existing test that used
// go1.99999999999, which does not fit in an int on 32-bit platforms.
// The "big decimal" representation avoids the problem entirely.)
type gover struct {
	major string // decimal
	minor string // decimal or ""
	patch string // decimal or ""
	kind  string // "", "alpha", "beta", "rc"
	pre   string // decimal or ""
}

// compare returns -1, 0, or +1 depending on whether
// x < y, x == y, or x > y, interpreted as toolchain versions.
// The versions x and y must not begin with a "go" prefix: just "1.21" not "go1.21".
// Malformed versions compare less than well-formed versions and equal to each other.
// The language version "1.21" compares less than the release candidate and eventual releases "1.21rc1" and "1.21.0".
func compare(x, y string) int {
	vx := parse(x)
	vy := parse(y)

	if c := cmpInt(vx.major, vy.major); c != 0 {
		return c
	}
	if c := cmpInt(vx.minor, vy.minor); c != 0 {
		return c
	}
	if c := cmpInt(vx.patch, vy.patch); c != 0 {
		return c
	}
	if c := strings.Compare(vx.kind, vy.kind); c != 0 { // "" < alpha < beta < rc
		return c
	}
	if c := cmpInt(vx.pre, vy.pre); c != 0 {
		return c
	}
	return 0
}

// lang returns the Go language version. For example, lang("1.2.3") == "1.2".
func lang(x string) string {
	v := parse(x)
	if v.minor == "" || v.major == "1" && v.minor == "0" {
		return v.major
	}
	return v.major + "." + v.minor
}

// isValid reports whether the version x is valid.
func isValid(x string) bool {
	return parse(x) != gover{}
}

// parse parses the Go version string x into a version.
// It returns the zero version if x is malformed.
func parse(x string) gover {
	var v gover

	// Parse major version.
	var ok bool
	v.major, x, ok = cutInt(x)
	if !ok {
		return gover{}
	}
	if x == "" {
		// Interpret "1" as "1.0.0".
		v.minor = "0"
		v.patch = "0"
		return v
	}

	// Parse . before minor version.
	if x[0] != '.' {
		return gover{}
	}

	// Parse minor version.
	v.minor, x, ok = cutInt(x[1:])
	if !ok {
		return gover{}
	}
	if x == "" {
		// Patch missing is same as "0" for older versions.
		// Starting in Go 1.21, patch missing is different from explicit .0.
		if cmpInt(v.minor, "21") < 0 {
			v.patch = "0"
		}
		return v
	}

	// Parse patch if present.
	if x[0] == '.' {
		v.patch, x, ok = cutInt(x[1:])
		if !ok || x != "" {
			// Note that we are disallowing prereleases (alpha, beta, rc) for patch releases here (x != "").
			// Allowing them would be a bit confusing because we already have:
			//	1.21 < 1.21rc1
			// But a prerelease of a patch would have the opposite effect:
			//	1.21.3rc1 < 1.21.3
			// We've never needed them before, so let's not start now.
			return gover{}
		}
		return v
	}

	// Parse prerelease.
	i := 0
	for i < len(x) && (x[i] < '0' || '9' < x[i]) {
		if x[i] < 'a' || 'z' < x[i] {
			return gover{}
		}
		i++
	}
	if i == 0 {
		return gover{}
	}
	v.kind, x = x[:i], x[i:]
	if x == "" {
		return v
	}
	v.pre, x, ok = cutInt(x)
	if !ok || x != "" {
		return gover{}
	}

	return v
}

// cutInt scans the leading decimal number at the start of x to an integer
// and returns that value and the rest of the string.
func cutInt(x string) (n, rest string, ok bool) {
	i := 0
	for i < len(x) && '0' <= x[i] && x[i] <= '9' {
		i++
	}
	if i == 0 || x[0] == '0' && i != 1 { // no digits or unnecessary leading zero
		return "", "", false
	}
	return x[:i], x[i:], true
}

// cmpInt returns cmp.Compare(x, y) interpreting x and y as decimal numbers.
// (Copied from golang.org/x/mod/semver's compareInt.)
func cmpInt(x, y string) int {
	if x == y {
		return 0
	}
	if len(x) < len(y) {
		return -1
	}
	if len(x) > len(y) {
		return +1
	}
	if x < y {
		return -1
	} else {
		return +1
	}
}
