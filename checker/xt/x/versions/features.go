// Copyright 2023 The Go Authors. All rights reserved.
// Use of this source code is governed by a BSD-style
// license that can be found in the LICENSE file.

package versions

// This file contains predicates for working with file versions to
// decide when a tool should consider a language feature enabled.

// named constants, to avoid misspelling
const (
	Go1_17 = "go1.17"
	Go1_18 = "go1.18"
	Go1_19 = "go1.19"
	Go1_20 = "go1.20"
	Go1_21 = "go1.21"
	Go1_22 = "go1.22"
	Go1_23 = "go1.23"
	Go1_24 = "go1.24"
	Go1_25 = "go1.25"
	Go1_26 = "go1.26"
	Go1_27 = "go1.27"
)

// Future is an invalid unknown Go version sometime in the future.
// Do not use directly with Compare.
const Future = ""

// AtLeast reports whether the file version v comes after a Go release.
//
// Use this predicate to enable a behavior once a certain Go release
// has happened (and stays enabled in the future).
func AtLeast(v, release string) bool {
	if v == Future {
		return true // an unknown future version is always after y.
	}
	return Compare(Lang(v), Lang(release)) >= 0
}

// Before reports whether the file version v is strictly before a Go release.
//
// Use this predicate to disable a behavior once a certain Go release
// has happened (and stays enabled in the future).
func Before(v, release string) bool {
	if v == Future {
		return false // an unknown future version happens after y.
	}
	return Compare(Lang(v), Lang(release)) < 0
}
