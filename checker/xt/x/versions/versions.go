// Copyright 2023 The Go Authors. All rights reserved.
// Use of this source code is governed by a BSD-style
// license that can be found in the LICENSE file.

package versions

import (
	"strings"
)

// Note: If we use build tags to use go/versions when go >=1.22,
// we run into go.dev/issue/53737. Under some operations users would see an
// import of "go/versions" even if they would not compile the file.
// For example, during `go get -u ./...` (go.dev/issue/64490) we do not try to include
// For this reason, this library just a clone of go/versions for the moment.

// Lang returns the Go language version for version x.
// If x is not a valid version, Lang returns the empty string.
// For example:
//
//	Lang("go1.21rc2") = "go1.21"
//	Lang("go1.21.2") = "go1.21"
//	Lang("go1.21") = "go1.21"
//	Lang("go1") = "go1"
//	Lang("bad") = ""
//	Lang("1.21") = ""
func Lang(x string) string {
	v := lang(stripGo(x))
	if v == "" {
		return ""
	}
	return x[:2+len(v)] // "go"+v without allocation
}

// Compare returns -1, 0, or +1 depending on whether
// x < y, x == y, or x > y, interpreted as Go versions.
// The versions x and y must begin with a "go" prefix: "go1.21" not "1.21".
// Invalid versions, including the empty string, compare less than
// valid versions and equal to each other.
// The language version "go1.21" compares less than the
// release candidate and eventual releases "go1.21rc1" and "go1.21.0".
// Custom toolchain suffixes are ignored during comparison:
// "go1.21.0" and "go1.21.0-bigcorp" are equal.
func Compare(x, y string) int { return compare(stripGo(x), stripGo(y)) }

// IsValid reports whether the version x is valid.
func IsValid(x string) bool { return isValid(stripGo(x)) }

// stripGo converts from a "go1.21" version to a "1.21" version.
// If v does not start with "go", stripGo returns the empty string (a known invalid version).
func stripGo(v string) string {
	v, _, _ = strings.Cut(v, "-") // strip -bigcorp suffix.
	if len(v) < 2 || v[:2] != "go" {
		return ""
	}
	return v[2:]
}
