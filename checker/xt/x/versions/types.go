// Copyright 2023 The Go Authors. All rights reserved.
// Use of this source code is governed by a BSD-style
// license that can be found in the LICENSE file.

package versions

import (
	"go/ast"
	"go/types"
)

// FileVersion returns a file's Go version.
// The reported version is an unknown Future version if a
// version cannot be determined.
func FileVersion(info *types.Info, file *ast.File) string {
	// In tools built with Go >= 1.22, the Go version of a file
	// follow a cascades of sources:
	// 1) types.Info.FileVersion, which follows the cascade:
	//   1.a) file version (ast.File.GoVersion),
	//   1.b) the package version (types.Config.GoVersion), or
	// 2) is some unknown Future version.
	//
	// File versions require a valid package version to be provided to types
	// in Config.GoVersion. Config.GoVersion is either from the package's module
	// or the toolchain (go run). This value should be provided by go/packages
	// or unitchecker.Config.GoVersion.
	if v := info.FileVersions[file]; IsValid(v) {
		return v
	}
	// Note: we could instead return runtime.Version() [if valid].
	// This would act as a max version on what a tool can support.
	return Future
}
