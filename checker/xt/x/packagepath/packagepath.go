// Copyright 2025 The Go Authors. All rights reserved.
// Use of this source code is governed by a BSD-style
// license that can be found in the LICENSE file.

// Package packagepath provides metadata operations on package path
// strings.
package packagepath

// (This package should not depend on go/ast.)
import "strings"

// CanImport reports whether one package is allowed to import another.
//
// TODO(adonovan): allow customization of the accessibility relation
// (e.g. for Bazel).
func CanImport(from, to string) bool {
	// TODO(adonovan): better segment hygiene.
	if to == "internal" || strings.HasPrefix(to, "internal/") {
		// Special case: only std packages may import internal/...
		// We can't reliably know whether we're in std, so we
		// use a heuristic on the first segment.
		first, _, _ := strings.Cut(from, "/")
		if strings.Contains(first, ".") {
			return false // example.com/foo ∉ std
		}
		if first == "testdata" {
			return false // testdata/foo ∉ std
		}
	}
	if strings.HasSuffix(to, "/internal") {
		return strings.HasPrefix(from, to[:len(to)-len("/internal")])
	}
	if i := strings.LastIndex(to, "/internal/"); i >= 0 {
		return strings.HasPrefix(from, to[:i])
	}
	return true
}

// MaybeStdPackage reports whether the specified package path might
// belong to a package in the standard library (including internal
// dependencies), based only on its form.
//
// It may spuriously return true, but a result of false is definitive:
//
//	MaybeStdPackage("fmt")             = true
//	MaybeStdPackage("maybe/tomorrow")  = true  // false positive
//	MaybeStdPackage("example.com/foo") = false
//
// For a definitive answer, use [stdlib.HasPackage], which consults a
// huge table.
func MaybeStdPackage(path string) bool {
	// A standard package has no dot in its first segment.
	// (It may yet have a dot, e.g. "vendor/golang.org/x/foo".)
	slash := strings.IndexByte(path, '/')
	if slash < 0 {
		slash = len(path)
	}
	return !strings.Contains(path[:slash], ".") && path != "testdata"
}
