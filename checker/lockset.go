package main

import (
	"fmt"
	"go/types"

	"golang.org/x/tools/go/ssa"
)

// Engine L: locksets.

type lockCall struct {
	In   ssa.Instruction
	Root ssa.Value // the object owning the mutex (usually the receiver parameter)
	Key  string    // "<root type>.<field path of the mutex>"
	Kind string    // "Lock" | "RLock"
}

func isMutexType(t types.Type) bool {
	n := namedOf(t)
	if n == nil || n.Obj().Pkg() == nil || n.Obj().Pkg().Path() != "sync" {
		return false
	}
	return n.Obj().Name() == "Mutex" || n.Obj().Name() == "RWMutex"
}

// mutexOp classifies a call as Lock/RLock/Unlock/RUnlock on a sync mutex and
// returns the owner root and key.
func mutexOp(cc *ssa.CallCommon) (op string, root ssa.Value, key string, ok bool) {
	f := calleeFunc(cc)
	if f == nil {
		// a call through a function value that is the bound method mu.Unlock / mu.RUnlock (what a "lock and hand back
		// the unlock" helper returns): `unlock := f.mu.RUnlock … defer unlock()`.  The value may be joined with nil
		// (the helper's failure return); calling nil panics, it does not leave quietly, so it is not another outcome.
		if cc.IsInvoke() {
			return
		}
		var bound *ssa.MakeClosure
		var walk func(v ssa.Value, d int) bool
		walk = func(v ssa.Value, d int) bool {
			if d > 4 {
				return false
			}
			switch x := v.(type) {
			case *ssa.MakeClosure:
				if bound != nil && bound != x {
					return false
				}
				bound = x
				return true
			case *ssa.Const:
				return x.Value == nil
			case *ssa.Phi:
				for _, e := range x.Edges {
					if !walk(e, d+1) {
						return false
					}
				}
				return true
			case *ssa.Extract:
				return false
			}
			return false
		}
		if !walk(cc.Value, 0) || bound == nil || len(bound.Bindings) != 1 {
			return
		}
		bf, _ := bound.Fn.(*ssa.Function)
		if bf == nil || bf.Synthetic == "" || bf.Object() == nil {
			return
		}
		mf, _ := bf.Object().(*types.Func)
		if mf == nil {
			return
		}
		switch mf.Name() {
		case "Lock", "RLock", "Unlock", "RUnlock":
		default:
			return
		}
		sig := mf.Type().(*types.Signature)
		if sig.Recv() == nil || !isMutexType(sig.Recv().Type()) {
			return
		}
		broot, bpath := accessPath(bound.Bindings[0])
		if broot == nil {
			return
		}
		return mf.Name(), broot, typeName(broot.Type()) + "." + bpath, true
	}
	switch f.Name() {
	case "Lock", "RLock", "Unlock", "RUnlock":
	default:
		return
	}
	sig := f.Type().(*types.Signature)
	if sig.Recv() == nil || !isMutexType(sig.Recv().Type()) {
		return
	}
	r := recvOf(cc)
	if r == nil {
		return
	}
	root, path := accessPath(r)
	if root == nil {
		return
	}
	return f.Name(), root, typeName(root.Type()) + "." + path, true
}

func lockCallsIn(fn *ssa.Function) (locks, unlocks []lockCall) {
	eachInstr(fn, func(in ssa.Instruction) {
		cc := callOf(in)
		if cc == nil {
			return
		}
		op, root, key, ok := mutexOp(cc)
		if !ok {
			return
		}
		lc := lockCall{In: in, Root: root, Key: key, Kind: op}
		switch op {
		case "Lock", "RLock":
			if _, plain := in.(*ssa.Call); plain {
				locks = append(locks, lc)
			}
		default:
			if _, plain := in.(*ssa.Call); plain {
				unlocks = append(unlocks, lc)
			}
			// deferred unlocks release at return: they never end the region early
		}
	})
	return
}

// sameRoot: two SSA values denote the same object (same value, or both loads of the
// same local cell / free variable).
func sameRoot(a, b ssa.Value) bool {
	a, b = rootParam(a), rootParam(b)
	if a == b {
		return true
	}
	ca, cb := cellOf(a), cellOf(b)
	return ca != nil && ca == cb
}

// rootParam: a local cell that only ever holds a parameter (receiver copied for closure
// capture) denotes that parameter.
func rootParam(v ssa.Value) ssa.Value {
	a, ok := v.(*ssa.Alloc)
	if !ok {
		if fv, isFV := v.(*ssa.FreeVar); isFV {
			if r := resolveFreeVar(fv); r != nil {
				return rootParam(r)
			}
		}
		return v
	}
	sts := storesTo(a.Parent(), a)
	if len(sts) == 1 {
		if p, ok := sts[0].Val.(*ssa.Parameter); ok {
			return p
		}
	}
	return v
}

// heldAt returns "Lock", "RLock" or "" for the mutex key on root at instruction in.
func heldAt(in ssa.Instruction, root ssa.Value, key string) string {
	fn := in.Parent()
	locks, unlocks := lockCallsIn(fn)
	best := ""
	for _, l := range locks {
		if l.Key != key || !sameRoot(l.Root, root) || !dominates(l.In, in) {
			continue
		}
		released := false
		for _, u := range unlocks {
			if u.Key != key || !sameRoot(u.Root, root) {
				continue
			}
			if dominates(l.In, u.In) && reachAvoiding(fn, u.In, func(x ssa.Instruction) bool { return x == in }, func(x ssa.Instruction) bool { return x == l.In }) {
				released = true
			}
		}
		if released {
			continue
		}
		if l.Kind == "Lock" {
			return "Lock"
		}
		best = "RLock"
	}
	return best
}

// fieldAccess describes a read or write of a struct field.
type fieldAccess struct {
	In    ssa.Instruction // the FieldAddr/Field instruction
	Fn    *ssa.Function
	Root  ssa.Value
	Write bool
}

// accessesOf finds every access to field `field` of struct type `stype` (root package) in the library.
func (p *Program) accessesOf(stype, field string) []fieldAccess {
	var out []fieldAccess
	for _, fn := range p.LibFuncs() {
		eachInstr(fn, func(in ssa.Instruction) {
			v, ok := in.(ssa.Value)
			if !ok {
				return
			}
			t, name, _, ok := fieldOf(v)
			if !ok || name != field || typeName(t) != stype {
				return
			}
			root, _ := accessPath(v)
			acc := fieldAccess{In: in, Fn: fn, Root: root}
			if fa, isAddr := v.(*ssa.FieldAddr); isAddr {
				for _, r := range *fa.Referrers() {
					switch x := r.(type) {
					case *ssa.Store:
						if x.Addr == v {
							acc.Write = true
						}
					case *ssa.MapUpdate:
						acc.Write = true
					}
				}
				// map update / delete through a loaded map value
				for _, r := range *fa.Referrers() {
					if u, ok := r.(*ssa.UnOp); ok {
						for _, rr := range *u.Referrers() {
							switch y := rr.(type) {
							case *ssa.MapUpdate:
								if y.Map == ssa.Value(u) {
									acc.Write = true
								}
							case *ssa.Call:
								if builtinName(&y.Call) == "delete" {
									acc.Write = true
								}
							}
						}
					}
				}
			}
			out = append(out, acc)
		})
	}
	return out
}

// isFreshRoot: the object was allocated in this very function (constructor, copy):
// it is not shared yet.
func isFreshRoot(root ssa.Value) bool {
	a, ok := root.(*ssa.Alloc)
	if !ok {
		return false
	}
	_, isStruct := derefType(a.Type()).Underlying().(*types.Struct)
	return isStruct
}

// checkLockBalance: every Lock/RLock is released on every path to a return of the same function — by a plain
// Unlock/RUnlock of the same mutex on the path, or by a deferred one registered on the path.  A leaked lock wedges
// every later request (server side) or call (client side) that needs it.
func checkLockBalance(c *Ctx, rule string, want func(fn *ssa.Function) bool, floor int) {
	p := c.P
	n := 0
	for _, fn := range p.LibFuncs() {
		if !want(fn) {
			continue
		}
		locks, _ := lockCallsIn(fn)
		// a method that *is* the lock operation of its type (Lock/RLock/TryLock forwarding to the mutex the type
		// holds): returning with the mutex held is its purpose
		switch fn.Name() {
		case "Lock", "RLock", "TryLock", "TryRLock":
			nCalls := 0
			eachInstr(fn, func(in ssa.Instruction) {
				if callOf(in) != nil {
					nCalls++
				}
			})
			if fn.Signature.Recv() != nil && nCalls == 1 && len(locks) == 1 {
				continue
			}
		}
		ord := map[string]int{}
		for _, l := range locks {
			l := l
			n++
			k := fnName(fn) + ": " + l.Key + "." + l.Kind
			ord[k]++
			key := fmt.Sprintf("%s #%d", k, ord[k])
			wantOp := "Unlock"
			if l.Kind == "RLock" {
				wantOp = "RUnlock"
			}
			releases := func(in ssa.Instruction) bool {
				var cc *ssa.CallCommon
				switch x := in.(type) {
				case *ssa.Call:
					cc = &x.Call
				case *ssa.Defer:
					cc = &x.Call
				default:
					return false
				}
				op, root, key2, ok := mutexOp(cc)
				if ok {
					return op == wantOp && key2 == l.Key && sameRoot(root, l.Root)
				}
				// a deferred closure that unlocks
				if d, isD := in.(*ssa.Defer); isD {
					if mc, isMC := d.Call.Value.(*ssa.MakeClosure); isMC {
						found := false
						eachInstr(mc.Fn.(*ssa.Function), func(y ssa.Instruction) {
							if cc2 := callOf(y); cc2 != nil {
								if op2, _, k2, ok2 := mutexOp(cc2); ok2 && op2 == wantOp && k2 == l.Key {
									found = true
								}
							}
						})
						return found
					}
				}
				return false
			}
			leak := reachAvoiding(fn, l.In, isReturn, releases)
			c.check(!leak, rule, key, p.Pos(l.In.Pos()), "released on every path to a return", "a return is reachable with "+l.Key+" still held ("+l.Kind+" without "+wantOp+"): every later user of the lock blocks for ever")
		}
	}
	c.check(n >= floor, rule, "lock sites", "?", fmt.Sprintf("%d Lock/RLock calls", n), fmt.Sprintf("only %d Lock/RLock calls found (%d expected)", n, floor))
}
