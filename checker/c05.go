package main

import (
	"fmt"
	"go/ast"
	"go/token"
	"go/types"
	"sort"
	"strings"

	"golang.org/x/tools/go/ssa"
)

func init() {
	register("C05", &propSpec{
		level:       "other",
		explanation: "The adapter's wiring between SFTP requests and package os, decided from the code: for every request type, the file-system calls made in its handling are exactly the expected package-os entry points with arguments of the right provenance (each path through toLocalPath exactly once, the symlink target verbatim); the open-flag tables of client (os→wire) and server (wire→os) compose to the identity on access mode, CREATE, TRUNC, EXCL for all 48 combinations; the error translation server→wire→client preserves the category for a finite set of standard error shapes (bare and inside os's own wrappers); toLocalPath joins only relative paths onto the working directory; Client.MkdirAll returns errors from the same sources as os.MkdirAll and Client.Glob keeps the matches of every expanded directory. Decides the mapping, not the behaviour of sequences over file-system states.",
		run:         runC05,
		assumptions: []string{"package os, path and errors behave as documented (axiom table for os.IsNotExist, os.IsPermission, errors.Is, errors.As)", "of the client composites only Glob's accumulator threading and MkdirAll's error sources (against the toolchain's os.MkdirAll) are decided; RemoveAll, Walk and the Remove fallback are not"},
	})
}

type argSpec struct {
	Kind  string // L (toLocalPath(field)), raw (field verbatim), const, any
	Field string
	Const int64
}

type osSpec struct {
	Fn   string // os function name as "os.Stat", "filepath.Abs", "syscall.Statfs"
	Args []argSpec
}

func L(f string) argSpec   { return argSpec{Kind: "L", Field: f} }
func raw(f string) argSpec { return argSpec{Kind: "raw", Field: f} }

var osTable = map[string][]osSpec{
	"sshFxInitPacket":                 {},
	"sshFxpStatPacket":                {{"os.Stat", []argSpec{L("Path")}}},
	"sshFxpLstatPacket":               {{"os.Lstat", []argSpec{L("Path")}}},
	"sshFxpFstatPacket":               {},
	"sshFxpMkdirPacket":               {{"os.Mkdir", []argSpec{L("Path"), {Kind: "const", Const: 0o755}}}},
	"sshFxpRmdirPacket":               {{"os.Remove", []argSpec{L("Path")}}},
	"sshFxpRemovePacket":              {{"os.Remove", []argSpec{L("Filename")}}},
	"sshFxpRenamePacket":              {{"os.Rename", []argSpec{L("Oldpath"), L("Newpath")}}},
	"sshFxpSymlinkPacket":             {{"os.Symlink", []argSpec{raw("Targetpath"), L("Linkpath")}}},
	"sshFxpClosePacket":               {},
	"sshFxpReadlinkPacket":            {{"os.Readlink", []argSpec{L("Path")}}},
	"sshFxpRealpathPacket":            {{"filepath.Abs", []argSpec{L("Path")}}},
	"sshFxpOpendirPacket":             {{"os.Stat", []argSpec{L("Path")}}, {"os.OpenFile", []argSpec{L("Path"), {Kind: "any"}, {Kind: "any"}}}},
	"sshFxpReadPacket":                {},
	"sshFxpWritePacket":               {},
	"sshFxpOpenPacket":                {{"os.OpenFile", []argSpec{L("Path"), {Kind: "any"}, {Kind: "any"}}}},
	"sshFxpReaddirPacket":             {},
	"sshFxpExtendedPacketPosixRename": {{"os.Rename", []argSpec{L("Oldpath"), L("Newpath")}}},
	"sshFxpExtendedPacketHardlink":    {{"os.Link", []argSpec{L("Oldpath"), L("Newpath")}}},
	"sshFxpExtendedPacketStatVFS":     {{"syscall.Statfs", []argSpec{L("Path"), {Kind: "any"}}}},
}

// passThrough: fn's body is `return target(params…)`; returns the target's id and, per
// argument of the target, the index of the parameter of fn it comes from (-1 otherwise).
func passThrough(fn *ssa.Function) (string, []int) {
	var found string
	var idx []int
	n := 0
	eachInstr(fn, func(in ssa.Instruction) {
		call, ok := in.(*ssa.Call)
		if !ok {
			return
		}
		f := calleeFunc(&call.Call)
		if f == nil || f.Pkg() == nil || strings.HasPrefix(f.Pkg().Path(), pkgSftp) {
			return
		}
		if !fsPackages[f.Pkg().Path()] {
			return
		}
		n++
		found = f.Pkg().Name() + "." + f.Name()
		idx = nil
		for _, a := range call.Call.Args {
			k := -1
			if pr, ok := stripConv(a).(*ssa.Parameter); ok {
				k = paramIndex(pr)
			}
			idx = append(idx, k)
		}
	})
	if n != 1 {
		return "", nil
	}
	return found, idx
}

type fsCall struct {
	Name string
	Args []ssa.Value
	In   ssa.Instruction
}

// fsCallsIn lists file-system calls in the region of fn, looking through the
// pass-through wrappers of the module.
func fsCallsIn(p *Program, fn *ssa.Function, blocks map[*ssa.BasicBlock]bool, depth int) []fsCall {
	var out []fsCall
	for _, b := range fn.Blocks {
		if blocks != nil && !blocks[b] {
			continue
		}
		for _, in := range b.Instrs {
			call, ok := in.(*ssa.Call)
			if !ok {
				continue
			}
			cc := &call.Call
			f := calleeFunc(cc)
			if f != nil && f.Pkg() != nil && !strings.HasPrefix(f.Pkg().Path(), pkgSftp) {
				pk := f.Pkg().Path()
				if (fsPackages[pk] && classifyExternal(f) != effNeutral) || (pk == "path/filepath" && f.Name() == "Abs") {
					out = append(out, fsCall{f.Pkg().Name() + "." + f.Name(), argsOf(cc), in})
				}
				continue
			}
			callee := cc.StaticCallee()
			if callee == nil || callee.Blocks == nil || depth > 2 {
				continue
			}
			if target, idx := passThrough(callee); target != "" {
				var args []ssa.Value
				for _, k := range idx {
					if k >= 0 && k < len(cc.Args) {
						args = append(args, cc.Args[k])
					} else {
						args = append(args, nil)
					}
				}
				out = append(out, fsCall{target, args, in})
				continue
			}
			// the OPENDIR case calls (&sshFxpOpenPacket{…}).respond: descend with the literal's fields
			if fnName(callee) == "(*sshFxpOpenPacket).respond" && depth == 0 {
				for _, c2 := range fsCallsIn(p, callee, nil, depth+1) {
					// translate receiver fields to the literal's stores
					recv := cc.Args[0]
					var args []ssa.Value
					for _, a := range c2.Args {
						args = append(args, substituteLiteral(a, recv))
					}
					out = append(out, fsCall{c2.Name, args, in})
				}
			}
		}
	}
	return out
}

// substituteLiteral: if v (inside respond) is toLocalPath(p.Path) of the receiver, and the receiver at the
// call site is a literal whose Path was stored from q.Path, return a marker value describing L(q.Path).
type synthArg struct {
	ssa.Value
	spec string
}

func substituteLiteral(v ssa.Value, recv ssa.Value) ssa.Value {
	if v == nil {
		return nil
	}
	lit, ok := recv.(*ssa.Alloc)
	if !ok {
		return v
	}
	for _, l := range leavesOf(v) {
		if l.Kind == leafCallResult && calleeName(l.Call) == "toLocalPath" {
			for _, l2 := range leavesOf(argsOf(l.Call)[0]) {
				if l2.Kind == leafFieldLoad {
					if src := litField(lit, l2.Field); src != nil {
						for _, l3 := range leavesOf(src) {
							if l3.Kind == leafFieldLoad {
								return synthArg{Value: v, spec: "L(" + l3.Field + ")"}
							}
						}
					}
				}
			}
		}
	}
	return v
}

// describeArg renders the provenance of a path argument as L(Field) / raw(Field) / const / ?.
func describeArg(p *Program, v ssa.Value) string {
	if v == nil {
		return "?"
	}
	if s, ok := v.(synthArg); ok {
		return s.spec
	}
	if k, ok := constInt(v); ok {
		return fmt.Sprintf("const(%d)", k)
	}
	ls := leavesOf(v)
	if len(ls) != 1 {
		return "?"
	}
	l := ls[0]
	switch l.Kind {
	case leafCallResult:
		if calleeName(l.Call) == "toLocalPath" {
			inner := leavesOf(argsOf(l.Call)[0])
			if len(inner) == 1 && inner[0].Kind == leafFieldLoad && p.isRequestType(inner[0].Base.Type()) {
				return "L(" + inner[0].Field + ")"
			}
			if len(inner) == 1 && inner[0].Kind == leafCallResult && calleeName(inner[0].Call) == "toLocalPath" {
				return "L(L(…))"
			}
			return "L(?)"
		}
		return "call:" + calleeName(l.Call)
	case leafFieldLoad:
		if p.isRequestType(l.Base.Type()) {
			return "raw(" + l.Field + ")"
		}
		return "field:" + l.Field
	}
	return "?"
}

func (a argSpec) String() string {
	switch a.Kind {
	case "L":
		return "L(" + a.Field + ")"
	case "raw":
		return "raw(" + a.Field + ")"
	case "const":
		return fmt.Sprintf("const(%d)", a.Const)
	}
	return "any"
}

func runC05(c *Ctx) {
	p := c.P
	handle := p.Func("handlePacket")
	if handle == nil {
		c.missing("R1", "handlePacket")
		return
	}
	c.looked("handlePacket")
	pos := func(in ssa.Instruction) string { return p.Pos(in.Pos()) }
	checkEffectErrorsReachTheReply(c, "R13")
	checkStatvfsFromNamesakes(c, "R14")
	// R15 (shared with C17.R3): a set-attributes request does what os.Truncate/Chmod/Chown/Chtimes do with the values sent
	// (which object FSETSTAT's calls name, and their order, are C17's known findings F37/F38 and are not repeated here)
	c.withRule("R15", func() { checkSetstatApplication(c, false) })
	// R16 (shared with C17.R1): Client.Chmod sends what os.Chmod would set — permission and special bits
	c.withOnlyKeys("R1", "R16", []string{"toChmodPerm"}, func() { runC17(c) })
	checkPortsOfOsFollowTheOriginal(c, "R17")
	// R18 (= C16.R23): like os.ReadDir, a listing that fails reports the failure; only io.EOF ends it quietly
	checkOnlyEOFEndsListing(c, "R18")
	// R19 (= C17.R8): times are unsigned 32-bit instants (2040 is not 1903); R20 (= C16.R2): READDIR runs behind the
	// MKDIR/REMOVE/RENAME that precede it
	checkTimesAreUnsigned32(c, "R19")
	c.withOnly("R2", "R20", func() { runC16(c) })

	// ---------- R1 request -> os table ----------
	top, specific := requestTypes(c, "R1")
	hv := requestSwitchValue(handle)
	if hv == nil {
		c.und("R1", "handlePacket switch", p.Pos(handle.Pos()), "no type switch")
		return
	}
	hHead := switchHead(handle, hv)
	for _, t := range append(append([]types.Type{}, top...), specific...) {
		tn := typeName(t)
		if tn == "sshFxpExtendedPacket" || tn == "sshFxpSetstatPacket" || tn == "sshFxpFsetstatPacket" {
			continue // extended: via its specific packets; setstat: C17.R3
		}
		want, known := osTable[tn]
		if !known {
			c.und("R1", "os calls of "+tn, "?", "request type not in the oracle table")
			continue
		}
		var calls []fsCall
		isSpecific := false
		for _, s := range specific {
			if types.Identical(s, t) {
				isSpecific = true
			}
		}
		body, def, ta := simulateDeep(hHead, t)
		_, viaIface := interface{}(nil), false
		if ta != nil {
			_, viaIface = ta.AssertedType.Underlying().(*types.Interface)
		}
		where := p.Pos(handle.Pos())
		if isSpecific || viaIface {
			m := p.methodOf(t, "respond")
			if m == nil || m.Blocks == nil {
				c.und("R1", "os calls of "+tn, "?", "no respond method in this build configuration")
				continue
			}
			calls = fsCallsIn(p, m, nil, 0)
			where = p.Pos(m.Pos())
		} else if !def {
			calls = fsCallsIn(p, handle, regionOf(handle, body), 0)
			where = p.Pos(body.Instrs[0].Pos())
		}
		// compare as multisets by function name
		used := make([]bool, len(calls))
		for _, w := range want {
			found := -1
			for i, cl := range calls {
				if !used[i] && cl.Name == w.Fn {
					found = i
					break
				}
			}
			key := tn + " → " + w.Fn
			if found < 0 {
				var have []string
				for _, cl := range calls {
					have = append(have, cl.Name)
				}
				c.bad("R1", key, where, fmt.Sprintf("the handling of %s does not call %s (it calls %v): the operation differs from package os", tn, w.Fn, have))
				continue
			}
			used[found] = true
			cl := calls[found]
			okArgs := len(cl.Args) >= len(w.Args)
			var got []string
			for i, a := range w.Args {
				if i >= len(cl.Args) {
					break
				}
				d := describeArg(p, cl.Args[i])
				got = append(got, d)
				if a.Kind != "any" && d != a.String() {
					okArgs = false
				}
			}
			var ws []string
			for _, a := range w.Args {
				ws = append(ws, a.String())
			}
			c.check(okArgs, "R1", key, pos(cl.In), w.Fn+"("+strings.Join(ws, ", ")+")", fmt.Sprintf("%s is called with (%s), expected (%s)", w.Fn, strings.Join(got, ", "), strings.Join(ws, ", ")))
		}
		for i, cl := range calls {
			if !used[i] {
				c.bad("R1", tn+" unexpected "+cl.Name, pos(cl.In), "the handling of "+tn+" makes a file-system call ("+cl.Name+") that package os's counterpart of this operation does not make")
			}
		}
	}
	c.floor("R1", 14)
	// OPENDIR opens with the directory's own path and read-only flags
	{
		t := p.NamedType(p.Sftp, "sshFxpOpendirPacket")
		if t != nil {
			body, _, _ := simulate(hHead, types.NewPointer(t))
			region := regionOf(handle, body)
			for _, a := range literalsOf(handle, "sshFxpOpenPacket") {
				if !region[a.Block()] {
					continue
				}
				pf, _ := constInt(litField(a, "Pflags"))
				path := describeArg(p, litField(a, "Path"))
				c.check(pf == 1 && path == "raw(Path)", "R1", "OPENDIR opens the directory read-only", pos(a), "open(p.Path, READ)", fmt.Sprintf("OPENDIR opens %s with pflags %#x", path, pf))
			}
		}
	}

	// ---------- R2 open flag tables ----------
	{
		srv, why := extractOpenTable(p)
		cli, why2 := extractToPflags(p)
		switch {
		case srv == nil:
			c.und("R2", "server open table", "?", why)
		case len(srv.unknown) > 0:
			c.und("R2", "server open table", "?", strings.Join(srv.unknown, "; "))
		case cli == nil:
			c.und("R2", "client toPflags table", "?", why2)
		default:
			acc := []string{"O_RDONLY", "O_WRONLY", "O_RDWR"}
			mods := []string{"O_APPEND", "O_CREATE", "O_TRUNC", "O_EXCL"}
			n := 0
			for _, a := range acc {
				for m := 0; m < 16; m++ {
					f := osConst(p, a)
					var names []string
					names = append(names, a)
					for i, mn := range mods {
						if m&(1<<i) != 0 {
							f |= osConst(p, mn)
							names = append(names, mn)
						}
					}
					wire := cli.eval(f)
					back, rej := srv.eval(wire)
					want := f &^ osConst(p, "O_APPEND") // documented: APPEND is sent but not applied (offsets are explicit)
					n++
					key := "open " + strings.Join(names, "|")
					c.check(!rej && back == want, "R2", key, "client.go/server.go", fmt.Sprintf("wire %#x → os %#x", wire, back),
						fmt.Sprintf("os flags %#x travel as wire flags %#x and are opened with os flags %#x (rejected=%v); expected %#x", f, wire, back, rej, want))
				}
			}
			c.floor("R2", 48)
		}
	}

	// ---------- R3 error categories ----------
	checkErrorShapes(c, "R3")
	c.floor("R3", 40)

	// ---------- R5 client composites: accumulated results are threaded through loops ----------
	checkAccumulators(c, "R5")

	// ---------- R6 Client.MkdirAll reports what os.MkdirAll reports ----------
	checkMkdirAllSibling(c, "R6")

	// ---------- R7 client methods send the namesake request with the arguments in the right fields ----------
	checkClientRequests(c, "R7")

	// ---------- R8 Client.Remove: which of the two errors is reported ----------
	checkRemoveComposite(c, "R8")

	// ---------- R9 Client.RemoveAll ----------
	checkRemoveAllComposite(c, "R9")

	// ---------- R10 Client.Glob ----------
	checkGlobComposite(c, "R10")

	checkOpenfilePassthrough(c, "R2")

	// ---------- R12 ReadDir returns the entries sorted by name, like os.ReadDir ----------
	// (Walk's documented lexical order depends on it)
	if rd := p.Func("(*Client).ReadDirContext"); rd == nil {
		c.missing("R12", "(*Client).ReadDirContext")
	} else {
		var sorter ssa.Instruction
		eachInstr(rd, func(in ssa.Instruction) {
			if cc := callOf(in); cc != nil && (callIs(cc, "sort.Slice") || callIs(cc, "sort.SliceStable") || callIs(cc, "sort.Sort") || callIs(cc, "slices.SortFunc") || callIs(cc, "slices.SortStableFunc")) {
				sorter = in
			}
		})
		okSort := sorter != nil
		if okSort {
			// every return of a non-nil listing passes the sort (results are spilled to cells because of the defer:
			// returnLeaves follows the reaching stores)
			for _, rl := range returnLeaves(rd, 0) {
				if isNilConst(rl.v) {
					continue
				}
				last := rl.block.Instrs[len(rl.block.Instrs)-1]
				if !dominates(sorter, last) {
					okSort = false
				}
			}
		}
		c.check(okSort, "R12", "ReadDir sorts its result", p.Pos(rd.Pos()), "sorted by filename before it is returned",
			"ReadDir returns the entries in the order the server sent them: os.ReadDir returns them sorted by filename, and Client.Walk (documented lexical order) inherits the server's order")
	}

	// ---------- R11 a file created without a permissions attribute gets 0666 before umask ----------
	// (Client.Create and OpenFile send no attributes and document "mode 0666 (before umask)", which is what
	// os.Create does; the default is the server's)
	if op := p.Func("(*sshFxpOpenPacket).respond"); op == nil {
		c.missing("R11", "(*sshFxpOpenPacket).respond")
	} else {
		var def int64 = -1
		pos := p.Pos(op.Pos())
		eachInstr(op, func(in ssa.Instruction) {
			cc := callOf(in)
			if cc == nil || calleeName(cc) != "openfile" {
				return
			}
			pos = p.Pos(in.Pos())
			for _, l := range leavesOf(cc.Args[len(cc.Args)-1]) {
				if l.Kind == leafConst {
					if k, ok := constInt(l.V); ok {
						def = k
					}
				}
			}
		})
		c.check(def == 0o666, "R11", "default mode of a created file", pos, "0666, subject to the server's umask", fmt.Sprintf("a file created without a permissions attribute gets mode %#o before umask; os.Create (and the Client's documentation) say 0666: with umask 002 the result differs", def))
	}

	// ---------- R4 toLocalPath ----------
	if tl := p.Func("(*Server).toLocalPath"); tl == nil {
		c.missing("R4", "(*Server).toLocalPath")
	} else {
		c.looked(fnName(tl))
		// every value toLocalPath can return is its argument or path.Join(workDir, argument) — read off the returns
		// (one return of a variable, or early returns), and the joined one only on the side of path.IsAbs(p) that says
		// the path is relative
		okShape := false
		guard := false
		wdAll := true
		{
			sawParam, sawJoin, other := false, false, false
			guardAll := true
			wdAll = true
			for _, rl := range returnLeaves(tl, 0) {
				if pr, ok := rl.v.(*ssa.Parameter); ok && len(tl.Params) > 1 && pr == tl.Params[1] {
					sawParam = true
					continue
				}
				call, ok := rl.v.(*ssa.Call)
				if !ok || !callIs(&call.Call, "path.Join") {
					other = true
					continue
				}
				sawJoin = true
				// … of the working directory and the path as it came (not of a cleaned or re-rooted copy of it)
				if els := variadicElems(call.Call.Args[0]); len(els) != 2 || len(tl.Params) < 2 || els[1] != ssa.Value(tl.Params[1]) {
					other = true
				} else {
					isWD := false
					for _, lf := range leavesOf(els[0]) {
						if lf.Kind == leafFieldLoad && lf.Field == "workDir" {
							isWD = true
						}
					}
					if !isWD {
						other = true
					}
				}
				g := false
				conds := edgeConds(rl.block, rl.pred)
				for cv, truth := range edgeConds(call.Block(), nil) {
					conds[cv] = truth
				}
				hasWD := false
				for cv, truth := range conds {
					if ic, ok := cv.(*ssa.Call); ok && callIs(&ic.Call, "path.IsAbs") && !truth && len(tl.Params) > 1 && ic.Call.Args[0] == ssa.Value(tl.Params[1]) {
						g = true
					}
					// … and only when a working directory is configured: path.Join("", p) is path.Clean(p)
					if bo, ok := cv.(*ssa.BinOp); ok && (bo.Op == token.NEQ || bo.Op == token.EQL) {
						if s, isS := constString(bo.Y); isS && s == "" {
							for _, lf := range leavesOf(bo.X) {
								if lf.Kind == leafFieldLoad && lf.Field == "workDir" && (bo.Op == token.NEQ) == truth {
									hasWD = true
								}
							}
						}
					}
				}
				if !g {
					guardAll = false
				}
				if !hasWD {
					wdAll = false
				}
			}
			okShape = sawParam && sawJoin && !other
			guard = sawJoin && guardAll
		}
		c.check(okShape, "R4", "toLocalPath result", p.Pos(tl.Pos()), "p or path.Join(workDir, p)", "toLocalPath returns something other than p or path.Join(workDir, p)")
		// path.Join cleans: "link/../x" loses the symlink before the file system sees it.  A process whose working
		// directory is workDir resolves such a path through the link.
		cleans := false
		eachInstr(tl, func(in ssa.Instruction) {
			if cc := callOf(in); cc != nil && (callIs(cc, "path.Join") || callIs(cc, "path.Clean") || callIs(cc, "path/filepath.Join") || callIs(cc, "path/filepath.Clean")) {
				cleans = true
			}
		})
		c.check(!cleans, "R4", "relative paths are resolved by the file system, not lexically", p.Pos(tl.Pos()), "workDir + \"/\" + p",
			"toLocalPath cleans the joined path lexically: for a directory symlink l, \"l/../f\" names workDir/f instead of the f next to l's target (Remove deletes the wrong file), \"missing/../f\" exists, \"f/\" is a file")
		c.check(wdAll, "R4", "paths are joined only when a working directory is set", p.Pos(tl.Pos()), "join guarded by workDir != \"\"",
			"without a working directory the path is still passed through path.Join, which cleans it lexically: \"link/\" loses its slash (Lstat sees the link, not the directory), \"link/../f\" and \"missing/..\" resolve without the file system being asked")
		c.check(guard, "R4", "only relative paths are joined", p.Pos(tl.Pos()), "join guarded by !path.IsAbs(p)", "absolute paths are no longer passed through unchanged (or relative ones are not resolved against the working directory)")
	}
}

// ---- client toPflags extraction ----

type pflagsTable struct {
	mask    int64
	byMode  map[int64]uint64 // access mode value -> wire bits
	singles []struct {
		osBit int64
		wire  uint64
	}
}

func (t *pflagsTable) eval(f int64) uint64 {
	out := t.byMode[f&t.mask]
	for _, s := range t.singles {
		if f&s.osBit == s.osBit {
			out |= s.wire
		}
	}
	return out
}

func extractToPflags(p *Program) (*pflagsTable, string) {
	fd, info := p.FuncDecl(pkgSftp, "", "toPflags")
	if fd == nil {
		return nil, "toPflags not found"
	}
	t := &pflagsTable{byMode: map[int64]uint64{}}
	orConst := func(blk []ast.Stmt) (uint64, bool) {
		if len(blk) != 1 {
			return 0, false
		}
		as, ok := blk[0].(*ast.AssignStmt)
		if !ok || as.Tok != token.OR_ASSIGN {
			return 0, false
		}
		v, ok := constOf(info, as.Rhs[0])
		return uint64(v), ok
	}
	for _, st := range fd.Body.List {
		switch x := st.(type) {
		case *ast.SwitchStmt:
			and, ok := ast.Unparen(x.Tag).(*ast.BinaryExpr)
			if !ok || and.Op != token.AND {
				return nil, "toPflags: switch tag is not f & mask"
			}
			m, ok := constOf(info, and.Y)
			if !ok {
				return nil, "toPflags: access-mode mask is not constant"
			}
			t.mask = m
			for _, cl := range x.Body.List {
				cc := cl.(*ast.CaseClause)
				w, ok := orConst(cc.Body)
				if !ok {
					return nil, "toPflags: case body is not `out |= CONST`"
				}
				for _, e := range cc.List {
					v, ok := constOf(info, e)
					if !ok {
						return nil, "toPflags: non-constant case"
					}
					t.byMode[v] = w
				}
			}
		case *ast.IfStmt:
			// f&os.O_X == os.O_X  (or != 0)
			b, ok := ast.Unparen(x.Cond).(*ast.BinaryExpr)
			if !ok {
				return nil, "toPflags: unexpected if"
			}
			and, ok := ast.Unparen(b.X).(*ast.BinaryExpr)
			if !ok || and.Op != token.AND {
				return nil, "toPflags: unexpected if condition"
			}
			bit, ok := constOf(info, and.Y)
			if !ok {
				return nil, "toPflags: non-constant flag"
			}
			rhs, ok := constOf(info, b.Y)
			if !ok || !((b.Op == token.EQL && rhs == bit) || (b.Op == token.NEQ && rhs == 0)) {
				return nil, "toPflags: flag test is not `f&X == X`"
			}
			w, ok := orConst(x.Body.List)
			if !ok {
				return nil, "toPflags: if body is not `out |= CONST`"
			}
			t.singles = append(t.singles, struct {
				osBit int64
				wire  uint64
			}{bit, w})
		}
	}
	if len(t.byMode) == 0 {
		return nil, "toPflags: no access-mode switch"
	}
	var ks []int64
	for k := range t.byMode {
		ks = append(ks, k)
	}
	sort.Slice(ks, func(i, j int) bool { return ks[i] < ks[j] })
	return t, ""
}

// checkAccumulators (C05.R5): a helper that appends to a slice it is given and returns it (Client.glob) must,
// when called in a loop, be handed the variable that receives its result; otherwise the results of earlier
// iterations are lost (Glob over several expanded directories).
func checkAccumulators(c *Ctx, rule string) {
	p := c.P
	n := 0
	for _, g := range p.LibFuncs() {
		if g.Parent() != nil || outermost(g).Package() != p.Sftp || !isClientSide(g) {
			continue
		}
		res := g.Signature.Results()
		if res.Len() == 0 {
			continue
		}
		if _, ok := res.At(0).Type().Underlying().(*types.Slice); !ok {
			continue
		}
		// which slice parameter flows into result 0 on every return
		accIdx := -1
		for i, pr := range g.Params {
			if !types.Identical(pr.Type(), res.At(0).Type()) {
				continue
			}
			flowsAll, nret := true, 0
			eachInstr(g, func(in ssa.Instruction) {
				r, ok := in.(*ssa.Return)
				if !ok || !isReturn(in) {
					return
				}
				nret++
				if !derivesFromAppendOf(r.Results[0], pr, map[ssa.Value]bool{}, 0) {
					flowsAll = false
				}
			})
			if flowsAll && nret > 0 {
				accIdx = i
			}
		}
		if accIdx < 0 {
			continue
		}
		for _, site := range p.callersOfStatic(g) {
			call, ok := site.(*ssa.Call)
			if !ok || !inLoop(site) {
				continue
			}
			n++
			arg := call.Call.Args[accIdx]
			var res0 ssa.Value
			for _, r := range *call.Referrers() {
				if ex, ok := r.(*ssa.Extract); ok && ex.Index == 0 {
					res0 = ex
				}
			}
			if res.Len() == 1 {
				res0 = call
			}
			threaded := false
			if res0 != nil {
				// the argument is a loop variable whose next value is this call's result
				if phi, ok := arg.(*ssa.Phi); ok {
					for _, e := range phi.Edges {
						if flowsTo(res0, e, map[ssa.Value]bool{}, 0) {
							threaded = true
						}
					}
				}
				if u, ok := arg.(*ssa.UnOp); ok {
					if a, ok := u.X.(*ssa.Alloc); ok {
						for _, st := range storesTo(a.Parent(), a) {
							if flowsTo(res0, st.Val, map[ssa.Value]bool{}, 0) {
								threaded = true
							}
						}
					}
				}
			}
			c.check(threaded, rule, "accumulator of "+fnName(g)+" in "+fnName(site.Parent()), p.Pos(site.Pos()),
				"the slice being accumulated is passed in and receives the result", "a call in a loop to "+fnName(g)+" does not pass the accumulated slice on: the results of earlier iterations are dropped (Glob returns only the matches of the last expanded directory)")
		}
	}
	c.check(n >= 1, rule, "accumulating helpers called in loops", "?", fmt.Sprintf("%d sites", n), "no accumulating helper call found (Client.glob in Client.Glob expected)")
}

// derivesFromAppendOf: v is param, or append(...(param)...), or a phi/load of those.
func derivesFromAppendOf(v ssa.Value, pr *ssa.Parameter, seen map[ssa.Value]bool, d int) bool {
	if v == nil || d > 10 || seen[v] {
		return d <= 10 && seen[v]
	}
	seen[v] = true
	switch x := v.(type) {
	case *ssa.Parameter:
		return x == pr
	case *ssa.Phi:
		for _, e := range x.Edges {
			if !derivesFromAppendOf(e, pr, seen, d+1) {
				return false
			}
		}
		return true
	case *ssa.Call:
		if builtinName(&x.Call) == "append" {
			return derivesFromAppendOf(x.Call.Args[0], pr, seen, d+1)
		}
	case *ssa.UnOp:
		if a, ok := x.X.(*ssa.Alloc); ok {
			sts := reachingStores(x, a)
			if len(sts) == 0 {
				return false
			}
			for _, st := range sts {
				if !derivesFromAppendOf(st.Val, pr, seen, d+1) {
					return false
				}
			}
			return true
		}
	}
	return false
}

// flowsTo: does value src reach dst through phis?
func flowsTo(src, dst ssa.Value, seen map[ssa.Value]bool, d int) bool {
	if dst == src {
		return true
	}
	if d > 6 || seen[dst] {
		return false
	}
	seen[dst] = true
	if phi, ok := dst.(*ssa.Phi); ok {
		for _, e := range phi.Edges {
			if flowsTo(src, e, seen, d+1) {
				return true
			}
		}
	}
	return false
}

// errSources is the path-insensitive provenance of a function's error result: "nil", "call:<name>" for the error
// returned by a callee, "new:<Type>[:<Err constant>]" for an error value built in place.
func errSources(fn *ssa.Function, resIdx int) map[string]bool {
	out := map[string]bool{}
	for _, rl := range returnLeaves(fn, resIdx) {
		for _, l := range leavesOf(rl.v) {
			switch l.Kind {
			case leafConst:
				if k, ok := l.V.(*ssa.Const); ok && k.Value == nil {
					out["nil"] = true
				} else {
					out["const:"+l.V.String()] = true
				}
			case leafCallResult:
				out["call:"+calleeName(l.Call)] = true
			default:
				if a, ok := l.V.(*ssa.Alloc); ok {
					tok := "new:" + typeName(a.Type())
					if n := namedOf(a.Type()); n != nil {
						tok = "new:" + n.Obj().Name()
					}
					if e := litField(a, "Err"); e != nil {
						if k, ok := constInt(stripConv(e)); ok {
							tok += fmt.Sprintf(":errno=%d", k)
						}
					}
					out[tok] = true
				} else {
					out["other:"+l.V.String()] = true
				}
			}
		}
	}
	return out
}

// checkMkdirAllSibling (C05.R6): Client.MkdirAll is documented to mimic os.MkdirAll.  Both are analysed with the same
// provenance function and must report errors from the corresponding sources (Stat↔Stat, Mkdir↔Mkdir, the recursive
// call, the ENOTDIR PathError): e.g. when Mkdir fails and Lstat does not show a directory, the error is Mkdir's.
func checkMkdirAllSibling(c *Ctx, rule string) {
	p := c.P
	cl := p.Func("(*Client).MkdirAll")
	if cl == nil {
		c.missing(rule, "(*Client).MkdirAll")
		return
	}
	c.looked("(*Client).MkdirAll")
	var ref *ssa.Function
	if op := p.byPath["os"]; op != nil {
		if sp := p.SSA.Package(op.Types); sp != nil {
			ref = sp.Func("MkdirAll")
		}
	}
	want := map[string]bool{}
	refDesc := "os.MkdirAll of the toolchain"
	if ref != nil && ref.Blocks != nil {
		want = errSources(ref, 0)
	}
	// the toolchain's os.MkdirAll is the reference; if its shape is not the expected one the frozen table is used
	frozen := map[string]bool{"nil": true, "call:MkdirAll": true, "call:Mkdir": true, "new:PathError:errno=20": true}
	same := func(a, b map[string]bool) bool {
		if len(a) != len(b) {
			return false
		}
		for k := range a {
			if !b[k] {
				return false
			}
		}
		return true
	}
	if !same(want, frozen) {
		want, refDesc = frozen, "os.MkdirAll (frozen table; the toolchain's version has another shape)"
	}
	got := errSources(cl, 0)
	keys := func(m map[string]bool) string {
		var ks []string
		for k := range m {
			ks = append(ks, k)
		}
		sort.Strings(ks)
		return strings.Join(ks, ", ")
	}
	c.check(same(got, want), rule, "MkdirAll error sources", p.Pos(cl.Pos()), "{"+keys(got)+"} as in "+refDesc,
		"Client.MkdirAll returns errors from {"+keys(got)+"}, "+refDesc+" returns them from {"+keys(want)+"}: a failure is reported with another call's error (and category) than package os reports")
	// success sources: nil is returned only after a successful Stat/Lstat showing a directory or a successful Mkdir —
	// decided by the same comparison on the number of nil returns
	nilRets := func(fn *ssa.Function) int {
		n := 0
		for _, rl := range returnLeaves(fn, 0) {
			if k, ok := rl.v.(*ssa.Const); ok && k.Value == nil {
				n++
			}
		}
		return n
	}
	if ref != nil && ref.Blocks != nil {
		c.check(nilRets(cl) == nilRets(ref), rule, "MkdirAll success returns", p.Pos(cl.Pos()), fmt.Sprintf("%d, as os.MkdirAll", nilRets(cl)), fmt.Sprintf("Client.MkdirAll has %d success returns, os.MkdirAll has %d", nilRets(cl), nilRets(ref)))
	}
}

// checkClientRequests (C05.R7): each name-space method of the Client sends the request kind package os's namesake
// performs, with its arguments in the fields that mean the same thing (os.Symlink(oldname, newname): newname is the
// link, oldname its target; os.Rename/os.Link(old, new)).  Table keyed by method; fields name the k-th string
// parameter (1-based) or the k-th uint32 parameter ("u1").
func checkClientRequests(c *Ctx, rule string) {
	p := c.P
	type spec struct {
		fn, pkt string
		fields  map[string]string
	}
	table := []spec{
		{"(*Client).Symlink", "sshFxpSymlinkPacket", map[string]string{"Targetpath": "s1", "Linkpath": "s2"}},
		{"(*Client).Link", "sshFxpHardlinkPacket", map[string]string{"Oldpath": "s1", "Newpath": "s2"}},
		{"(*Client).Rename", "sshFxpRenamePacket", map[string]string{"Oldpath": "s1", "Newpath": "s2"}},
		{"(*Client).PosixRename", "sshFxpPosixRenamePacket", map[string]string{"Oldpath": "s1", "Newpath": "s2"}},
		{"(*Client).Mkdir", "sshFxpMkdirPacket", map[string]string{"Path": "s1"}},
		{"(*Client).removeFile", "sshFxpRemovePacket", map[string]string{"Filename": "s1"}},
		{"(*Client).RemoveDirectory", "sshFxpRmdirPacket", map[string]string{"Path": "s1"}},
		{"(*Client).ReadLink", "sshFxpReadlinkPacket", map[string]string{"Path": "s1"}},
		{"(*Client).RealPath", "sshFxpRealpathPacket", map[string]string{"Path": "s1"}},
		{"(*Client).stat", "sshFxpStatPacket", map[string]string{"Path": "s1"}},
		{"(*Client).Lstat", "sshFxpLstatPacket", map[string]string{"Path": "s1"}},
		{"(*Client).setstat", "sshFxpSetstatPacket", map[string]string{"Path": "s1", "Flags": "u1"}},
		{"(*Client).open", "sshFxpOpenPacket", map[string]string{"Path": "s1", "Pflags": "u1"}},
		{"(*Client).opendir", "sshFxpOpendirPacket", map[string]string{"Path": "s1"}},
		{"(*Client).StatVFS", "sshFxpStatvfsPacket", map[string]string{"Path": "s1"}},
	}
	for _, s := range table {
		fn := p.Func(s.fn)
		if fn == nil {
			c.missing(rule, s.fn)
			continue
		}
		c.looked(s.fn)
		param := func(code string) *ssa.Parameter {
			want := 0
			fmt.Sscanf(code[1:], "%d", &want)
			k := 0
			for _, pr := range fn.Params[1:] {
				b, ok := pr.Type().Underlying().(*types.Basic)
				if !ok {
					continue
				}
				if (code[0] == 's' && b.Kind() == types.String) || (code[0] == 'u' && b.Kind() == types.Uint32) {
					k++
					if k == want {
						return pr
					}
				}
			}
			return nil
		}
		// the packet literal handed to sendPacket
		var lit *ssa.Alloc
		var litType string
		eachInstr(fn, func(in ssa.Instruction) {
			cc := callOf(in)
			if cc == nil || calleeName(cc) != "sendPacket" {
				return
			}
			for _, a := range cc.Args {
				if mi, ok := a.(*ssa.MakeInterface); ok {
					if al, ok := mi.X.(*ssa.Alloc); ok {
						lit, litType = al, typeName(al.Type())
					}
				}
			}
		})
		if lit == nil {
			c.und(rule, s.fn+" request", p.Pos(fn.Pos()), "cannot find the packet literal handed to sendPacket")
			continue
		}
		c.check(litType == s.pkt, rule, s.fn+" request kind", p.Pos(lit.Pos()), s.pkt, s.fn+" sends a "+litType+", its namesake in package os corresponds to "+s.pkt)
		var fields []string
		for f := range s.fields {
			fields = append(fields, f)
		}
		sort.Strings(fields)
		for _, f := range fields {
			wantP := param(s.fields[f])
			v := litField(lit, f)
			good := false
			got := "nothing"
			if v != nil {
				for _, l := range leavesOf(v) {
					if l.Kind == leafParam {
						got = "parameter " + l.Param.Name()
						good = wantP != nil && l.Param == wantP
					} else {
						got = l.V.String()
					}
				}
			}
			wn := "?"
			if wantP != nil {
				wn = wantP.Name()
			}
			c.check(good, rule, s.fn+": "+f, p.Pos(lit.Pos()), f+" ← "+wn, fmt.Sprintf("%s fills %s of the request from %s, expected the argument %s: the operation is applied to the wrong name", s.fn, f, got, wn))
		}
	}
}

// checkRemoveComposite (C05.R8): Client.Remove tries the file removal, then the directory removal.  Decided on the
// return leaves with the branch conditions that select them: nil is returned exactly when one of the two succeeded;
// when both failed, the directory error is reported only for a directory, the file error only for a non-directory (or
// when both errors are the same PathError), and a failing Stat reports its own error.
func checkRemoveComposite(c *Ctx, rule string) {
	p := c.P
	fn := p.Func("(*Client).Remove")
	if fn == nil {
		c.missing(rule, "(*Client).Remove")
		return
	}
	c.looked("(*Client).Remove")
	srcOf := func(v ssa.Value) string {
		out := ""
		for _, l := range leavesOf(v) {
			switch l.Kind {
			case leafCallResult:
				out = calleeName(l.Call)
			case leafConst:
				if k, ok := l.V.(*ssa.Const); ok && k.Value == nil {
					out = "nil"
				}
			}
		}
		return out
	}
	calls := 0
	eachInstr(fn, func(in ssa.Instruction) {
		if cc := callOf(in); cc != nil && (calleeName(cc) == "removeFile" || calleeName(cc) == "RemoveDirectory") {
			calls++
		}
	})
	follows := false
	eachInstr(fn, func(in ssa.Instruction) {
		if cc := callOf(in); cc != nil && calleeName(cc) == "Stat" {
			follows = true
		}
	})
	c.check(!follows, rule, "Remove looks at the name, not through it", p.Pos(fn.Pos()), "Lstat", "Remove decides which error to report with Stat, which follows a symlink: for a dangling link the lookup fails with not-exist and replaces the removal's error")
	c.check(calls == 2, rule, "Remove tries the file, then the directory", p.Pos(fn.Pos()), "one removeFile and one RemoveDirectory", fmt.Sprintf("%d removal calls in Remove", calls))
	n := 0
	for _, rl := range returnLeaves(fn, 0) {
		n++
		src := srcOf(rl.v)
		conds := edgeConds(rl.block, rl.pred)
		var succeeded, isDirT, isDirF, sameErr, statFailed bool
		for cv, truth := range conds {
			switch x := cv.(type) {
			case *ssa.BinOp:
				if isNilConst(x.Y) {
					s := srcOf(x.X)
					isNil := (x.Op == token.EQL) == truth
					if isNil && (s == "removeFile" || s == "RemoveDirectory") {
						succeeded = true
					}
					if !isNil && (s == "Stat" || s == "Lstat") {
						statFailed = true
					}
				}
			case *ssa.Call:
				switch calleeName(&x.Call) {
				case "IsDir":
					if truth {
						isDirT = true
					} else {
						isDirF = true
					}
				case "Is":
					if truth {
						sameErr = true
					}
				}
			}
		}
		key := fmt.Sprintf("Remove result #%d (%s)", n, src)
		pos := p.Pos(rl.block.Instrs[len(rl.block.Instrs)-1].Pos())
		switch src {
		case "nil":
			c.check(succeeded, rule, key, pos, "nil only after one of the two removals succeeded", "Remove returns nil although neither removal succeeded")
		case "removeFile":
			// also what is reported when the name cannot be looked at: the removal's own error, not the lookup's
			c.check(!succeeded && (isDirF || sameErr || statFailed), rule, key, pos, "the file error for a non-directory (or when both errors agree, or the name cannot be examined)", "Remove reports the file-removal error on a path where the directory removal succeeded or the name is a directory")
		case "RemoveDirectory":
			c.check(!succeeded && isDirT, rule, key, pos, "the directory error for a directory", "Remove reports the directory-removal error for something that is not a directory (or after a success)")
		case "Stat", "Lstat":
			c.bad(rule, key, pos, "when both removals failed Remove returns the error of its look at the name instead of a removal's error: for a dangling symlink named with a trailing slash (or on a read-only file system) it answers not-exist where the removal failed for another reason (os.Remove reports the removal's error)")
		default:
			c.und(rule, key, pos, "result of Remove not understood: "+rl.v.String())
		}
	}
	c.check(n >= 5, rule, "Remove results", p.Pos(fn.Pos()), fmt.Sprintf("%d result leaves", n), fmt.Sprintf("only %d result leaves found in Remove", n))
}

// checkRemoveAllComposite (C05.R9): Client.RemoveAll walks one directory level per call.  Decided: every error of
// Stat/ReadDir/RemoveAll/Remove is returned (the function's results come only from those calls, never a constant
// nil), children are addressed as path + "/" + Name(), sub-directories recurse and other entries are removed
// directly (selected by the entry's IsDir()), and the last step removes path itself.
func checkRemoveAllComposite(c *Ctx, rule string) {
	p := c.P
	fn := p.Func("(*Client).RemoveAll")
	if fn == nil {
		c.missing(rule, "(*Client).RemoveAll")
		return
	}
	c.looked("(*Client).RemoveAll")
	pathP := fn.Params[1]
	// the path worked on: the parameter, or what is left of it after trailing slashes were cut off
	isPath := func(v ssa.Value) bool {
		ls := leavesOfIface(v)
		if len(ls) == 0 {
			return false
		}
		for _, l := range ls {
			switch x := l.(type) {
			case *ssa.Parameter:
				if x != pathP {
					return false
				}
			case *ssa.Slice:
				ok := false
				for _, l2 := range leavesOfIface(x.X) {
					if l2 == ssa.Value(pathP) {
						ok = true
					}
				}
				if !ok || x.Low != nil {
					return false
				}
			default:
				return false
			}
		}
		return true
	}
	isChild := func(v ssa.Value) bool {
		// (path + "/") + x.Name()
		a, ok := v.(*ssa.BinOp)
		if !ok || a.Op != token.ADD {
			return false
		}
		b, ok := a.X.(*ssa.BinOp)
		if !ok || b.Op != token.ADD || !isPath(b.X) {
			return false
		}
		if s, ok := constString(b.Y); !ok || s != "/" {
			return false
		}
		call, ok := a.Y.(*ssa.Call)
		return ok && call.Call.IsInvoke() && call.Call.Method.Name() == "Name"
	}
	var recur, remChild, remSelf int
	eachInstr(fn, func(in ssa.Instruction) {
		call, ok := in.(*ssa.Call)
		if !ok {
			return
		}
		nm := calleeName(&call.Call)
		if nm != "RemoveAll" && nm != "Remove" && nm != "RemoveDirectory" {
			return
		}
		arg := call.Call.Args[len(call.Call.Args)-1]
		if nm == "RemoveDirectory" {
			// the attempt on the directory itself before it is listed (judged below); as a final step it is a Remove
			if !isPath(arg) {
				c.bad(rule, "RemoveAll step RemoveDirectory", p.Pos(call.Pos()), "RemoveDirectory is applied to something other than path")
			}
			return
		}
		conds := edgeConds(call.Block(), nil)
		entryIsDir := 0
		for cv, truth := range conds {
			if x, ok := cv.(*ssa.Call); ok && x.Call.IsInvoke() && x.Call.Method.Name() == "IsDir" && inLoop(x) {
				if truth {
					entryIsDir = 1
				} else {
					entryIsDir = -1
				}
			}
		}
		key := fmt.Sprintf("RemoveAll step %s at %s", nm, p.Pos(call.Pos()))
		key = "RemoveAll step " + nm + map[bool]string{true: " (child)", false: " (self)"}[isChild(arg)]
		switch {
		case nm == "RemoveAll":
			recur++
			c.check(isChild(arg) && entryIsDir == 1, rule, key, p.Pos(call.Pos()), "recursion into path/Name() for a directory entry", "the recursive step is not applied to path + \"/\" + Name() of a directory entry")
		case isChild(arg):
			remChild++
			c.check(entryIsDir == -1, rule, key, p.Pos(call.Pos()), "direct removal of path/Name() for a non-directory entry", "a directory entry is removed directly (fails when it is not empty) or the removal is not selected by the entry's IsDir()")
		default:
			remSelf++
			c.check(isPath(arg) && !inLoop(call), rule, key, p.Pos(call.Pos()), "Remove(path) after the children", "the final removal is not applied to path itself")
		}
	})
	c.check(recur >= 1 && remChild >= 1 && remSelf >= 1, rule, "RemoveAll steps", p.Pos(fn.Pos()), "recursion, child removal, self removal", fmt.Sprintf("%d recursive, %d child and %d self removals found", recur, remChild, remSelf))
	src := errSources(fn, 0)
	want := map[string]bool{"call:Stat": true, "call:ReadDir": true, "call:RemoveAll": true, "call:Remove": true}
	checkRemoveAllLikeOs(c, rule, fn, isPath)
	// the first probe must not follow a symlink: RemoveAll(link to a directory) removes the link, like os.RemoveAll;
	// with Stat it empties the directory the link points to
	c.check(src["call:Lstat"] && !src["call:Stat"], rule, "RemoveAll probes with Lstat", p.Pos(fn.Pos()), "c.Lstat(path)",
		"RemoveAll examines path with Stat: a symlink to a directory is followed and the contents of the target directory are deleted (os.RemoveAll removes only the link); a dangling link is reported as not existing instead of being removed")
	if src["call:Lstat"] {
		delete(src, "call:Lstat")
		src["call:Stat"] = true
	}
	// a variant that removes the (now empty) directory with RemoveDirectory, or a file with removeFile, is as good
	for _, alt := range []string{"call:RemoveDirectory", "call:removeFile"} {
		if src[alt] {
			delete(src, alt)
			src["call:Remove"] = true
		}
	}
	// a constant nil is a result too — legitimate exactly where a removal of path itself has just succeeded
	if src["nil"] {
		okNil := true
		// returns of a value that was tested non-nil on the way (`if firstErr != nil { return firstErr }`) cannot
		// deliver the nil that the variable started with
		testedNonNil := map[*ssa.BasicBlock]bool{}
		eachInstr(fn, func(in ssa.Instruction) {
			if r, ok := in.(*ssa.Return); ok && isReturn(in) && len(r.Results) == 1 {
				for cv, truth := range edgeConds(r.Block(), nil) {
					if bo, ok := cv.(*ssa.BinOp); ok && isNilConst(bo.Y) && bo.X == r.Results[0] && (bo.Op == token.NEQ) == truth {
						// every phi that feeds the tested value: the nil one of them started with cannot come out here
						seenPhi := map[*ssa.Phi]bool{}
						var mark func(v ssa.Value)
						mark = func(v ssa.Value) {
							if ph, ok := v.(*ssa.Phi); ok && !seenPhi[ph] {
								seenPhi[ph] = true
								testedNonNil[ph.Block()] = true
								for _, e := range ph.Edges {
									mark(e)
								}
							}
						}
						mark(r.Results[0])
					}
				}
			}
		})
		for _, rl := range returnLeaves(fn, 0) {
			if !isNilConst(rl.v) {
				continue
			}
			if rl.pred != nil && testedNonNil[rl.block] {
				continue
			}
			removed := false
			for cv, truth := range edgeConds(rl.block, rl.pred) {
				if bo, ok := cv.(*ssa.BinOp); ok && isNilConst(bo.Y) && (bo.Op == token.EQL) == truth {
					for _, l := range leavesOf(bo.X) {
						if l.Kind == leafCallResult && (calleeName(l.Call) == "RemoveDirectory" || calleeName(l.Call) == "Remove") && isPath(l.Call.Args[len(l.Call.Args)-1]) {
							removed = true
						}
					}
				}
			}
			if !removed {
				okNil = false
			}
		}
		if okNil {
			delete(src, "nil")
		}
	}
	same := len(src) == len(want)
	for k := range src {
		if !want[k] {
			same = false
		}
	}
	var ks []string
	for k := range src {
		ks = append(ks, k)
	}
	sort.Strings(ks)
	c.check(same, rule, "RemoveAll error sources", p.Pos(fn.Pos()), "{"+strings.Join(ks, ", ")+"}", "RemoveAll's result comes from {"+strings.Join(ks, ", ")+"}: an error of one of its steps is dropped (constant nil) or replaced")
	// every step's error is tested and returned
	eachInstr(fn, func(in ssa.Instruction) {
		call, ok := in.(*ssa.Call)
		if !ok {
			return
		}
		nm := calleeName(&call.Call)
		if nm != "RemoveAll" && nm != "Remove" && nm != "ReadDir" && nm != "Stat" && nm != "Lstat" {
			return
		}
		var errV ssa.Value = call
		if call.Type().(interface{ String() string }).String() != "error" {
			errV = nil
			for _, r := range *call.Referrers() {
				if ex, ok := r.(*ssa.Extract); ok && ex.Index == 1 {
					errV = ex
				}
			}
		}
		used := false
		if errV != nil {
			for _, r := range *errV.Referrers() {
				switch x := r.(type) {
				case *ssa.Return:
					used = true
				case *ssa.BinOp:
					if isNilConst(x.Y) {
						used = true
					}
				case *ssa.Phi:
					used = true
				}
			}
		}
		c.check(used, rule, "RemoveAll examines the error of "+nm+map[bool]string{true: " (in the loop)", false: ""}[inLoop(call)], p.Pos(call.Pos()), "tested or returned", "the error of "+nm+" is ignored: RemoveAll goes on (and may report success) after a failed step")
	})
}

// checkGlobComposite (C05.R10): Client.Glob follows path/filepath.Glob.  Decided: the pattern is validated before
// anything else (so that a malformed pattern is ErrBadPattern whatever the directories contain, as the doc comment
// promises), and a pattern without metacharacters that exists is returned as given (not rebuilt from its directory
// and the entry's base name, which turns "dir/" into "dir/dir").
func checkGlobComposite(c *Ctx, rule string) {
	p := c.P
	fn := p.Func("(*Client).Glob")
	if fn == nil {
		c.missing(rule, "(*Client).Glob")
		return
	}
	c.looked("(*Client).Glob")
	// the directory expander asks Stat (filepath.glob asks os.Stat): a symbolic link to a directory is descended into
	if g := p.Func("(*Client).glob"); g == nil {
		c.missing(rule, "(*Client).glob")
	} else {
		var stats, lstats int
		eachInstr(g, func(in ssa.Instruction) {
			if cc := callOf(in); cc != nil && cc.StaticCallee() != nil {
				switch fnName(cc.StaticCallee()) {
				case "(*Client).Stat":
					stats++
				case "(*Client).Lstat":
					lstats++
				}
			}
		})
		c.check(stats == 1 && lstats == 0, rule, "glob asks Stat whether the directory part is a directory", p.Pos(g.Pos()), "c.Stat(dir), as filepath.glob asks os.Stat",
			fmt.Sprintf("the directory expander of Glob calls Stat %d times and Lstat %d times: with Lstat a symbolic link to a directory is not descended into and the matches below it are lost (filepath.Glob returns them)", stats, lstats))
	}
	pat := fn.Params[1]
	var validate ssa.Instruction
	eachInstr(fn, func(in ssa.Instruction) {
		call, ok := in.(*ssa.Call)
		if !ok {
			return
		}
		if nm := calleeName(&call.Call); nm != "Match" {
			return
		}
		if len(call.Call.Args) == 2 && call.Call.Args[0] == ssa.Value(pat) {
			if s, ok := constString(call.Call.Args[1]); ok && s == "" {
				validate = in
			}
		}
	})
	upfront := validate != nil
	if upfront {
		eachInstr(fn, func(in ssa.Instruction) {
			cc := callOf(in)
			if cc == nil || in == validate {
				return
			}
			switch calleeName(cc) {
			case "Lstat", "Stat", "glob", "Glob", "ReadDir":
				if !dominates(validate, in) {
					upfront = false
				}
			}
		})
		// its error is returned
		ret := false
		for _, rl := range returnLeaves(fn, 1) {
			for _, l := range leavesOf(rl.v) {
				if l.Kind == leafCallResult && l.CallIn == validate {
					ret = true
				}
			}
		}
		upfront = upfront && ret
	}
	c.check(upfront, rule, "Glob validates the pattern first", p.Pos(fn.Pos()), "Match(pattern, \"\") before any request, its error returned",
		"Glob does not validate the pattern up front: a malformed pattern such as \"x/[\" yields nil, nil unless some directory entry happens to be matched against it (the doc comment and filepath.Glob say ErrBadPattern)")
	verbatim, rebuilt := false, false
	eachInstr(fn, func(in ssa.Instruction) {
		if st, ok := in.(*ssa.Store); ok && st.Val == ssa.Value(pat) {
			if _, isIdx := st.Addr.(*ssa.IndexAddr); isIdx {
				verbatim = true
			}
		}
		if call, ok := in.(*ssa.Call); ok && calleeName(&call.Call) == "Join" {
			for _, a := range call.Call.Args {
				for _, l := range leavesOf(a) {
					if l.Kind == leafCallResult && calleeName(l.Call) == "Name" {
						rebuilt = true
					}
				}
			}
			// variadic: the slice argument holds the call result
			for _, r := range fn.Blocks {
				_ = r
			}
		}
	})
	// Join(dir, file.Name()) stores file.Name() into the variadic array
	eachInstr(fn, func(in ssa.Instruction) {
		if st, ok := in.(*ssa.Store); ok {
			if call, ok := st.Val.(*ssa.Call); ok && call.Call.IsInvoke() && call.Call.Method.Name() == "Name" {
				rebuilt = true
			}
		}
	})
	c.check(verbatim && !rebuilt, rule, "Glob returns an existing literal name as given", p.Pos(fn.Pos()), "[]string{pattern}",
		"for a pattern without metacharacters Glob returns Join(dir, Lstat(pattern).Name()) instead of the pattern: \"dir/\" comes back as \"dir/dir\", which does not exist")
}

// checkRemoveAllLikeOs: three points on which Client.RemoveAll has to behave like os.RemoveAll, each found by a
// differential run against package os (F54):
//   - it works on the name: trailing slashes are cut off before the first look at it ("link/" makes the file system
//     follow a link to a directory, and the target's contents were deleted);
//   - a directory is first simply removed, and listed only if that fails (an empty directory without read permission
//     can be removed but not listed);
//   - an entry that cannot be removed does not end the walk: the loop over the entries has no way out but its end,
//     and the first error is reported afterwards (os "removes everything it can").
func checkRemoveAllLikeOs(c *Ctx, rule string, fn *ssa.Function, isPath func(ssa.Value) bool) {
	p := c.P
	pathP := fn.Params[1]
	// (1) the first look
	var probe *ssa.Call
	eachInstr(fn, func(in ssa.Instruction) {
		if call, ok := in.(*ssa.Call); ok && (calleeName(&call.Call) == "Lstat" || calleeName(&call.Call) == "Stat") && probe == nil {
			probe = call
		}
	})
	if probe != nil {
		arg := probe.Call.Args[len(probe.Call.Args)-1]
		trimmed, trimmedOnce := false, false
		if arg != ssa.Value(pathP) && isPath(arg) {
			// some edge of it is a slice of the parameter that drops its last byte, taken where that byte is '/'
			for _, l := range leavesOfIface(arg) {
				if sl, ok := l.(*ssa.Slice); ok && sl.High != nil {
					for cv, truth := range edgeConds(sl.Block(), nil) {
						if bo, ok := cv.(*ssa.BinOp); ok && bo.Op == token.EQL && truth {
							if k, ok := constInt(bo.Y); ok && k == '/' {
								trimmed = true
								// every trailing slash, not just one: the cut is made in a loop
								if innermostLoop(loopsOf(fn), sl.Block()) == nil {
									trimmedOnce = true
								}
							}
						}
					}
				}
			}
		}
		for _, l := range leavesOf(arg) {
			if l.Kind == leafCallResult && callIs(l.Call, "strings.TrimRight") {
				trimmed = true
			}
			if l.Kind == leafCallResult && callIs(l.Call, "strings.TrimSuffix") {
				trimmed, trimmedOnce = true, true
			}
		}
		if trimmed {
			c.check(!trimmedOnce, rule, "RemoveAll cuts off every trailing slash", p.Pos(probe.Pos()), "the cut is repeated while the name ends in a slash",
				"only one trailing slash is cut off: for \"link//\" the name still ends in a slash, the file system follows the link, the target directory is emptied and the call then fails (os.RemoveAll removes only the link)")
		}
		c.check(trimmed, rule, "RemoveAll works on the name (trailing slashes cut off)", p.Pos(probe.Pos()), "path without trailing slashes",
			"RemoveAll looks at path as given: for \"link/\", a symlink to a directory named with a trailing slash, the file system follows the link, the target directory is emptied and the call then fails (os.RemoveAll removes only the link)")
	}
	// (2) simple removal before listing
	var list *ssa.Call
	eachInstr(fn, func(in ssa.Instruction) {
		if call, ok := in.(*ssa.Call); ok && calleeName(&call.Call) == "ReadDir" {
			list = call
		}
	})
	if list != nil {
		first := false
		eachInstr(fn, func(in ssa.Instruction) {
			if call, ok := in.(*ssa.Call); ok && (calleeName(&call.Call) == "RemoveDirectory" || calleeName(&call.Call) == "Remove") && isPath(call.Call.Args[len(call.Call.Args)-1]) && dominates(call, list) {
				first = true
			}
		})
		c.check(first, rule, "RemoveAll tries to remove a directory before it lists it", p.Pos(list.Pos()), "RemoveDirectory(path), ReadDir only if that fails",
			"RemoveAll lists every directory before removing it: an empty directory without read permission makes it fail with permission denied where os.RemoveAll removes it")
	}
	// (3) the walk goes on after a failure
	for _, l := range loopsOf(fn) {
		walks := false
		for b := range l.blocks {
			for _, in := range b.Instrs {
				if cc := callOf(in); cc != nil && (calleeName(cc) == "RemoveAll" || calleeName(cc) == "Remove") {
					walks = true
				}
			}
		}
		if !walks {
			continue
		}
		leaves := loopEarlyExit(l)
		c.check(!leaves, rule, "RemoveAll removes everything it can", p.Pos(l.head.Instrs[0].Pos()), "no return inside the loop over the entries; the first error is reported after it",
			"RemoveAll returns from inside the loop over the entries: the first entry that cannot be removed ends the walk and the rest of the tree is left (os.RemoveAll removes everything it can and reports the first error)")
	}
}

// checkEffectErrorsReachTheReply (C05.R13): "behaves like package os" includes failing when os fails.  In the os-backed
// server (handlePacket, the respond methods and the Server helpers they call) the error result of every call that
// changes the file system goes into the reply: it reaches the error argument of a statusFromError call of the same
// function, or the function returns it (and its caller is held to the same).  An error that only reaches a comparison
// or a log line is swallowed: the client is told OK where os reports a failure.
func checkEffectErrorsReachTheReply(c *Ctx, rule string) {
	p := c.P
	sfe := p.Func("statusFromError")
	if sfe == nil {
		c.missing(rule, "statusFromError")
		return
	}
	n := 0
	ord := map[string]int{}
	viaLiteral := map[*ssa.Function]bool{}
	for _, fn := range p.LibFuncs() {
		o := outermost(fn)
		if o.Pkg != p.Sftp {
			continue
		}
		isOS := fnName(o) == "handlePacket" || (o.Signature.Recv() != nil && typeName(o.Signature.Recv().Type()) == "Server") ||
			(o.Name() == "respond" && o.Signature.Params().Len() == 1 && typeName(o.Signature.Params().At(0).Type()) == "Server")
		if !isOS {
			continue
		}
		for _, sk := range sinksIn(fn, nil) {
			if sk.Eff != effMutate && sk.Eff != effOpen {
				continue
			}
			call, ok := sk.In.(*ssa.Call)
			if !ok {
				continue // deferred or spawned: no result to report
			}
			res := call.Call.Signature().Results()
			if res.Len() == 0 || !isErrorType(res.At(res.Len()-1).Type()) {
				continue
			}
			// Close of a file that is being given up (the sweep, a failed open) has nobody to report to
			if strings.HasSuffix(sk.ID, ".Close") {
				continue
			}
			n++
			k := fnName(fn) + ": error of " + sk.ID
			ord[k]++
			key := k
			if ord[k] > 1 {
				key = fmt.Sprintf("%s #%d", k, ord[k])
			}
			reaches := false
			fromThis := func(v ssa.Value) bool {
				for _, l := range leavesOf(v) {
					if l.Kind == leafCallResult && l.CallIn == ssa.Instruction(call) {
						return true
					}
				}
				return false
			}
			family := append([]*ssa.Function{o}, allAnon(o)...)
			for _, f := range family {
				eachInstr(f, func(in ssa.Instruction) {
					if cc := callOf(in); cc != nil && cc.StaticCallee() == sfe && len(cc.Args) == 2 && fromThis(cc.Args[1]) {
						reaches = true
					}
					if r, ok := in.(*ssa.Return); ok && f == fn {
						for _, x := range r.Results {
							if isErrorType(x.Type()) && fromThis(x) {
								reaches = true
							}
						}
					}
				})
			}
			c.check(reaches, rule, key, p.Pos(call.Pos()), "reaches statusFromError (or is returned)",
				"the error of "+sk.ID+" does not reach the reply: when the operation fails the client is still answered as if it had succeeded")
			if reaches && fn.Parent() != nil {
				viaLiteral[o] = true // a function literal hands the error to whoever calls it
			}
		}
	}
	// where a literal returns the error of an effect, the calls through function values in that function are the next
	// hop: their error result is held to the same
	for o := range viaLiteral {
		family := append([]*ssa.Function{o}, allAnon(o)...)
		for _, fn := range family {
			eachInstr(fn, func(in ssa.Instruction) {
				call, ok := in.(*ssa.Call)
				if !ok || call.Call.IsInvoke() || call.Call.StaticCallee() != nil || builtinName(&call.Call) != "" {
					return
				}
				res := call.Call.Signature().Results()
				if res.Len() == 0 || !isErrorType(res.At(res.Len()-1).Type()) {
					return
				}
				n++
				k := fnName(fn) + ": error of a step called through a function value"
				ord[k]++
				key := k
				if ord[k] > 1 {
					key = fmt.Sprintf("%s #%d", k, ord[k])
				}
				reaches := false
				fromThis := func(v ssa.Value) bool {
					for _, l := range leavesOf(v) {
						if l.Kind == leafCallResult && l.CallIn == ssa.Instruction(call) {
							return true
						}
					}
					return false
				}
				for _, f := range family {
					eachInstr(f, func(x ssa.Instruction) {
						if cc := callOf(x); cc != nil && cc.StaticCallee() == sfe && len(cc.Args) == 2 && fromThis(cc.Args[1]) {
							reaches = true
						}
						if r, ok := x.(*ssa.Return); ok && f == fn && fn.Parent() != nil {
							for _, y := range r.Results {
								if isErrorType(y.Type()) && fromThis(y) {
									reaches = true
								}
							}
						}
					})
				}
				c.check(reaches, rule, key, p.Pos(call.Pos()), "reaches statusFromError",
					"the error of a step that changes the file system (called through a function value) does not reach the reply: when the operation fails the client is still answered as if it had succeeded")
			})
		}
	}
	c.check(n >= 12, rule, "mutating os calls with an error result", "?", fmt.Sprintf("%d calls", n), fmt.Sprintf("only %d calls found", n))
}

func allAnon(fn *ssa.Function) []*ssa.Function {
	var out []*ssa.Function
	for _, a := range fn.AnonFuncs {
		out = append(out, a)
		out = append(out, allAnon(a)...)
	}
	return out
}

// checkStatvfsFromNamesakes (C05.R14): the statvfs reply is the kernel's statfs, field for field.  In every platform's
// statvfsFromStatfst the counters that have a namesake in syscall.Statfs_t are copied from it: Bsize, Blocks, Bfree,
// Bavail, Files, Ffree (Frsize may fall back on Bsize, Favail on Ffree; Fsid, Flag and Namemax differ per platform and
// are not judged).  Bavail taken from Bfree overstates the space an unprivileged user may use.
func checkStatvfsFromNamesakes(c *Ctx, rule string) {
	p := c.P
	fn := p.Func("statvfsFromStatfst")
	if fn == nil {
		// platforms without statvfs (windows, plan9: the stub answers op-unsupported)
		c.okT(rule, "statvfs fields come from their namesakes", "?", "no statvfsFromStatfst in this configuration")
		return
	}
	allowed := map[string][]string{
		"Bsize": {"Bsize"}, "Blocks": {"Blocks"}, "Bfree": {"Bfree"}, "Bavail": {"Bavail"}, "Files": {"Files"}, "Ffree": {"Ffree"},
		"Frsize": {"Frsize", "Bsize"}, "Favail": {"Ffree", "Favail"},
	}
	n := 0
	for _, lit := range literalsOf(fn, "StatVFS") {
		for dst, srcs := range allowed {
			v := litField(lit, dst)
			if v == nil {
				c.bad(rule, "StatVFS."+dst+" is filled", p.Pos(lit.Pos()), "the statvfs reply leaves "+dst+" at zero")
				continue
			}
			n++
			got := "?"
			for _, l := range leavesOf(v) {
				if l.Kind == leafFieldLoad {
					got = l.Field
				}
			}
			ok := false
			for _, s := range srcs {
				if got == s {
					ok = true
				}
			}
			c.check(ok, rule, "StatVFS."+dst+" comes from its namesake", p.Pos(lit.Pos()), "← Statfs_t."+got, fmt.Sprintf("StatVFS.%s is taken from Statfs_t.%s: the client's StatVFS reports another quantity than the file system's statfs", dst, got))
		}
	}
	c.check(n >= 8, rule, "statvfs fields examined", p.Pos(fn.Pos()), fmt.Sprintf("%d fields", n), fmt.Sprintf("only %d fields of the StatVFS literal found", n))
}

// guardOf: the nearest branch that decides whether in's block is entered — the If at the end of a dominator of
// which exactly one successor dominates the block — and the side taken.
func guardOf(in ssa.Instruction) (*ssa.If, bool) {
	b := in.Block()
	for cur := b; cur != nil; cur = cur.Idom() {
		id := cur.Idom()
		if id == nil {
			return nil, false
		}
		iff, ok := id.Instrs[len(id.Instrs)-1].(*ssa.If)
		if !ok || len(id.Succs) != 2 || id.Succs[0] == id.Succs[1] {
			continue
		}
		t, f := id.Succs[0], id.Succs[1]
		td := (t == cur || t.Dominates(cur)) && len(t.Preds) == 1
		fd := (f == cur || f.Dominates(cur)) && len(f.Preds) == 1
		if td != fd {
			return iff, td
		}
	}
	return nil, false
}

// checkPortsOfOsFollowTheOriginal (C05.R17): three places where the client carries a port of a standard-library
// routine and a boundary decides what it does —
//   - MkdirAll creates the parent path[0:j-1] whenever that is not empty (os.MkdirAll: `if j > 1`): where the
//     recursion is skipped the prover must find the parent's length <= 0;
//   - Glob expands the directory part recursively exactly when it contains metacharacters and asks Lstat about the
//     pattern itself exactly when that contains none (filepath.Glob);
//   - cleanGlobPath turns the empty directory part into "." (filepath.cleanGlobPath).
func checkPortsOfOsFollowTheOriginal(c *Ctx, rule string) {
	p := c.P
	// ---- MkdirAll ----
	if fn := p.Func("(*Client).MkdirAll"); fn == nil {
		c.missing(rule, "(*Client).MkdirAll")
	} else {
		w := newZWorld(p)
		z := w.get(fn)
		n := 0
		eachInstr(fn, func(in ssa.Instruction) {
			cc := callOf(in)
			if cc == nil || cc.StaticCallee() != fn {
				return
			}
			args := argsOf(cc)
			if len(args) == 0 {
				return
			}
			sl, ok := args[len(args)-1].(*ssa.Slice)
			if !ok || sl.High == nil {
				return
			}
			iff, truth := guardOf(in)
			if iff == nil {
				return
			}
			n++
			h := z.term(sl.High)
			if sl.Low != nil {
				h = h.plus(z.term(sl.Low), -1)
			}
			skipped := z.condFacts(iff.Cond, !truth)
			c.check(entails(skipped, leq(h, linConst(0), 0)), rule, "MkdirAll creates every non-empty parent", p.Pos(in.Pos()), "recursion skipped only when the parent path is empty",
				"the test that guards the recursive call lets a non-empty parent path go uncreated (os.MkdirAll: `if j > 1`): for a relative path whose first element is one character long the Mkdir of the full path fails with no-such-file")
		})
		c.okT(rule, "MkdirAll recursions on a prefix examined", "?", fmt.Sprintf("%d", n))
	}
	// ---- Glob ----
	if fn := p.Func("(*Client).Glob"); fn == nil {
		c.missing(rule, "(*Client).Glob")
	} else {
		metaSide := func(at ssa.Instruction, arg ssa.Value) (found, meta bool) {
			// the hasMeta(arg) test that decides whether `at` is reached
			eachInstr(fn, func(in ssa.Instruction) {
				call, ok := in.(*ssa.Call)
				if !ok || calleeName(&call.Call) != "hasMeta" || len(call.Call.Args) != 1 || call.Call.Args[0] != arg {
					return
				}
				for _, r := range *call.Referrers() {
					var iff *ssa.If
					neg := false
					switch x := r.(type) {
					case *ssa.If:
						iff = x
					case *ssa.UnOp:
						if x.Op == token.NOT {
							for _, r2 := range *x.Referrers() {
								if i2, ok := r2.(*ssa.If); ok {
									iff, neg = i2, true
								}
							}
						}
					}
					if iff == nil || len(iff.Block().Succs) != 2 {
						continue
					}
					yes, no := iff.Block().Succs[0], iff.Block().Succs[1]
					if neg {
						yes, no = no, yes
					}
					b := at.Block()
					onYes := len(yes.Preds) == 1 && (yes == b || yes.Dominates(b))
					onNo := len(no.Preds) == 1 && (no == b || no.Dominates(b))
					if onYes != onNo {
						found, meta = true, onYes
					}
				}
			})
			return
		}
		n := 0
		eachInstr(fn, func(in ssa.Instruction) {
			cc := callOf(in)
			if cc == nil || cc.StaticCallee() == nil {
				return
			}
			args := argsOf(cc)
			if len(args) != 1 {
				return
			}
			switch {
			case cc.StaticCallee() == fn:
				found, meta := metaSide(in, args[0])
				if !found {
					return
				}
				n++
				c.check(meta, rule, "Glob expands the directory part recursively when it has metacharacters", p.Pos(in.Pos()), "Glob(dir) on the side where hasMeta(dir)",
					"the recursive expansion is on the side where the directory part has no metacharacters: a pattern like */f* matches nothing (filepath.Glob: `if !hasMeta(dir) { return glob(dir, file, nil) }`)")
			case fnName(cc.StaticCallee()) == "(*Client).Lstat":
				found, meta := metaSide(in, args[0])
				if !found {
					return
				}
				n++
				c.check(!meta, rule, "Glob asks Lstat about a pattern without metacharacters", p.Pos(in.Pos()), "Lstat(pattern) on the side where !hasMeta(pattern)",
					"the literal-name shortcut is taken for patterns that do have metacharacters: they are looked up as names and nothing is expanded")
			}
		})
		c.okT(rule, "Glob branches on hasMeta examined", "?", fmt.Sprintf("%d", n))
	}
	// ---- cleanGlobPath ----
	if fn := p.Func("cleanGlobPath"); fn != nil && len(fn.Params) == 1 {
		n := 0
		eachInstr(fn, func(in ssa.Instruction) {
			bo, ok := in.(*ssa.BinOp)
			if !ok || bo.Op != token.EQL {
				return
			}
			var k ssa.Value
			switch {
			case bo.X == ssa.Value(fn.Params[0]):
				k = bo.Y
			case bo.Y == ssa.Value(fn.Params[0]):
				k = bo.X
			}
			if s, ok := constString(k); !ok || s != "" {
				return
			}
			for _, r := range *bo.Referrers() {
				iff, ok := r.(*ssa.If)
				if !ok || len(iff.Block().Succs) != 2 {
					continue
				}
				side := iff.Block().Succs[0]
				ret, ok := side.Instrs[len(side.Instrs)-1].(*ssa.Return)
				if !ok || len(ret.Results) != 1 || len(side.Preds) != 1 {
					continue
				}
				n++
				s, isK := constString(ret.Results[0])
				c.check(isK && s == ".", rule, "cleanGlobPath: no directory part means \".\"", p.Pos(ret.Pos()), "\"\" → \".\"",
					"the empty directory part of a pattern is not turned into \".\": a pattern without a slash is expanded in the directory \"\" — which a server without a working directory does not have — and matches nothing (filepath.cleanGlobPath returns \".\")")
			}
		})
		c.okT(rule, "cleanGlobPath empty case examined", "?", fmt.Sprintf("%d", n))
	}
}
