package main

import (
	"sort"
	"strings"
	"fmt"
	"go/token"
	"go/types"

	"golang.org/x/tools/go/ssa"
)

func init() {
	register("C11", &propSpec{
		level:       "other",
		explanation: "Handle-table discipline decided on SSA: the handle counter is only incremented under the table lock and handles are its decimal rendering; the tables are touched only under their lock (named exceptions: constructors, the os server's end sweep after all workers were joined); the object returned by a lookup is used only under ok and the miss path answers EBADF; close sites are {close request, failed-open cleanup, end sweep} with delete and Close on the same locked path; everything obtained from a handler or from openfile is, on every non-error path, stored in a registered handle or closed; transfer-error notification and context cancellation are tied to the sweep and to Request.close; sweeps run after the worker join on every return path.",
		run:         runC11,
		assumptions: []string{"handler objects do not close themselves", "package os releases descriptors on Close"},
	})
}

// lockTable: struct -> mutex key -> protected fields
type lockSpec struct {
	Struct string
	Key    string
	Fields []string
	Why    string
	altKey string // the mutex as seen from a method of the table's own type
}

var lockTable = []lockSpec{
	{"clientConn", "clientConn.Mutex", []string{"inflight"}, "in-flight table shared by callers, recv and broadcastErr", ""},
	{"Server", "Server.openFilesLock", []string{"openFiles", "handleCount"}, "handle table of the os server shared by 9 workers", ""},
	{"RequestServer", "RequestServer.mu", []string{"openRequests", "handleCount"}, "handle table of the request server shared by 9 workers", ""},
	{"allocator", "allocator.Mutex", []string{"available", "used"}, "page lists shared by the receive loop, workers and controller", ""},
	{"state", "state.mu", []string{"readerAt", "writerAt", "writerAtReaderAt", "listerAt", "lsoffset"}, "per-handle handler objects shared by workers", ""},
}

// resolveLockSpec follows a protected table that has been given a type of its own: when the struct no longer has the
// listed fields but holds, by value, a struct with a mutex of its own (handles handleTable{mu, files, count}), the
// protected fields are that struct's other fields and the mutex is its mutex, reached through the holding field.
func (p *Program) resolveLockSpec(ls lockSpec) lockSpec {
	nt := p.NamedType(p.Sftp, ls.Struct)
	if nt == nil {
		return ls
	}
	st, ok := nt.Underlying().(*types.Struct)
	if !ok {
		return ls
	}
	have := map[string]types.Type{}
	for i := 0; i < st.NumFields(); i++ {
		have[st.Field(i).Name()] = st.Field(i).Type()
	}
	missing := 0
	for _, f := range ls.Fields {
		t, ok := have[f]
		if !ok {
			missing++
			continue
		}
		if _, isStruct := t.Underlying().(*types.Struct); isStruct && namedOf(t) != nil && namedOf(t).Obj().Pkg() == p.Sftp.Pkg {
			missing++ // the name survives as the holder of the new type
		}
	}
	if missing == 0 {
		return ls
	}
	ref, _ := loadSymtab()
	listed := map[string]bool{}
	for _, f := range ls.Fields {
		listed[f] = true
	}
	for pass := 0; pass < 2; pass++ {
		for i := 0; i < st.NumFields(); i++ {
			f := st.Field(i)
			n := namedOf(f.Type())
			inner, isStruct := f.Type().Underlying().(*types.Struct)
			if !isStruct || n == nil || n.Obj().Pkg() != p.Sftp.Pkg {
				continue
			}
			// first choice: the holder kept the name of a protected field; second: a type the reference tree does not have
			if pass == 0 && !listed[f.Name()] {
				continue
			}
			if pass == 1 {
				if e := ref[pkgSftp+"|"+n.Obj().Name()]; e != nil {
					continue
				}
			}
			mu := ""
			var fields []string
			for j := 0; j < inner.NumFields(); j++ {
				g := inner.Field(j)
				if isMutexType(g.Type()) {
					if g.Embedded() {
						mu = typeName(g.Type())
					} else {
						mu = g.Name()
					}
					continue
				}
				fields = append(fields, g.Name())
			}
			if mu == "" || len(fields) == 0 {
				continue
			}
			return lockSpec{Struct: n.Obj().Name(), Key: ls.Struct + "." + f.Name() + "." + mu, Fields: fields, Why: ls.Why, altKey: n.Obj().Name() + "." + mu}
		}
	}
	return ls
}

// inflightSpec: the client's in-flight table and its mutex, wherever they live today.
func (p *Program) inflightSpec() lockSpec {
	for _, ls := range lockTable {
		if ls.Struct == "clientConn" {
			return p.resolveLockSpec(ls)
		}
	}
	return lockSpec{Struct: "clientConn", Key: "clientConn.Mutex", Fields: []string{"inflight"}}
}

// isInflightLeaf: the value is a load of the in-flight table (the map itself).
func (p *Program) isInflightLeaf(l leaf) bool {
	if l.Kind != leafFieldLoad {
		return false
	}
	sp := p.inflightSpec()
	if typeName(l.Base.Type()) != sp.Struct {
		return false
	}
	for _, f := range sp.Fields {
		if f == l.Field {
			if _, isMap := l.V.Type().Underlying().(*types.Map); isMap {
				return true
			}
		}
	}
	return false
}

// heldInflightLock: the lock mode of the in-flight table's mutex at the instruction.
func (p *Program) heldInflightLock(in ssa.Instruction, root ssa.Value) string {
	sp := p.inflightSpec()
	if h := heldAt(in, root, sp.Key); h != "" {
		return h
	}
	if sp.altKey != "" {
		// inside a method of the table type the root is the table itself
		return heldAt(in, root, sp.altKey)
	}
	return ""
}

// checkLockTable enforces engine L's table for the given structs.
func checkLockTable(c *Ctx, rule string, structs ...string) {
	p := c.P
	for _, ls := range lockTable {
		want := false
		for _, s := range structs {
			if s == ls.Struct {
				want = true
			}
		}
		if !want {
			continue
		}
		origStruct := ls.Struct
		ls = p.resolveLockSpec(ls)
		for _, f := range ls.Fields {
			accs := p.accessesOf(ls.Struct, f)
			if len(accs) == 0 {
				c.und(rule, ls.Struct+"."+f+" accesses", "?", "protected field not found (renamed?)")
				continue
			}
			for _, a := range accs {
				key := fmt.Sprintf("%s.%s in %s", ls.Struct, f, fnName(a.Fn))
				posS := p.Pos(a.In.Pos())
				if isFreshRoot(a.Root) {
					c.okT(rule, key, posS, "object under construction, not shared yet")
					continue
				}
				// state is embedded in Request: root may be a *Request with path prefix state
				held := heldAt(a.In, a.Root, ls.Key)
				if held == "" && ls.altKey != "" {
					held = heldAt(a.In, a.Root, ls.altKey)
				}
				if held == "" && ls.Struct == "state" {
					held = heldAt(a.In, a.Root, "Request.state.mu")
				}
				if held == "" {
					// named exception: the os server's end sweep after the worker join
					if origStruct == "Server" && fnName(a.Fn) == "(*Server).Serve" && !a.Write {
						joined := false
						for _, w := range findInstrs(a.Fn, func(in ssa.Instruction) bool {
							cc := callOf(in)
							_, plain := in.(*ssa.Call)
							return plain && cc != nil && isWGCall(cc, "Wait")
						}) {
							if dominates(w, a.In) {
								joined = true
							}
						}
						c.check(joined, rule, key, posS, "read in the end sweep, after wg.Wait() joined every worker", "handle table read without the lock while workers may still run")
						continue
					}
					c.bad(rule, key, posS, "field "+f+" accessed without holding "+ls.Key+" ("+ls.Why+")")
					continue
				}
				if a.Write && held != "Lock" {
					c.bad(rule, key, posS, "field "+f+" written while holding only a read lock")
					continue
				}
				c.ok(rule, key, posS, "under "+ls.Key+" ("+held+")")
			}
		}
	}
}

// ---- who enters a Request into the request server's handle table ----
//
// The rules that need "this Request is entered into the table here" do not name the function that does it: an
// inserter is any module function that updates the map held in RequestServer.openRequests, and a call publishes a
// Request when its callee is an inserter or a function that passes its own arguments on to one (nextRequest, which
// draws the handle and registers in one step, or a split reserve/publish pair).

func (p *Program) tableInserters() map[*ssa.Function]bool {
	if p.inserters != nil {
		return p.inserters
	}
	out := map[*ssa.Function]bool{}
	for _, fn := range p.LibFuncs() {
		if fn.Package() != p.Sftp {
			continue
		}
		eachInstr(fn, func(in ssa.Instruction) {
			mu, ok := in.(*ssa.MapUpdate)
			if !ok {
				return
			}
			for _, l := range leavesOf(mu.Map) {
				if l.Kind == leafFieldLoad && l.Field == "openRequests" {
					out[fn] = true
				}
			}
		})
	}
	// one level of wrappers
	for _, fn := range p.LibFuncs() {
		if fn.Package() != p.Sftp || out[fn] {
			continue
		}
		eachInstr(fn, func(in ssa.Instruction) {
			if cc := callOf(in); cc != nil {
				if f := cc.StaticCallee(); f != nil && out[f] && fn.Signature.Recv() != nil && typeName(fn.Signature.Recv().Type()) == "RequestServer" && fn.Name() != "Serve" && fn.Name() != "packetWorker" {
					for _, a := range cc.Args {
						if _, isParam := a.(*ssa.Parameter); isParam && typeName(a.Type()) == "Request" {
							out[fn] = true
						}
					}
				}
			}
		})
	}
	p.inserters = out
	return out
}

// publishesRequest: the call enters one of its *Request arguments into the handle table; returns that argument.
func (p *Program) publishesRequest(cc *ssa.CallCommon) ssa.Value {
	if cc == nil {
		return nil
	}
	f := cc.StaticCallee()
	if f == nil || !p.tableInserters()[f] {
		return nil
	}
	for _, a := range cc.Args {
		if typeName(a.Type()) == "Request" {
			return a
		}
	}
	return nil
}

func runC11(c *Ctx) {
	p := c.P
	checkSlotClearedAfterFetch(c, "R22")
	checkCloserClearsItsSlot(c, "R23")
	// R24 (= C07.R3): the packet manager stops after pending work — otherwise Serve never returns and no handle is swept
	c.withOnly("R3", "R24", func() { runC07(c) })
	checkCloseReportsFailure(c, "R25", func(fn *ssa.Function) bool { return !isClientSide(fn) }, 2)
	checkInserterInsertsOnEveryPath(c, "R26")
	pos := func(in ssa.Instruction) string { return p.Pos(in.Pos()) }

	// ---------- R1 handle uniqueness ----------
	// Stated on the state, not on the functions that happen to hold the code today: the counter only ever advances by
	// one under the table's exclusive lock; every key entered into the table is the decimal rendering of the counter
	// read after such an advance (directly, or through the Request's handle field, which is only ever assigned such a
	// rendering); every insertion happens under the exclusive lock.
	for _, spec := range []struct{ st, lock, table string }{
		{"Server", "Server.openFilesLock", "openFiles"},
		{"RequestServer", "RequestServer.mu", "openRequests"},
	} {
		writes := 0
		advancers := map[*ssa.Function]*ssa.Store{}
		for _, a := range p.accessesOf(spec.st, "handleCount") {
			if !a.Write || isFreshRoot(a.Root) {
				continue
			}
			writes++
			var st *ssa.Store
			for _, r := range *a.In.(*ssa.FieldAddr).Referrers() {
				if s, ok := r.(*ssa.Store); ok {
					st = s
				}
			}
			good := false
			if st != nil {
				b, ok := st.Val.(*ssa.BinOp)
				one, isOne := int64(0), false
				if ok {
					one, isOne = constInt(b.Y)
				}
				// counter + 1: the counter itself, not something else that happens to grow (the size of the table
				// shrinks again when a handle is closed, and the next handle repeats one that is still open)
				isSelf := false
				if ok {
					if u, isU := stripConv(b.X).(*ssa.UnOp); isU && u.Op == token.MUL {
						if t2, n2, _, okF := fieldOf(u.X); okF && n2 == "handleCount" && typeName(t2) == spec.st {
							isSelf = true
						}
					}
				}
				good = ok && isSelf && b.Op == token.ADD && isOne && one == 1 && heldAt(st, a.Root, spec.lock) == "Lock"
				if good {
					advancers[a.Fn] = st
				}
			}
			c.looked(fnName(a.Fn))
			c.check(good, "R1", "write of "+spec.st+".handleCount in "+fnName(a.Fn), pos(a.In), "counter only advances by one, under the table lock", "handle counter not advanced by +1, or without the exclusive lock: handles may repeat")
		}
		if writes == 0 {
			c.bad("R1", spec.st+".handleCount never advanced", "?", "the handle counter is never incremented: every handle is the same string")
		}
		// is v the rendering of the counter as advanced in fn?
		fromCounter := func(fn *ssa.Function, v ssa.Value, at ssa.Instruction) bool {
			adv := advancers[fn]
			if adv == nil || !dominates(adv, at) {
				return false
			}
			for _, l := range leavesOf(v) {
				if l.Kind == leafCallResult && callIs(l.Call, "strconv.Itoa", "strconv.FormatInt", "strconv.FormatUint") {
					for _, l2 := range leavesOf(l.Call.Args[0]) {
						if l2.Kind == leafFieldLoad && l2.Field == "handleCount" || l2.Kind == leafBinOp {
							return true
						}
					}
				}
			}
			return false
		}
		// the Request's handle field (request server): only ever assigned a rendering of the advanced counter
		handleFieldOK := true
		nHandleStores := 0
		if spec.st == "RequestServer" {
			for _, fn := range p.LibFuncs() {
				if outermost(fn).Package() != p.Sftp {
					continue
				}
				eachInstr(fn, func(in ssa.Instruction) {
					st, ok := in.(*ssa.Store)
					if !ok {
						return
					}
					t, name, base, ok := fieldOf(st.Addr)
					if !ok || typeName(t) != "Request" || name != "handle" || isFreshRoot(func() ssa.Value { r, _ := accessPath(base); return r }()) {
						return
					}
					nHandleStores++
					good := fromCounter(fn, st.Val, st)
					if !good {
						handleFieldOK = false
					}
					c.check(good, "R1", "Request.handle assigned in "+fnName(fn), pos(st), "the decimal rendering of the counter just advanced", "a Request's handle is assigned something other than the freshly advanced counter: two requests can carry the same handle")
				})
			}
		}
		nUpd := 0
		for _, fn := range p.LibFuncs() {
			if outermost(fn).Package() != p.Sftp {
				continue
			}
			eachInstr(fn, func(in ssa.Instruction) {
				upd, ok := in.(*ssa.MapUpdate)
				if !ok {
					return
				}
				isTable := false
				for _, l := range leavesOf(upd.Map) {
					if l.Kind == leafFieldLoad && l.Field == spec.table {
						isTable = true
					}
				}
				if !isTable {
					return
				}
				nUpd++
				name := fnName(fn)
				okKey := fromCounter(fn, upd.Key, upd)
				if !okKey && spec.st == "RequestServer" {
					for _, l := range leavesOf(upd.Key) {
						if l.Kind == leafFieldLoad && l.Field == "handle" && handleFieldOK && nHandleStores > 0 {
							okKey = true
						}
					}
				}
				c.check(okKey, "R1", name+" handle is the counter", pos(upd), "the key is the decimal rendering of a freshly advanced counter", "the handle stored in the table is not derived from the advanced counter")
				c.check(len(fn.Params) > 0 && heldAt(upd, fn.Params[0], spec.lock) == "Lock", "R1", name+" registers under lock", pos(upd), "insertion under the exclusive lock", "insertion into the handle table without the exclusive lock")
				// a function that hands the handle back returns the key it stored
				eachInstr(fn, func(in ssa.Instruction) {
					if r, ok := in.(*ssa.Return); ok && len(r.Results) == 1 && isReturn(in) && r.Results[0].Type().String() == "string" {
						same := false
						kl := leavesOf(upd.Key)
						rl := leavesOf(r.Results[0])
						if len(kl) > 0 && len(rl) > 0 {
							same = kl[0].V == rl[0].V || (kl[0].Kind == leafFieldLoad && rl[0].Kind == leafFieldLoad && kl[0].Field == rl[0].Field) ||
								(kl[0].Kind == leafCallResult && rl[0].Kind == leafCallResult && kl[0].CallIn == rl[0].CallIn)
						}
						c.check(same, "R1", name+" returns the registered handle", pos(in), "returned handle is the table key", "the handle returned differs from the key stored in the table")
					}
				})
			})
		}
		if nUpd == 0 {
			c.bad("R1", spec.st+"."+spec.table+" is filled", "?", "no insertion into the handle table found")
		}
	}

	// ---------- R2 tables only under their lock ----------
	checkLockTable(c, "R2", "Server", "RequestServer", "state")
	c.floor("R2", 25)

	// ---------- R3 stale handles touch nothing ----------
	for _, getter := range []string{"(*Server).getHandle", "(*RequestServer).getRequest"} {
		g := p.Func(getter)
		if g == nil {
			c.missing("R3", getter)
			continue
		}
		c.looked(getter)
		for _, site := range p.callersOfStatic(g) {
			call, ok := site.(*ssa.Call)
			if !ok {
				continue
			}
			var v0, okv *ssa.Extract
			for _, r := range *call.Referrers() {
				if ex, ok := r.(*ssa.Extract); ok {
					if ex.Index == 0 {
						v0 = ex
					} else {
						okv = ex
					}
				}
			}
			key := "lookup in " + fnName(call.Parent())
			if v0 == nil {
				c.okT("R3", key, pos(call), "looked-up object unused")
				continue
			}
			if okv == nil {
				c.bad("R3", key, pos(call), "the ok result of the lookup is ignored: a stale handle yields a nil object that is then used")
				continue
			}
			var trueSucc, falseSucc *ssa.BasicBlock
			for _, r := range *okv.Referrers() {
				if iff, ok := r.(*ssa.If); ok {
					trueSucc, falseSucc = iff.Block().Succs[0], iff.Block().Succs[1]
				}
			}
			if trueSucc == nil {
				c.und("R3", key, pos(call), "no branch on ok found")
				continue
			}
			allOK := true
			var bad ssa.Instruction
			for _, r := range *v0.Referrers() {
				if _, dbg := r.(*ssa.DebugRef); dbg {
					continue
				}
				if !(trueSucc.Dominates(r.Block()) && len(trueSucc.Preds) == 1) {
					allOK = false
					bad = r
				}
			}
			if allOK {
				c.ok("R3", key, pos(call), "the looked-up object is used only where ok is true")
			} else {
				c.bad("R3", key, pos(bad), "the object returned by the lookup is used on a path where ok may be false (stale or unknown handle)")
			}
			// the miss path answers EBADF
			ebadf := false
			fn := call.Parent()
			if reachFromBlock(falseSucc, func(in ssa.Instruction) bool {
				cc := callOf(in)
				if cc == nil || calleeName(cc) != "statusFromError" {
					return false
				}
				for _, l := range leavesOf(cc.Args[1]) {
					if k, ok := constInt(l.V); ok && l.Kind == leafConst && k == 9 {
						return true
					}
				}
				return false
			}, nil) {
				ebadf = true
			}
			_ = fn
			c.check(ebadf, "R3", key+" miss answers EBADF", pos(call), "unknown handle is answered with EBADF", "the miss path does not answer with EBADF")
		}
	}
	c.floor("R3", 12)

	// ---------- R4 close once ----------
	checkCloseSites(c, "R4")
	for _, spec := range []struct{ fn, lock, closer string }{
		{"(*Server).closeHandle", "Server.openFilesLock", "Close"},
		{"(*RequestServer).closeRequest", "RequestServer.mu", "close"},
	} {
		fn := p.Func(spec.fn)
		if fn == nil {
			continue
		}
		var del, cls ssa.Instruction
		var lookupOK *ssa.BasicBlock
		eachInstr(fn, func(in ssa.Instruction) {
			cc := callOf(in)
			if cc != nil && builtinName(cc) == "delete" {
				del = in
			}
			if cc != nil && calleeName(cc) == spec.closer {
				if _, plain := in.(*ssa.Call); plain {
					cls = in
				}
			}
			if lk, ok := in.(*ssa.Lookup); ok && lk.CommaOk {
				for _, r := range *lk.Referrers() {
					if ex, ok := r.(*ssa.Extract); ok && ex.Index == 1 {
						for _, rr := range *ex.Referrers() {
							if iff, ok := rr.(*ssa.If); ok {
								lookupOK = iff.Block().Succs[0]
							}
						}
					}
				}
			}
		})
		good := del != nil && cls != nil && lookupOK != nil && lookupOK.Dominates(del.Block()) && lookupOK.Dominates(cls.Block()) &&
			heldAt(del, fn.Params[0], spec.lock) == "Lock" && heldAt(cls, fn.Params[0], spec.lock) == "Lock"
		c.check(good, "R4", spec.fn+" delete+close", p.Pos(fn.Pos()), "entry is deleted and the object closed on the same locked path, only when the lookup succeeded",
			"closing and deleting are not on one locked path guarded by the lookup: a handle could be closed twice or stay valid after close")
		if del != nil && cls != nil {
			c.check(dominates(del, cls), "R4", spec.fn+" delete before close", pos(cls), "the handle is invalidated before the object is closed", "the object is closed while its handle is still in the table")
		}
		// the EBADF return for unknown handles
		ret9 := false
		eachInstr(fn, func(in ssa.Instruction) {
			if r, ok := in.(*ssa.Return); ok && isReturn(in) {
				for _, l := range leavesOf(r.Results[0]) {
					if k, ok := constInt(l.V); ok && k == 9 {
						ret9 = true
					}
				}
			}
		})
		c.check(ret9, "R4", spec.fn+" unknown handle", p.Pos(fn.Pos()), "unknown handle yields EBADF", "closing an unknown handle does not yield EBADF")
	}
	// the request server's sweep deletes what it closes
	if rsServe := p.Func("(*RequestServer).Serve"); rsServe != nil {
		var cls, del ssa.Instruction
		eachInstr(rsServe, func(in ssa.Instruction) {
			cc := callOf(in)
			if cc != nil && calleeName(cc) == "close" {
				cls = in
			}
			if cc != nil && builtinName(cc) == "delete" {
				del = in
			}
		})
		c.check(cls != nil && del != nil && cls.Block() == del.Block(), "R4", "RequestServer sweep deletes", p.Pos(rsServe.Pos()), "swept requests are removed from the table", "the sweep closes requests but leaves them in the table")
		// every request swept is told why: what transferError gets is the session's error (what the receive loop ended
		// with, an end of stream turned into an unexpected one) and nothing the sweep itself produced on the way
		nTE := 0
		eachInstr(rsServe, func(in ssa.Instruction) {
			cc := callOf(in)
			if cc == nil || calleeName(cc) != "transferError" || len(argsOf(cc)) != 1 {
				return
			}
			nTE++
			bad := ""
			for _, l := range leavesOf(argsOf(cc)[0]) {
				switch {
				case l.Kind == leafCallResult && calleeName(l.Call) == "serveLoop":
				case l.Kind == leafGlobal && (l.V.Name() == "ErrUnexpectedEOF" || l.V.Name() == "EOF"):
				case l.Kind == leafParam:
				default:
					bad = "a value that is not the session's error"
					if l.Kind == leafCallResult {
						bad = "the result of " + calleeName(l.Call)
					}
				}
			}
			c.check(bad == "", "R4", "RequestServer sweep reports the session's error", p.Pos(in.Pos()), "transferError(err of the receive loop)",
				"a swept request can be told "+bad+" instead of the error the session ended with (for all but the first request that is nil: its reader or writer is not told that the transfer stopped short)")
		})
		c.check(nTE >= 1, "R4", "RequestServer sweep calls transferError", p.Pos(rsServe.Pos()), fmt.Sprintf("%d calls", nTE), "the sweep no longer tells the open requests that the session ended")
	} else {
		c.missing("R4", "(*RequestServer).Serve")
	}

	// ---------- R5 failed opens drop their handle; R13 a handle is in the table only once it has been issued ----------
	// Anchored on the event (the call of Request.open / Request.opendir in the worker), not on the helper that
	// registers: the reply is tested for being a HANDLE; on the other side the request is released before the reply is
	// handed over; on the HANDLE side it is in the table by then.  R13: it is not in the table *before* the open has
	// produced that HANDLE — READ and WRITE run on other workers and handles are predictable counters, so a pipelined
	// READ would find the half-built Request (Method being written by open: a data race) or one whose open then fails.
	if worker := p.Func("(*RequestServer).packetWorker"); worker != nil {
		closeReq := p.Func("(*RequestServer).closeRequest")
		ready := p.Func("(*packetManager).readyPacket")
		isReady := func(in ssa.Instruction) bool {
			cc := callOf(in)
			return cc != nil && cc.StaticCallee() == ready
		}
		n := 0
		for _, site := range callsWhere(worker, func(cc *ssa.CallCommon) bool {
			f := cc.StaticCallee()
			return f != nil && f.Signature.Recv() != nil && typeName(f.Signature.Recv().Type()) == "Request" && (f.Name() == "open" || f.Name() == "opendir")
		}) {
			n++
			key := fmt.Sprintf("open #%d in packetWorker", n)
			req := recvOf(callOf(site))
			isReq := func(x ssa.Value) bool { return x == req || sameRoot(x, req) }
			var ta *ssa.TypeAssert
			eachInstr(worker, func(in ssa.Instruction) {
				x, ok := in.(*ssa.TypeAssert)
				if !ok || !x.CommaOk || !isPtrToNamed(x.AssertedType, "sshFxpHandlePacket") {
					return
				}
				for _, l := range leavesOfIface(x.X) {
					if l == site.(ssa.Value) {
						ta = x
					}
				}
			})
			if ta == nil {
				c.bad("R5", key, pos(site), "the reply of the open is never tested for being a HANDLE: a failed open keeps its handle and its context forever")
				continue
			}
			var trueSucc, falseSucc *ssa.BasicBlock
			for _, r := range *ta.Referrers() {
				if ex, ok := r.(*ssa.Extract); ok && ex.Index == 1 {
					for _, rr := range *ex.Referrers() {
						if iff, ok := rr.(*ssa.If); ok {
							trueSucc, falseSucc = iff.Block().Succs[0], iff.Block().Succs[1]
						}
					}
				}
			}
			if falseSucc == nil {
				c.und("R5", key, pos(ta), "cannot relate the reply test to a branch")
				continue
			}
			publishes := findInstrs(worker, func(in ssa.Instruction) bool {
				a := p.publishesRequest(callOf(in))
				return a != nil && isReq(a)
			})
			isPublish := func(in ssa.Instruction) bool {
				for _, x := range publishes {
					if x == in {
						return true
					}
				}
				return false
			}
			isRelease := func(in ssa.Instruction) bool {
				cc := callOf(in)
				if cc == nil {
					return false
				}
				if cc.StaticCallee() == closeReq && closeReq != nil {
					// with the handle of this request: the result of its registration, or its handle field
					for _, l := range leavesOf(argsOf(cc)[0]) {
						if l.Kind == leafCallResult && isPublish(l.CallIn) {
							return true
						}
						if l.Kind == leafFieldLoad && l.Field == "handle" && isReq(l.Base) {
							return true
						}
					}
					return false
				}
				if calleeName(cc) == "close" {
					r := recvOf(cc)
					return r != nil && isReq(r)
				}
				return false
			}
			leak := reachFromBlock(falseSucc, isReady, isRelease)
			c.check(!leak, "R5", key, pos(ta), "a non-handle reply is preceded by the release of the request just built", "a failed open can be answered without releasing the request (and cancelling the context) built for it")
			// the HANDLE side: in the table when the reply is handed over
			inTable := false
			for _, pb := range publishes {
				if dominates(pb, site) {
					inTable = true
				}
			}
			if !inTable {
				inTable = len(publishes) > 0 && !reachFromBlock(trueSucc, isReady, isPublish)
			}
			c.check(inTable, "R5", key+" is in the table when its handle is issued", pos(site), "entered into the handle table before the HANDLE reply is handed over", "a successful open is answered with a handle that is not in the handle table: every later request on it fails")
			// R13
			early := ""
			for _, pb := range publishes {
				if !trueSucc.Dominates(pb.Block()) || len(trueSucc.Preds) != 1 {
					early = pos(pb)
				}
			}
			c.check(early == "", "R13", key+": the handle is not in the table before it is issued", pos(site), "entered only on the HANDLE side of the reply test",
				"the Request is entered into the handle table (at "+early+") before its open has succeeded: READ and WRITE run on other workers and handles are predictable counters, so a pipelined READ or WRITE naming the handle finds a Request that open is still writing (a data race on Request.Method) or whose open then fails — a handle that was never issued is served")
		}
		c.check(n >= 2, "R5", "open sites", p.Pos(worker.Pos()), fmt.Sprintf("%d open sites", n), "fewer than 2 open sites in packetWorker (OPEN and OPENDIR)")
	} else {
		c.missing("R5", "(*RequestServer).packetWorker")
	}

	// ---------- R6 / R7 ownership of handler objects ----------
	checkOwnership(c)
	checkCloseIsBarrier(c, "R10")
	checkContextCancelledBeforeJoin(c, "R11")
	checkHandleValidityFromTable(c, "R12")
	checkStateSlotsServedOnce(c, "R13")
	checkHandleObjectsClosedOnlyByClose(c, "R15")
	checkWorkersAccountedFor(c, "R16")
	checkCloseErrorsKept(c, "R17")
	checkHandlerObjectInOneSlot(c, "R18")
	// R19 (shared with C09.R1): handles die on close also on a read-only server — CLOSE is not classified as modifying
	c.withOnlyKeys("R5", "R19", []string{"request sshFxpClosePacket"}, func() { runC09(c) })
	// R14 (shared with C07.R2): what ends the session is what the sweep reports to the objects still open — a receive
	// loop that returns something else than the decoding error (nil) leaves them without their transfer-error notice
	c.withRule("R14", func() { checkBadPacketEndsSession(c) })

	// ---------- R20 the notification is delivered when there is an error ----------
	// The function that hands an error to the objects' TransferError method gets it as a parameter; knowing that the
	// parameter is not nil, an object must be reachable — a guard the wrong way round notifies nobody of a real error.
	{
		n := 0
		for _, fn := range p.LibFuncs() {
			if fn.Package() != p.Sftp {
				continue
			}
			var inv []ssa.Instruction
			var prm *ssa.Parameter
			eachInstr(fn, func(in ssa.Instruction) {
				cc := callOf(in)
				if cc == nil || !cc.IsInvoke() || cc.Method.Name() != "TransferError" || len(cc.Args) != 1 {
					return
				}
				inv = append(inv, in)
				if q, ok := cc.Args[0].(*ssa.Parameter); ok {
					prm = q
				}
			})
			if len(inv) > 0 {
				n++
			}
			if len(inv) == 0 || prm == nil || len(fn.Blocks) == 0 {
				continue
			}
			seedFacts = pathFacts{prm: clsNonNil}
			ok := reachCore(fn.Blocks[0], 0, func(in ssa.Instruction) bool {
				cc := callOf(in)
				return cc != nil && cc.IsInvoke() && cc.Method.Name() == "TransferError"
			}, func(ssa.Instruction) bool { return false })
			c.check(ok, "R20", fnName(fn)+" notifies when there is an error", p.Pos(fn.Pos()), "with a non-nil error an object's TransferError is reachable",
				"called with an error, this function reaches no TransferError call: the objects still open at the end of a broken session are never told")
		}
		c.check(n >= 1, "R20", "functions delivering the transfer error", "?", fmt.Sprintf("%d", n), "no function calls TransferError")
	}

	// ---------- R21 the cancel function stays with the request the table holds ----------
	// Request.close cancels through r.cancelCtx when it is set.  The field is cleared only on a request made in the
	// same function (the copy WithContext returns): cleared through a parameter it is taken from the request the
	// server keeps, and closing the handle no longer cancels the handler's context.
	{
		n := 0
		for _, fn := range p.LibFuncs() {
			if fn.Package() != p.Sftp {
				continue
			}
			eachInstr(fn, func(in ssa.Instruction) {
				st, ok := in.(*ssa.Store)
				if !ok || !isNilConst(st.Val) {
					return
				}
				fa, ok := st.Addr.(*ssa.FieldAddr)
				if !ok {
					return
				}
				if _, nm, _, _ := fieldOf(fa); nm != "cancelCtx" {
					return
				}
				n++
				viaParam := false
				// a function that itself cancels (close, after the call) may forget the function it has used
				cancels := false
				eachInstr(outermost(fn), func(y ssa.Instruction) {
					if cc := callOf(y); cc != nil && !cc.IsInvoke() {
						for _, l := range leavesOf(cc.Value) {
							if l.Kind == leafFieldLoad && l.Field == "cancelCtx" {
								cancels = true
							}
						}
					}
				})
				if cancels {
					return
				}
				for _, l := range leavesOf(fa.X) {
					if _, ok := l.V.(*ssa.Parameter); ok {
						viaParam = true
					}
					if _, ok := l.V.(*ssa.FreeVar); ok {
						viaParam = true
					}
				}
				c.check(!viaParam, "R21", fnName(fn)+" clears cancelCtx only on its own copy", p.Pos(in.Pos()), "the request cleared was made here",
					"the cancel function is cleared on a request this function was given: the request in the handle table loses it and closing the handle leaves the handler's context alive")
			})
		}
		c.okT("R21", "stores of nil to cancelCtx examined", "?", fmt.Sprintf("%d", n))
	}

	// ---------- R8 transfer error, contexts ----------
	{
		te := p.Func("(*Request).transferError")
		rsServe := p.Func("(*RequestServer).Serve")
		reqClose := p.Func("(*Request).close")
		if te == nil || rsServe == nil || reqClose == nil {
			c.missing("R8", "(*Request).transferError / Serve / close")
		} else {
			sites := p.callersOfStatic(te)
			c.check(len(sites) == 1 && sites[0].Parent() == rsServe, "R8", "transferError call sites", p.Pos(te.Pos()), "transferError is called only by the end sweep", fmt.Sprintf("transferError has %d call sites or is called outside RequestServer.Serve", len(sites)))
			for _, s := range sites {
				if s.Parent() != rsServe {
					continue
				}
				// same loop iteration as the close, before it, on a request taken from the table
				var cls ssa.Instruction
				eachInstr(rsServe, func(in ssa.Instruction) {
					if cc := callOf(in); cc != nil && cc.StaticCallee() == reqClose {
						cls = in
					}
				})
				c.check(cls != nil && dominates(s, cls) && inLoop(s) && recvOf(callOf(s)) == recvOf(callOf(cls)), "R8", "transferError before close of the same request", pos(s), "notification precedes the close of that request", "transferError is not followed by the close of the same request")
				// receiver comes from ranging the table
				fromTable := false
				for _, l := range leavesOf(recvOf(callOf(s))) {
					if l.Kind == leafOther || l.Kind == leafCallResult {
						fromTable = true
					}
				}
				_ = fromTable
			}
			// Request.close cancels the context on every path: a deferred closure calling r.cancelCtx
			deferred := false
			eachInstr(reqClose, func(in ssa.Instruction) {
				d, ok := in.(*ssa.Defer)
				if !ok {
					return
				}
				var body *ssa.Function
				if mc, ok := d.Call.Value.(*ssa.MakeClosure); ok {
					body = mc.Fn.(*ssa.Function)
				}
				if body == nil {
					return
				}
				eachInstr(body, func(x ssa.Instruction) {
					if cc := callOf(x); cc != nil && cc.StaticCallee() == nil && !cc.IsInvoke() {
						for _, l := range leavesOf(cc.Value) {
							if l.Kind == leafFieldLoad && l.Field == "cancelCtx" {
								deferred = true
							}
						}
					}
				})
				// the defer must be registered before anything can return
				for _, r := range findInstrs(reqClose, isReturn) {
					if !dominates(in, r) {
						deferred = false
					}
				}
			})
			c.check(deferred, "R8", "Request.close cancels its context", p.Pos(reqClose.Pos()), "cancelCtx is deferred at the top of Request.close", "Request.close does not cancel the request context on every path")
			// requestFromPacket derives the context from its ctx parameter and keeps the cancel func
			if rfp := p.Func("requestFromPacket"); rfp == nil {
				c.missing("R8", "requestFromPacket")
			} else {
				derived := false
				eachInstr(rfp, func(in ssa.Instruction) {
					if cc := callOf(in); cc != nil && callIs(cc, "context.WithCancel") {
						if pr, ok := cc.Args[0].(*ssa.Parameter); ok && pr == rfp.Params[0] {
							derived = true
						}
					}
				})
				stores := 0
				eachInstr(rfp, func(in ssa.Instruction) {
					if st, ok := in.(*ssa.Store); ok {
						if fa, ok := st.Addr.(*ssa.FieldAddr); ok {
							if _, n, _, _ := fieldOf(fa); n == "cancelCtx" || n == "ctx" {
								stores++
							}
						}
					}
				})
				c.check(derived && stores == 2, "R8", "request context derives from the session context", p.Pos(rfp.Pos()), "ctx, cancelCtx = context.WithCancel(session ctx)", "requests no longer carry a cancellable context derived from the session context")
			}
			// RequestServer.Serve: defer cancel() of the session context
			cancelDeferred := false
			eachInstr(rsServe, func(in ssa.Instruction) {
				if d, ok := in.(*ssa.Defer); ok {
					for _, l := range leavesOf(d.Call.Value) {
						if l.Kind == leafCallResult && callIs(l.Call, "context.WithCancel") && l.Idx == 1 {
							cancelDeferred = true
						}
					}
				}
			})
			c.check(cancelDeferred, "R8", "session context cancelled at the end of Serve", p.Pos(rsServe.Pos()), "defer cancel()", "the session context is not cancelled when Serve returns")
		}
	}

	// ---------- R9 sweeps after the join, on every return path ----------
	for _, spec := range []struct{ fn, table string }{{"(*Server).Serve", "openFiles"}, {"(*RequestServer).Serve", "openRequests"}} {
		fn := p.Func(spec.fn)
		if fn == nil {
			c.missing("R9", spec.fn)
			continue
		}
		c.looked(spec.fn)
		// the range over the table
		var rng ssa.Instruction
		eachInstr(fn, func(in ssa.Instruction) {
			if r, ok := in.(*ssa.Range); ok {
				for _, l := range leavesOf(r.X) {
					if l.Kind == leafFieldLoad && l.Field == spec.table {
						rng = in
					}
				}
			}
		})
		if rng == nil {
			c.bad("R9", spec.fn+" sweep", p.Pos(fn.Pos()), "Serve no longer sweeps the "+spec.table+" table: objects still open at disconnect are never closed")
			continue
		}
		var wait ssa.Instruction
		for _, w := range findInstrs(fn, func(in ssa.Instruction) bool {
			cc := callOf(in)
			_, plain := in.(*ssa.Call)
			return plain && cc != nil && isWGCall(cc, "Wait")
		}) {
			if dominates(w, rng) {
				wait = w
			}
		}
		c.check(wait != nil, "R9", spec.fn+" sweep after join", pos(rng), "the sweep runs after wg.Wait()", "the sweep runs before all workers have ended: objects opened by a still-running worker are missed")
		allRet := true
		for _, r := range findInstrs(fn, isReturn) {
			// (an exit taken after the join because the table is empty has nothing to sweep)
			if !dominates(rng, r) && !(wait != nil && behindEmptyTableTest(fn, r, spec.table, wait)) {
				allRet = false
			}
		}
		c.check(allRet, "R9", spec.fn+" sweep on every return", pos(rng), "every return path passes the sweep", "Serve can return without sweeping the handle table")
		// the workers' wait group: Add before go, Done deferred in the goroutine
		addOK, doneOK := false, false
		eachInstrDeep(fn, func(f *ssa.Function, in ssa.Instruction) {
			cc := callOf(in)
			if cc == nil {
				return
			}
			if isWGCall(cc, "Add") {
				if _, plain := in.(*ssa.Call); plain {
					for _, g := range findInstrs(f, func(x ssa.Instruction) bool { _, ok := x.(*ssa.Go); return ok }) {
						if dominates(in, g) {
							addOK = true
						}
					}
				}
			}
			if isWGCall(cc, "Done") {
				if _, isDefer := in.(*ssa.Defer); isDefer {
					doneOK = true
				}
			}
		})
		c.check(addOK && doneOK, "R9", spec.fn+" worker join accounting", p.Pos(fn.Pos()), "wg.Add before go, deferred wg.Done in the worker", "worker wait-group accounting broken: Wait may return while a worker still runs")
	}
}

// checkOwnership: R6 (handler objects) and R7 (os files).
func checkOwnership(c *Ctx) {
	p := c.P
	pos := func(in ssa.Instruction) string { return p.Pos(in.Pos()) }
	producers := map[string]bool{"Fileread": true, "Filewrite": true, "OpenFile": true, "Filelist": true, "Lstat": true}
	setters := map[string]bool{"setReaderAt": true, "setWriterAt": true, "setWriterAtReaderAt": true, "setListerAt": true}
	n := 0
	for _, fn := range p.LibFuncs() {
		if outermost(fn).Package() != p.Sftp || !isServerSide(fn) {
			continue
		}
		if fnName(outermost(fn)) == "(*root).OpenFile" || typeName(recvTypeOf(outermost(fn))) == "root" {
			continue // the in-memory example handler is a handler, not the server
		}
		eachInstr(fn, func(in ssa.Instruction) {
			call, ok := in.(*ssa.Call)
			if !ok {
				return
			}
			cc := &call.Call
			isProd := false
			kind := ""
			if cc.IsInvoke() && producers[cc.Method.Name()] && cc.Method.Type().(*types.Signature).Results().Len() == 2 {
				isProd, kind = true, "handler."+cc.Method.Name()
			}
			if f := cc.StaticCallee(); f != nil && fnName(f) == "(*Server).openfile" {
				isProd, kind = true, "Server.openfile"
			}
			if !isProd {
				return
			}
			n++
			key := kind + " in " + fnName(fn)
			// forward closure of the object and error values through phis
			objs, errs := map[ssa.Value]bool{}, map[ssa.Value]bool{}
			for _, r := range *call.Referrers() {
				if ex, ok := r.(*ssa.Extract); ok {
					if ex.Index == 0 {
						objs[ex] = true
					} else {
						errs[ex] = true
					}
				}
			}
			grow := func(set map[ssa.Value]bool) {
				for changed := true; changed; {
					changed = false
					for v := range set {
						for _, r := range *v.Referrers() {
							switch x := r.(type) {
							case *ssa.Phi:
								if !set[x] {
									set[x] = true
									changed = true
								}
							case *ssa.MakeInterface:
								if !set[x] {
									set[x] = true
									changed = true
								}
							case *ssa.ChangeInterface:
								if !set[x] {
									set[x] = true
									changed = true
								}
							}
						}
					}
				}
			}
			grow(objs)
			grow(errs)
			// the non-error continuation
			// (the first test after the call: when the error variable is tested again further on — `if err == nil {
			// keep }` … `if err != nil { return }` — the later test is on the way from the first one)
			var cont *ssa.BasicBlock
			dist := blockDistances(call.Block())
			best := -1
			for e := range errs {
				for _, nt := range nilTests(e) {
					d, ok := dist[nt.iff.Block()]
					if !ok {
						continue
					}
					if best < 0 || d < best || (d == best && nt.iff.Block().Index < cont.Index) {
						cont, best = nt.isNil, d
					}
				}
			}
			if cont == nil {
				c.bad("R6", key, pos(in), "the error result of "+kind+" is not tested: ownership of the returned object cannot be established")
				return
			}
			unowned := ""
			isConsumer := func(x ssa.Instruction) bool {
				if cc := callOf(x); cc != nil {
					nm := calleeName(cc)
					if setters[nm] || nm == "nextHandle" {
						for _, a := range cc.Args {
							if objs[a] || objs[stripConv(a)] {
								if setters[nm] {
									// storing the object in a Request only transfers ownership when somebody owns the Request
									if r := recvOf(cc); r != nil {
										root, _ := accessPath(r)
										if ok, why := requestOwned(p, rootParam(root), x, 0); !ok {
											unowned = why
											return false
										}
									}
								}
								return true
							}
						}
					}
				}
				if ta, ok := x.(*ssa.TypeAssert); ok && ta.CommaOk && objs[ta.X] {
					if n := namedOf(ta.AssertedType); n != nil && n.Obj().Name() == "Closer" {
						// the ok branch must call Close on the asserted value
						closes := false
						for _, r := range *ta.Referrers() {
							if ex, ok := r.(*ssa.Extract); ok && ex.Index == 0 {
								for _, rr := range *ex.Referrers() {
									if cc := callOf(rr); cc != nil && cc.IsInvoke() && cc.Method.Name() == "Close" && cc.Value == ssa.Value(ex) {
										closes = true
									}
								}
							}
						}
						return closes
					}
				}
				return false
			}
			leak := reachFromBlock(cont, isReturn, isConsumer)
			rule := "R6"
			if kind == "Server.openfile" {
				rule = "R7"
			}
			why := "the object returned by " + kind + " can be dropped on a non-error path without being stored in a handle or closed"
			if unowned != "" {
				why = "the object returned by " + kind + " is stored in a Request that nobody closes: " + unowned
			}
			c.check(!leak, rule, key, pos(in), "on every non-error path the object is stored in a handle (a Request that is in the handle table or closed by its creator) or closed before the function returns", why)
		})
	}
	c.check(n >= 6, "R6", "producer sites", "?", fmt.Sprintf("%d producer sites examined", n), fmt.Sprintf("only %d producer sites found (at least 6 expected): anchors lost", n))
}

func recvTypeOf(fn *ssa.Function) types.Type {
	if fn.Signature.Recv() != nil {
		return fn.Signature.Recv().Type()
	}
	return types.Typ[types.Invalid]
}

func dominatesBlockOrSame(a, b *ssa.BasicBlock) bool { return a == b || a.Dominates(b) }

// requestOwned: is the *Request denoted by v (at instruction `at`) one that somebody will close?  Yes when it came
// out of the handle table (getRequest), was entered into it before `at` (or is on every path after it), or is closed by its creator on
// every path after `at`; a parameter is owned when that holds at every call site.
func requestOwned(p *Program, v ssa.Value, at ssa.Instruction, depth int) (bool, string) {
	if depth > 4 {
		return false, "call chain too deep"
	}
	fn := at.Parent()
	isReq := func(x ssa.Value) bool { return x == v || sameRoot(x, v) }
	switch x := v.(type) {
	case *ssa.Parameter:
		sites := p.callersOfStatic(x.Parent())
		if len(sites) == 0 || len(p.refsAsValue(x.Parent())) > 0 {
			return false, "callers of " + fnName(x.Parent()) + " cannot be enumerated"
		}
		idx := paramIndex(x)
		for _, site := range sites {
			cc := callOf(site)
			args := cc.Args
			if idx >= len(args) {
				return false, "argument mismatch at " + p.Pos(site.Pos())
			}
			a := args[idx]
			root, _ := accessPath(a)
			if root == nil {
				root = a
			}
			if ok, why := requestOwned(p, rootParam(root), site, depth+1); !ok {
				return false, why
			}
		}
		return true, ""
	case *ssa.Phi:
		for _, e := range x.Edges {
			if ok, why := requestOwned(p, e, at, depth+1); !ok {
				return false, why
			}
		}
		return true, ""
	case *ssa.Extract:
		if call, ok := x.Tuple.(*ssa.Call); ok && calleeName(&call.Call) == "getRequest" && x.Index == 0 {
			return true, ""
		}
	}
	// a request created here: entered into the table before `at`, or closed after it on every path
	isPublishOfReq := func(in ssa.Instruction) bool {
		a := p.publishesRequest(callOf(in))
		return a != nil && isReq(a)
	}
	for _, in := range findInstrs(fn, isPublishOfReq) {
		if dominates(in, at) {
			return true, ""
		}
	}
	isCloseOfReq := func(in ssa.Instruction) bool {
		if isPublishOfReq(in) {
			return true // entered into the table after `at`: the table's sweep owns it from there
		}
		cc := callOf(in)
		if cc == nil || calleeName(cc) != "close" {
			return false
		}
		r := recvOf(cc)
		return r != nil && isReq(r)
	}
	if _, isCall := at.(ssa.CallInstruction); isCall {
		if !reachAvoiding(fn, at, func(in ssa.Instruction) bool {
			// leaving the iteration without the close: a return, or the request variable's next use in the loop
			if isReturn(in) {
				return true
			}
			cc := callOf(in)
			return cc != nil && calleeName(cc) == "readyPacket"
		}, isCloseOfReq) {
			return true, ""
		}
	}
	return false, "the Request at " + p.Pos(at.Pos()) + " in " + fnName(fn) + " is neither in the handle table nor closed by its creator"
}

// checkCloseIsBarrier (C11.R10): the dispatcher hands reads and writes to parallel workers.  A read or write that
// arrives after a CLOSE of its handle must find the handle gone, so the dispatcher has to wait for the CLOSE itself
// (not only for the requests before it, which is C14) before it takes the next packet: on every path from the
// hand-off of a CLOSE to the next receive there is a working.Wait().
func checkCloseIsBarrier(c *Ctx, rule string) {
	p := c.P
	d := getDispatcher(c, rule)
	if d == nil || d.pktVal == nil {
		return
	}
	cl := p.NamedType(p.Sftp, "sshFxpClosePacket")
	if cl == nil {
		c.missing(rule, "sshFxpClosePacket")
		return
	}
	head := switchHead(d.disp, d.pktVal)
	body, isDefault, _ := simulate(head, newPtr(cl))
	if body == nil || isDefault {
		c.bad(rule, "CLOSE is a barrier for what follows it", p.Pos(d.disp.Pos()), "the dispatcher has no case for CLOSE")
		return
	}
	loops := rangeChanLoops(d.disp)
	if len(loops) != 1 {
		c.und(rule, "CLOSE is a barrier for what follows it", p.Pos(d.disp.Pos()), "dispatcher loop not found")
		return
	}
	l := loops[0]
	isHead := isLoopHeadStart(l)
	isWait := func(in ssa.Instruction) bool {
		cc := callOf(in)
		return cc != nil && isWGCall(cc, "Wait")
	}
	n := 0
	good := true
	var where ssa.Instruction
	for _, s := range d.sends {
		s := s
		if !reachFromBlock(body, func(in ssa.Instruction) bool { return in == ssa.Instruction(s) }, isHead) {
			continue
		}
		n++
		// one search from the CLOSE arm through the hand-off to the next receive, so that what the path knows about
		// the request's kind (a mode variable set in the arm, say) still holds after the hand-off
		isS := func(in ssa.Instruction) bool { return in == ssa.Instruction(s) }
		if reachStaged(body, []func(ssa.Instruction) bool{isS, isHead}, func(in ssa.Instruction, k int) bool {
			if k == 0 {
				return isHead(in)
			}
			return isWait(in)
		}) {
			good = false
			where = s
		}
	}
	if n == 0 {
		c.bad(rule, "CLOSE is a barrier for what follows it", p.Pos(body.Instrs[0].Pos()), "a CLOSE is never handed to a worker")
		return
	}
	pos := p.Pos(body.Instrs[0].Pos())
	if where != nil {
		pos = p.Pos(where.Pos())
	}
	c.check(good, rule, "CLOSE is a barrier for what follows it", pos, "working.Wait() between the hand-off of a CLOSE and the next packet",
		"after handing a CLOSE to the command worker the dispatcher goes on: a READ or WRITE of the same handle sent right after the CLOSE runs on a parallel worker while (or before) the handle is closed — it is served although the CLOSE was acknowledged, and can touch the closed object")
}

// checkContextCancelledBeforeJoin (C11.R11): the context given to the handlers ends with the session.  Handlers may
// block on it, and Serve joins the workers that run them, so the cancellation must come before the join — a deferred
// cancel alone runs only after wg.Wait() has returned.
func checkContextCancelledBeforeJoin(c *Ctx, rule string) {
	checkRequestsCarrySessionContext(c, rule)
	p := c.P
	fn := p.Func("(*RequestServer).Serve")
	if fn == nil {
		c.missing(rule, "(*RequestServer).Serve")
		return
	}
	var cancelV ssa.Value
	eachInstr(fn, func(in ssa.Instruction) {
		if call, ok := in.(*ssa.Call); ok && callIs(&call.Call, "context.WithCancel") {
			for _, r := range *call.Referrers() {
				if ex, ok := r.(*ssa.Extract); ok && ex.Index == 1 {
					cancelV = ex
				}
			}
		}
	})
	if cancelV == nil {
		c.und(rule, "session context", p.Pos(fn.Pos()), "Serve does not create a cancellable context")
		return
	}
	isCancel := func(in ssa.Instruction) bool {
		call, ok := in.(*ssa.Call)
		if !ok {
			return false
		}
		for _, l := range leavesOf(call.Call.Value) {
			if l.V == cancelV {
				return true
			}
		}
		return call.Call.Value == cancelV
	}
	n := 0
	eachInstr(fn, func(in ssa.Instruction) {
		cc := callOf(in)
		if cc == nil || !isWGCall(cc, "Wait") {
			return
		}
		if _, plain := in.(*ssa.Call); !plain {
			return
		}
		n++
		before := !reachAvoiding(fn, nil, func(x ssa.Instruction) bool { return x == in }, isCancel)
		c.check(before, rule, "context cancelled before the workers are joined", p.Pos(in.Pos()), "cancel() on every path to wg.Wait()",
			"the session context is cancelled only by the deferred call, after wg.Wait(): a handler that waits on Request.Context() (documented to end when the connection closes) is never released and Serve blocks in the join")
	})
	c.check(n == 1, rule, "RequestServer.Serve join", p.Pos(fn.Pos()), "one wg.Wait()", fmt.Sprintf("%d wg.Wait() calls", n))
}

// checkRequestsCarrySessionContext: Request.Context is documented to end "when the request is complete or the client's
// connection closes", and Serve cancels the session context before it joins the workers.  That only helps a handler
// whose Request was given a context derived from the session's: every Request on which the worker calls a handler
// (Request.call / open / opendir) must come from the handle table, from requestFromPacket (which derives a context), or
// be a literal whose ctx field is set from the worker's context parameter.  A literal without it answers
// Context() with context.Background(): a handler waiting on it is never released and Serve never returns.
func checkRequestsCarrySessionContext(c *Ctx, rule string) {
	p := c.P
	worker := p.Func("(*RequestServer).packetWorker")
	if worker == nil {
		c.missing(rule, "(*RequestServer).packetWorker")
		return
	}
	var ctxParam *ssa.Parameter
	for _, prm := range worker.Params {
		if prm.Type().String() == "context.Context" {
			ctxParam = prm
		}
	}
	fromSession := func(v ssa.Value) bool {
		if ctxParam == nil {
			return false
		}
		for _, l := range leavesOf(v) {
			if l.Kind == leafParam && l.Param == ctxParam {
				return true
			}
			if l.Kind == leafCallResult {
				for _, a := range l.Call.Args {
					if a == ssa.Value(ctxParam) {
						return true
					}
				}
			}
		}
		return false
	}
	n := 0
	for _, site := range callsWhere(worker, func(cc *ssa.CallCommon) bool {
		f := cc.StaticCallee()
		return f != nil && f.Signature.Recv() != nil && typeName(f.Signature.Recv().Type()) == "Request" && (f.Name() == "call" || f.Name() == "open" || f.Name() == "opendir")
	}) {
		recv := recvOf(callOf(site))
		for _, l := range leavesOfIface(recv) {
			a, ok := l.(*ssa.Alloc)
			if !ok {
				continue // a table entry, the result of requestFromPacket: built with a context
			}
			if typeName(a.Type()) != "Request" {
				continue
			}
			n++
			v := litField(a, "ctx")
			c.check(v != nil && !isNilConst(v) && fromSession(v), rule, "the Request built for "+caseNameOf(worker, a)+" carries the session's context", p.Pos(a.Pos()), "ctx is derived from the worker's context",
				"this Request is built without a context: Request.Context() answers context.Background(), which is never cancelled — a handler that waits for it when the client hangs up during this request is never released, and Serve never returns")
		}
	}
	c.check(n >= 4, rule, "Requests built in place by the worker", p.Pos(worker.Pos()), fmt.Sprintf("%d literals", n), fmt.Sprintf("only %d Request literals found in packetWorker (FSTAT, FSETSTAT, posix-rename, statvfs expected)", n))
}

// caseNameOf names the type-switch arm of fn in which the instruction lies (for stable keys).
func caseNameOf(fn *ssa.Function, in ssa.Instruction) string {
	gv := requestSwitchValue(fn)
	best := "?"
	var bestB *ssa.BasicBlock
	if gv == nil {
		return best
	}
	for _, tc := range typeCasesOn(fn, gv) {
		if tc.Body != nil && (tc.Body == in.Block() || tc.Body.Dominates(in.Block())) && (bestB == nil || bestB.Dominates(tc.Body)) {
			best, bestB = typeName(tc.Asserted), tc.Body
		}
	}
	return best
}

// blockDistances: the length of the shortest path from b to every block it reaches (b itself: 0).
func blockDistances(b *ssa.BasicBlock) map[*ssa.BasicBlock]int {
	d := map[*ssa.BasicBlock]int{b: 0}
	q := []*ssa.BasicBlock{b}
	for len(q) > 0 {
		x := q[0]
		q = q[1:]
		for _, s := range x.Succs {
			if _, ok := d[s]; !ok {
				d[s] = d[x] + 1
				q = append(q, s)
			}
		}
	}
	return d
}

// checkStateSlotsServedOnce (C11.R13): a Request's state has one slot per kind of handler object (reader, writer,
// reader-writer; the lister has its own close).  Request.close closes, and Request.transferError notifies, the object
// of each slot exactly once: what they assert to io.Closer / TransferError is traced back (through the accessor that
// hands out the slots) to a load of a state field, and each of the three fields must be reached by exactly one of the
// calls.  An accessor that returns one slot twice closes a read-write object twice and never closes a write-only one.
func checkStateSlotsServedOnce(c *Ctx, rule string) {
	p := c.P
	stT := p.NamedType(p.Sftp, "state")
	if stT == nil {
		c.missing(rule, "state")
		return
	}
	st, ok := stT.Underlying().(*types.Struct)
	if !ok {
		c.und(rule, "state slots", "?", "state is not a struct")
		return
	}
	var slots []string
	for i := 0; i < st.NumFields(); i++ {
		f := st.Field(i)
		if !types.IsInterface(f.Type()) {
			continue
		}
		// the lister is closed by its own method (closeListerAt) and is not notified of transfer errors
		if it, ok := f.Type().Underlying().(*types.Interface); ok {
			isLister := false
			for k := 0; k < it.NumMethods(); k++ {
				if it.Method(k).Name() == "ListAt" {
					isLister = true
				}
			}
			if isLister {
				continue
			}
		}
		slots = append(slots, f.Name())
	}
	if len(slots) < 3 {
		c.und(rule, "state slots", p.Pos(stT.Obj().Pos()), fmt.Sprintf("only %d object slots found in state (reader, writer, reader-writer expected)", len(slots)))
		return
	}
	fieldsOf := stateFieldsOf
	for _, spec := range []struct{ fn, method, verb string }{
		{"(*Request).close", "Close", "closed"},
		{"(*Request).transferError", "TransferError", "notified"},
	} {
		fn := p.Func(spec.fn)
		if fn == nil {
			c.missing(rule, spec.fn)
			continue
		}
		count := map[string]int{}
		eachInstr(fn, func(in ssa.Instruction) {
			cc := callOf(in)
			if cc == nil || !cc.IsInvoke() || cc.Method.Name() != spec.method {
				return
			}
			for _, f := range fieldsOf(cc.Value, 0) {
				count[f]++
			}
		})
		for _, s := range slots {
			c.check(count[s] == 1, rule, fmt.Sprintf("%s: the object in state.%s is %s once", spec.fn, s, spec.verb), p.Pos(fn.Pos()), "reached by exactly one "+spec.method+" call",
				fmt.Sprintf("the object in state.%s is %s %d times by %s (the accessor hands out another slot in its place, or the same slot twice): a handler object is never %s, another one twice", s, spec.verb, count[s], spec.fn, spec.verb))
		}
	}
}

// stateFieldsOf: the field(s) of a Request's state that a value is loaded from, through the accessors that hand them out.
func stateFieldsOf(v ssa.Value, depth int) []string {
fieldsOf := stateFieldsOf
	if depth > 6 || v == nil {
		return nil
	}
	switch x := v.(type) {
	case *ssa.UnOp:
		if x.Op == token.MUL {
			if t, name, _, ok := fieldOf(x.X); ok && typeName(t) == "state" {
				return []string{name}
			}
			// an element of a slice literal that is ranged over (`for _, obj := range []any{wr, rw, rd}`): each element in turn
			if ia, ok := x.X.(*ssa.IndexAddr); ok {
				var out []string
				for _, el := range sliceLiteralElems(ia.X, 0) {
					out = append(out, fieldsOf(el, depth+1)...)
				}
				return out
			}
		}
	case *ssa.ChangeInterface:
		return fieldsOf(x.X, depth+1)
	case *ssa.MakeInterface:
		return fieldsOf(x.X, depth+1)
	case *ssa.TypeAssert:
		return fieldsOf(x.X, depth+1)
	case *ssa.Phi:
		var out []string
		for _, e := range x.Edges {
			out = append(out, fieldsOf(e, depth+1)...)
		}
		return out
	case *ssa.Extract:
		if call, ok := x.Tuple.(*ssa.Call); ok {
			if callee := call.Call.StaticCallee(); callee != nil && callee.Blocks != nil && inModule(callee) {
				var out []string
				for _, rl := range returnLeaves(callee, x.Index) {
					out = append(out, fieldsOf(rl.v, depth+1)...)
				}
				return out
			}
		}
		if ta, ok := x.Tuple.(*ssa.TypeAssert); ok && x.Index == 0 {
			return fieldsOf(ta.X, depth+1)
		}
	case *ssa.Call:
		if callee := x.Call.StaticCallee(); callee != nil && callee.Blocks != nil && inModule(callee) {
			var out []string
			for _, rl := range returnLeaves(callee, 0) {
				out = append(out, fieldsOf(rl.v, depth+1)...)
			}
			return out
		}
	}
	return nil
}

// checkHandleObjectsClosedOnlyByClose (C11.R15 / C14.R10): an object that sits in a slot of a Request's state — the
// reader, writer, reader-writer or lister of an open handle — is closed by Request.close (CLOSE, the end sweep, a failed
// open) and by nobody else.  A wrapper that closes it on its own (at end of file, after a failed write) closes it under
// the feet of pipelined requests on the same handle, and CLOSE then closes it a second time.
func checkHandleObjectsClosedOnlyByClose(c *Ctx, rule string) {
	p := c.P
	n := 0
	for _, fn := range p.LibFuncs() {
		if outermost(fn).Package() != p.Sftp {
			continue
		}
		eachInstr(fn, func(in ssa.Instruction) {
			cc := callOf(in)
			if cc == nil || !cc.IsInvoke() || cc.Method.Name() != "Close" {
				return
			}
			fs := stateFieldsOf(cc.Value, 0)
			if len(fs) == 0 {
				return
			}
			n += len(fs)
			host := fnName(outermost(fn))
			c.check(host == "(*Request).close" || host == "(*state).closeListerAt", rule, "close of the object in state."+fs[0]+" in "+fnName(fn), p.Pos(in.Pos()), "in Request.close / closeListerAt",
				"the handler object held in a handle (state."+fs[0]+") is closed outside Request.close: requests pipelined on the same handle find it closed, and CLOSE or the end sweep closes it again")
		})
	}
	c.check(n >= 4, rule, "close sites of handle objects", "?", fmt.Sprintf("%d slots closed", n), fmt.Sprintf("only %d slots of handle objects are closed anywhere (Request.close closes three, closeListerAt the lister)", n))
}

// sliceLiteralElems: the elements of the slice literal v is (directly, or as the result of a module function).
func sliceLiteralElems(v ssa.Value, depth int) []ssa.Value {
	if depth > 3 {
		return nil
	}
	switch x := v.(type) {
	case *ssa.Slice:
		return variadicElems(x)
	case *ssa.Call:
		if callee := x.Call.StaticCallee(); callee != nil && callee.Blocks != nil && inModule(callee) {
			var out []ssa.Value
			for _, rl := range returnLeaves(callee, 0) {
				out = append(out, sliceLiteralElems(rl.v, depth+1)...)
			}
			return out
		}
	}
	return nil
}

// checkCloseErrorsKept (C10.R13 / C11.R17): Request.close closes up to four handler objects and reports the first error.
// A Close error enters the result where the result is still nil — never on the side of a test that says this very
// error is nil (which records it exactly when there is nothing to record, and drops every real failure: the client's
// Close of a handle whose handler failed to flush answers OK).
func checkCloseErrorsKept(c *Ctx, rule string) {
	p := c.P
	fn := p.Func("(*Request).close")
	if fn == nil {
		c.missing(rule, "(*Request).close")
		return
	}
	n := 0
	eachInstr(fn, func(in ssa.Instruction) {
		call, ok := in.(*ssa.Call)
		if !ok {
			return
		}
		cc := &call.Call
		isClose := cc.IsInvoke() && cc.Method.Name() == "Close"
		if !isClose && calleeName(cc) != "closeListerAt" {
			return
		}
		if !isErrorType(call.Type()) {
			return
		}
		n++
		refs := call.Referrers()
		reaches, wrongSide := false, false
		if refs != nil {
			for _, r := range *refs {
				switch x := r.(type) {
				case *ssa.Phi:
					reaches = true
					for k, e := range x.Edges {
						if e != ssa.Value(call) {
							continue
						}
						pred := x.Block().Preds[k]
						for _, nt := range nilTests(call) {
							if nt.isNil != nil && nt.isNil != nt.nonNil && (nt.isNil == pred || nt.isNil.Dominates(pred) || (nt.iff.Block() == pred && nt.isNil == x.Block() && nt.nonNil != x.Block())) {
								wrongSide = true
							}
						}
					}
				case *ssa.Return, *ssa.Store:
					reaches = true
				}
			}
		}
		c.check(reaches && !wrongSide, rule, fmt.Sprintf("error of %s #%d in Request.close reaches the result", calleeName(cc), n), p.Pos(in.Pos()), "recorded when the result is still nil",
			"the error of a handler object's Close is recorded only on the side where it is nil (or not at all): a failed Close is answered with SSH_FX_OK")
	})
	c.check(n >= 2, rule, "Close calls of Request.close", p.Pos(fn.Pos()), fmt.Sprintf("%d calls", n), fmt.Sprintf("only %d Close calls found in Request.close", n))
}

// checkHandlerObjectInOneSlot (C11.R18): an object a handler returned is put into one slot of the Request's state.  Put
// into two (the read-write object also as the plain writer, say), Request.close closes it twice and transferError
// notifies it twice.
func checkHandlerObjectInOneSlot(c *Ctx, rule string) {
	p := c.P
	setters := map[string]bool{"setReaderAt": true, "setWriterAt": true, "setWriterAtReaderAt": true, "setListerAt": true}
	n := 0
	for _, fn := range p.LibFuncs() {
		if outermost(fn).Package() != p.Sftp {
			continue
		}
		byVal := map[ssa.Value]map[string]ssa.Instruction{}
		eachInstr(fn, func(in ssa.Instruction) {
			cc := callOf(in)
			if cc == nil || cc.StaticCallee() == nil || !setters[cc.StaticCallee().Name()] {
				return
			}
			args := argsOf(cc)
			if len(args) != 1 || isNilConst(args[0]) {
				return
			}
			v := args[0]
			for i := 0; i < 4; i++ {
				switch x := v.(type) {
				case *ssa.ChangeInterface:
					v = x.X
					continue
				case *ssa.MakeInterface:
					v = x.X
					continue
				}
				break
			}
			if byVal[v] == nil {
				byVal[v] = map[string]ssa.Instruction{}
			}
			byVal[v][cc.StaticCallee().Name()] = in
		})
		for v, m := range byVal {
			n++
			var names []string
			var at ssa.Instruction
			for nm, in := range m {
				names = append(names, nm)
				at = in
			}
			sort.Strings(names)
			c.check(len(names) == 1, rule, "handler object stored by "+fnName(fn)+" goes into one slot ("+names[0]+")", p.Pos(at.Pos()), "one setter per object",
				fmt.Sprintf("the same handler object (%s) is put into several slots of the Request (%s): it is closed and notified once per slot", v.Name(), strings.Join(names, ", ")))
		}
	}
	c.check(n >= 3, rule, "handler objects stored into a Request", "?", fmt.Sprintf("%d objects", n), fmt.Sprintf("only %d stores of handler objects found", n))
}
