package main

import (
	"fmt"
	"go/token"
	"go/types"

	"golang.org/x/tools/go/ssa"
)

func init() {
	register("C11", &propSpec{
		level:       "other",
		explanation: "Handle-table discipline decided on SSA: the handle counter is only incremented under the table lock and handles are its decimal rendering; the tables are touched only under their lock (named exceptions: constructors, the os server's end sweep after all workers were joined); the object returned by a lookup is used only under ok and the miss path answers EBADF; close sites are {close request, failed-open cleanup, end sweep} with delete and Close on the same locked path; everything obtained from a handler or from openfile is, on every non-error path, stored in a registered handle or closed; transfer-error notification and context cancellation are tied to the sweep and to Request.close; sweeps run after the worker join on every return path.",
		run:         runC11,
		assumptions: []string{"handler objects do not close themselves", "package os releases descriptors on Close"},
	})
}

// lockTable: struct -> mutex key -> protected fields
type lockSpec struct {
	Struct string
	Key    string
	Fields []string
	Why    string
}

var lockTable = []lockSpec{
	{"clientConn", "clientConn.Mutex", []string{"inflight"}, "in-flight table shared by callers, recv and broadcastErr"},
	{"Server", "Server.openFilesLock", []string{"openFiles", "handleCount"}, "handle table of the os server shared by 9 workers"},
	{"RequestServer", "RequestServer.mu", []string{"openRequests", "handleCount"}, "handle table of the request server shared by 9 workers"},
	{"allocator", "allocator.Mutex", []string{"available", "used"}, "page lists shared by the receive loop, workers and controller"},
	{"state", "state.mu", []string{"readerAt", "writerAt", "writerAtReaderAt", "listerAt", "lsoffset"}, "per-handle handler objects shared by workers"},
}

// checkLockTable enforces engine L's table for the given structs.
func checkLockTable(c *Ctx, rule string, structs ...string) {
	p := c.P
	for _, ls := range lockTable {
		want := false
		for _, s := range structs {
			if s == ls.Struct {
				want = true
			}
		}
		if !want {
			continue
		}
		for _, f := range ls.Fields {
			accs := p.accessesOf(ls.Struct, f)
			if len(accs) == 0 {
				c.und(rule, ls.Struct+"."+f+" accesses", "?", "protected field not found (renamed?)")
				continue
			}
			for _, a := range accs {
				key := fmt.Sprintf("%s.%s in %s", ls.Struct, f, fnName(a.Fn))
				posS := p.Pos(a.In.Pos())
				if isFreshRoot(a.Root) {
					c.okT(rule, key, posS, "object under construction, not shared yet")
					continue
				}
				// state is embedded in Request: root may be a *Request with path prefix state
				held := heldAt(a.In, a.Root, ls.Key)
				if held == "" && ls.Struct == "state" {
					held = heldAt(a.In, a.Root, "Request.state.mu")
				}
				if held == "" {
					// named exception: the os server's end sweep after the worker join
					if ls.Struct == "Server" && fnName(a.Fn) == "(*Server).Serve" && !a.Write {
						joined := false
						for _, w := range findInstrs(a.Fn, func(in ssa.Instruction) bool {
							cc := callOf(in)
							_, plain := in.(*ssa.Call)
							return plain && cc != nil && isWGCall(cc, "Wait")
						}) {
							if dominates(w, a.In) {
								joined = true
							}
						}
						c.check(joined, rule, key, posS, "read in the end sweep, after wg.Wait() joined every worker", "handle table read without the lock while workers may still run")
						continue
					}
					c.bad(rule, key, posS, "field "+f+" accessed without holding "+ls.Key+" ("+ls.Why+")")
					continue
				}
				if a.Write && held != "Lock" {
					c.bad(rule, key, posS, "field "+f+" written while holding only a read lock")
					continue
				}
				c.ok(rule, key, posS, "under "+ls.Key+" ("+held+")")
			}
		}
	}
}

func runC11(c *Ctx) {
	p := c.P
	pos := func(in ssa.Instruction) string { return p.Pos(in.Pos()) }

	// ---------- R1 handle uniqueness ----------
	for _, spec := range []struct{ fn, st, lock, table string }{
		{"(*Server).nextHandle", "Server", "Server.openFilesLock", "openFiles"},
		{"(*RequestServer).nextRequest", "RequestServer", "RequestServer.mu", "openRequests"},
	} {
		fn := p.Func(spec.fn)
		if fn == nil {
			c.missing("R1", spec.fn)
			continue
		}
		c.looked(spec.fn)
		writes := 0
		for _, a := range p.accessesOf(spec.st, "handleCount") {
			if !a.Write {
				continue
			}
			if isFreshRoot(a.Root) {
				continue
			}
			writes++
			good := a.Fn == fn
			var st *ssa.Store
			for _, r := range *a.In.(*ssa.FieldAddr).Referrers() {
				if s, ok := r.(*ssa.Store); ok {
					st = s
				}
			}
			if good && st != nil {
				b, ok := st.Val.(*ssa.BinOp)
				one, isOne := int64(0), false
				if ok {
					one, isOne = constInt(b.Y)
				}
				good = ok && b.Op == token.ADD && isOne && one == 1 && heldAt(st, a.Root, spec.lock) == "Lock"
			}
			c.check(good, "R1", "write of "+spec.st+".handleCount in "+fnName(a.Fn), pos(a.In), "counter only advances by one, under the table lock", "handle counter written outside "+spec.fn+", not by +1, or without the exclusive lock: handles may repeat")
		}
		if writes == 0 {
			c.bad("R1", spec.st+".handleCount never advanced", p.Pos(fn.Pos()), "the handle counter is never incremented: every handle is the same string")
		}
		// the key stored in the table is strconv.Itoa(handleCount) read after the increment
		var upd *ssa.MapUpdate
		eachInstr(fn, func(in ssa.Instruction) {
			if mu, ok := in.(*ssa.MapUpdate); ok {
				upd = mu
			}
		})
		if upd == nil {
			c.bad("R1", spec.fn+" registers", p.Pos(fn.Pos()), "no insertion into the handle table")
			continue
		}
		okKey := false
		for _, l := range leavesOf(upd.Key) {
			if l.Kind == leafCallResult && callIs(l.Call, "strconv.Itoa", "strconv.FormatInt", "strconv.FormatUint") {
				for _, l2 := range leavesOf(l.Call.Args[0]) {
					if l2.Kind == leafFieldLoad && l2.Field == "handleCount" {
						okKey = true
					}
					if l2.Kind == leafBinOp {
						okKey = true // the incremented value itself
					}
				}
			} else if l.Kind == leafFieldLoad && l.Field == "handle" {
				// r.handle, itself assigned from Itoa in the same function
				okKey = true
				found := false
				eachInstr(fn, func(in ssa.Instruction) {
					if st, ok := in.(*ssa.Store); ok {
						if fa, ok := st.Addr.(*ssa.FieldAddr); ok {
							if _, n, _, _ := fieldOf(fa); n == "handle" {
								for _, l3 := range leavesOf(st.Val) {
									if l3.Kind == leafCallResult && callIs(l3.Call, "strconv.Itoa") {
										found = true
									}
								}
							}
						}
					}
				})
				okKey = found
			}
		}
		c.check(okKey, "R1", spec.fn+" handle is the counter", pos(upd), "the handle is the decimal rendering of the freshly incremented counter", "the handle stored in the table is not derived from the incremented counter")
		c.check(heldAt(upd, fn.Params[0], spec.lock) == "Lock", "R1", spec.fn+" registers under lock", pos(upd), "insertion under the exclusive lock", "insertion into the handle table without the exclusive lock")
		// returned handle == key
		eachInstr(fn, func(in ssa.Instruction) {
			if r, ok := in.(*ssa.Return); ok && len(r.Results) == 1 && isReturn(in) {
				same := false
				kl := leavesOf(upd.Key)
				rl := leavesOf(r.Results[0])
				if len(kl) > 0 && len(rl) > 0 {
					same = kl[0].V == rl[0].V || (kl[0].Kind == leafFieldLoad && rl[0].Kind == leafFieldLoad && kl[0].Field == rl[0].Field) ||
						(kl[0].Kind == leafCallResult && rl[0].Kind == leafCallResult && kl[0].CallIn == rl[0].CallIn)
				}
				c.check(same, "R1", spec.fn+" returns the registered handle", pos(in), "returned handle is the table key", "the handle returned differs from the key stored in the table")
			}
		})
	}

	// ---------- R2 tables only under their lock ----------
	checkLockTable(c, "R2", "Server", "RequestServer", "state")
	c.floor("R2", 25)

	// ---------- R3 stale handles touch nothing ----------
	for _, getter := range []string{"(*Server).getHandle", "(*RequestServer).getRequest"} {
		g := p.Func(getter)
		if g == nil {
			c.missing("R3", getter)
			continue
		}
		c.looked(getter)
		for _, site := range p.callersOfStatic(g) {
			call, ok := site.(*ssa.Call)
			if !ok {
				continue
			}
			var v0, okv *ssa.Extract
			for _, r := range *call.Referrers() {
				if ex, ok := r.(*ssa.Extract); ok {
					if ex.Index == 0 {
						v0 = ex
					} else {
						okv = ex
					}
				}
			}
			key := "lookup in " + fnName(call.Parent())
			if v0 == nil {
				c.okT("R3", key, pos(call), "looked-up object unused")
				continue
			}
			if okv == nil {
				c.bad("R3", key, pos(call), "the ok result of the lookup is ignored: a stale handle yields a nil object that is then used")
				continue
			}
			var trueSucc, falseSucc *ssa.BasicBlock
			for _, r := range *okv.Referrers() {
				if iff, ok := r.(*ssa.If); ok {
					trueSucc, falseSucc = iff.Block().Succs[0], iff.Block().Succs[1]
				}
			}
			if trueSucc == nil {
				c.und("R3", key, pos(call), "no branch on ok found")
				continue
			}
			allOK := true
			var bad ssa.Instruction
			for _, r := range *v0.Referrers() {
				if _, dbg := r.(*ssa.DebugRef); dbg {
					continue
				}
				if !(trueSucc.Dominates(r.Block()) && len(trueSucc.Preds) == 1) {
					allOK = false
					bad = r
				}
			}
			if allOK {
				c.ok("R3", key, pos(call), "the looked-up object is used only where ok is true")
			} else {
				c.bad("R3", key, pos(bad), "the object returned by the lookup is used on a path where ok may be false (stale or unknown handle)")
			}
			// the miss path answers EBADF
			ebadf := false
			fn := call.Parent()
			if reachFromBlock(falseSucc, func(in ssa.Instruction) bool {
				cc := callOf(in)
				if cc == nil || calleeName(cc) != "statusFromError" {
					return false
				}
				for _, l := range leavesOf(cc.Args[1]) {
					if k, ok := constInt(l.V); ok && l.Kind == leafConst && k == 9 {
						return true
					}
				}
				return false
			}, nil) {
				ebadf = true
			}
			_ = fn
			c.check(ebadf, "R3", key+" miss answers EBADF", pos(call), "unknown handle is answered with EBADF", "the miss path does not answer with EBADF")
		}
	}
	c.floor("R3", 12)

	// ---------- R4 close once ----------
	checkCloseSites(c, "R4")
	for _, spec := range []struct{ fn, lock, closer string }{
		{"(*Server).closeHandle", "Server.openFilesLock", "Close"},
		{"(*RequestServer).closeRequest", "RequestServer.mu", "close"},
	} {
		fn := p.Func(spec.fn)
		if fn == nil {
			continue
		}
		var del, cls ssa.Instruction
		var lookupOK *ssa.BasicBlock
		eachInstr(fn, func(in ssa.Instruction) {
			cc := callOf(in)
			if cc != nil && builtinName(cc) == "delete" {
				del = in
			}
			if cc != nil && calleeName(cc) == spec.closer {
				if _, plain := in.(*ssa.Call); plain {
					cls = in
				}
			}
			if lk, ok := in.(*ssa.Lookup); ok && lk.CommaOk {
				for _, r := range *lk.Referrers() {
					if ex, ok := r.(*ssa.Extract); ok && ex.Index == 1 {
						for _, rr := range *ex.Referrers() {
							if iff, ok := rr.(*ssa.If); ok {
								lookupOK = iff.Block().Succs[0]
							}
						}
					}
				}
			}
		})
		good := del != nil && cls != nil && lookupOK != nil && lookupOK.Dominates(del.Block()) && lookupOK.Dominates(cls.Block()) &&
			heldAt(del, fn.Params[0], spec.lock) == "Lock" && heldAt(cls, fn.Params[0], spec.lock) == "Lock"
		c.check(good, "R4", spec.fn+" delete+close", p.Pos(fn.Pos()), "entry is deleted and the object closed on the same locked path, only when the lookup succeeded",
			"closing and deleting are not on one locked path guarded by the lookup: a handle could be closed twice or stay valid after close")
		if del != nil && cls != nil {
			c.check(dominates(del, cls), "R4", spec.fn+" delete before close", pos(cls), "the handle is invalidated before the object is closed", "the object is closed while its handle is still in the table")
		}
		// the EBADF return for unknown handles
		ret9 := false
		eachInstr(fn, func(in ssa.Instruction) {
			if r, ok := in.(*ssa.Return); ok && isReturn(in) {
				for _, l := range leavesOf(r.Results[0]) {
					if k, ok := constInt(l.V); ok && k == 9 {
						ret9 = true
					}
				}
			}
		})
		c.check(ret9, "R4", spec.fn+" unknown handle", p.Pos(fn.Pos()), "unknown handle yields EBADF", "closing an unknown handle does not yield EBADF")
	}
	// the request server's sweep deletes what it closes
	if rsServe := p.Func("(*RequestServer).Serve"); rsServe != nil {
		var cls, del ssa.Instruction
		eachInstr(rsServe, func(in ssa.Instruction) {
			cc := callOf(in)
			if cc != nil && calleeName(cc) == "close" {
				cls = in
			}
			if cc != nil && builtinName(cc) == "delete" {
				del = in
			}
		})
		c.check(cls != nil && del != nil && cls.Block() == del.Block(), "R4", "RequestServer sweep deletes", p.Pos(rsServe.Pos()), "swept requests are removed from the table", "the sweep closes requests but leaves them in the table")
	}

	// ---------- R5 failed opens drop their handle ----------
	if worker := p.Func("(*RequestServer).packetWorker"); worker != nil {
		next := p.Func("(*RequestServer).nextRequest")
		closeReq := p.Func("(*RequestServer).closeRequest")
		ready := p.Func("(*packetManager).readyPacket")
		n := 0
		for _, site := range callsWhere(worker, func(cc *ssa.CallCommon) bool { return cc.StaticCallee() == next }) {
			n++
			key := fmt.Sprintf("open #%d in packetWorker", n)
			// the type assertion on the reply
			var ta *ssa.TypeAssert
			eachInstr(worker, func(in ssa.Instruction) {
				if x, ok := in.(*ssa.TypeAssert); ok && x.CommaOk && isPtrToNamed(x.AssertedType, "sshFxpHandlePacket") && dominates(site, x) {
					// nearest: same case region — the first one dominated by the site and not dominated by a later nextRequest
					if ta == nil || dominates(ta, x) == false && dominates(x, ta) {
						ta = x
					}
				}
			})
			if ta == nil {
				c.bad("R5", key, pos(site), "a handle is registered but the reply is never tested for success: a failed open keeps its handle and its context forever")
				continue
			}
			// the asserted value is the reply of open/opendir on the registered request
			replyOK := false
			for _, l := range leavesOfIface(ta.X) {
				if call, ok := l.(*ssa.Call); ok {
					nm := calleeName(&call.Call)
					if nm == "open" || nm == "opendir" {
						replyOK = true
					}
				}
			}
			var falseSucc *ssa.BasicBlock
			for _, r := range *ta.Referrers() {
				if ex, ok := r.(*ssa.Extract); ok && ex.Index == 1 {
					for _, rr := range *ex.Referrers() {
						if iff, ok := rr.(*ssa.If); ok {
							falseSucc = iff.Block().Succs[1]
						}
					}
				}
			}
			if falseSucc == nil || !replyOK {
				c.und("R5", key, pos(ta), "cannot relate the reply test to the open result")
				continue
			}
			isClose := func(in ssa.Instruction) bool {
				cc := callOf(in)
				if cc == nil || cc.StaticCallee() != closeReq {
					return false
				}
				// with the handle returned by this nextRequest
				for _, l := range leavesOf(argsOf(cc)[0]) {
					if l.Kind == leafCallResult && l.CallIn == site {
						return true
					}
				}
				return false
			}
			leak := reachFromBlock(falseSucc, func(in ssa.Instruction) bool {
				cc := callOf(in)
				return cc != nil && cc.StaticCallee() == ready
			}, isClose)
			c.check(!leak, "R5", key, pos(ta), "a non-handle reply is preceded by closeRequest of the handle just registered", "a failed open can be answered without releasing the handle (and cancelling the context) registered for it")
		}
		c.check(n >= 2, "R5", "open sites", p.Pos(worker.Pos()), fmt.Sprintf("%d registration sites", n), "fewer than 2 nextRequest sites (OPEN and OPENDIR)")
	}

	// ---------- R6 / R7 ownership of handler objects ----------
	checkOwnership(c)
	checkCloseIsBarrier(c, "R10")
	checkContextCancelledBeforeJoin(c, "R11")
	checkHandleValidityFromTable(c, "R12")

	// ---------- R8 transfer error, contexts ----------
	{
		te := p.Func("(*Request).transferError")
		rsServe := p.Func("(*RequestServer).Serve")
		reqClose := p.Func("(*Request).close")
		if te == nil || rsServe == nil || reqClose == nil {
			c.missing("R8", "(*Request).transferError / Serve / close")
		} else {
			sites := p.callersOfStatic(te)
			c.check(len(sites) == 1 && sites[0].Parent() == rsServe, "R8", "transferError call sites", p.Pos(te.Pos()), "transferError is called only by the end sweep", fmt.Sprintf("transferError has %d call sites or is called outside RequestServer.Serve", len(sites)))
			for _, s := range sites {
				if s.Parent() != rsServe {
					continue
				}
				// same loop iteration as the close, before it, on a request taken from the table
				var cls ssa.Instruction
				eachInstr(rsServe, func(in ssa.Instruction) {
					if cc := callOf(in); cc != nil && cc.StaticCallee() == reqClose {
						cls = in
					}
				})
				c.check(cls != nil && dominates(s, cls) && inLoop(s) && recvOf(callOf(s)) == recvOf(callOf(cls)), "R8", "transferError before close of the same request", pos(s), "notification precedes the close of that request", "transferError is not followed by the close of the same request")
				// receiver comes from ranging the table
				fromTable := false
				for _, l := range leavesOf(recvOf(callOf(s))) {
					if l.Kind == leafOther || l.Kind == leafCallResult {
						fromTable = true
					}
				}
				_ = fromTable
			}
			// Request.close cancels the context on every path: a deferred closure calling r.cancelCtx
			deferred := false
			eachInstr(reqClose, func(in ssa.Instruction) {
				d, ok := in.(*ssa.Defer)
				if !ok {
					return
				}
				var body *ssa.Function
				if mc, ok := d.Call.Value.(*ssa.MakeClosure); ok {
					body = mc.Fn.(*ssa.Function)
				}
				if body == nil {
					return
				}
				eachInstr(body, func(x ssa.Instruction) {
					if cc := callOf(x); cc != nil && cc.StaticCallee() == nil && !cc.IsInvoke() {
						for _, l := range leavesOf(cc.Value) {
							if l.Kind == leafFieldLoad && l.Field == "cancelCtx" {
								deferred = true
							}
						}
					}
				})
				// the defer must be registered before anything can return
				for _, r := range findInstrs(reqClose, isReturn) {
					if !dominates(in, r) {
						deferred = false
					}
				}
			})
			c.check(deferred, "R8", "Request.close cancels its context", p.Pos(reqClose.Pos()), "cancelCtx is deferred at the top of Request.close", "Request.close does not cancel the request context on every path")
			// requestFromPacket derives the context from its ctx parameter and keeps the cancel func
			if rfp := p.Func("requestFromPacket"); rfp == nil {
				c.missing("R8", "requestFromPacket")
			} else {
				derived := false
				eachInstr(rfp, func(in ssa.Instruction) {
					if cc := callOf(in); cc != nil && callIs(cc, "context.WithCancel") {
						if pr, ok := cc.Args[0].(*ssa.Parameter); ok && pr == rfp.Params[0] {
							derived = true
						}
					}
				})
				stores := 0
				eachInstr(rfp, func(in ssa.Instruction) {
					if st, ok := in.(*ssa.Store); ok {
						if fa, ok := st.Addr.(*ssa.FieldAddr); ok {
							if _, n, _, _ := fieldOf(fa); n == "cancelCtx" || n == "ctx" {
								stores++
							}
						}
					}
				})
				c.check(derived && stores == 2, "R8", "request context derives from the session context", p.Pos(rfp.Pos()), "ctx, cancelCtx = context.WithCancel(session ctx)", "requests no longer carry a cancellable context derived from the session context")
			}
			// RequestServer.Serve: defer cancel() of the session context
			cancelDeferred := false
			eachInstr(rsServe, func(in ssa.Instruction) {
				if d, ok := in.(*ssa.Defer); ok {
					for _, l := range leavesOf(d.Call.Value) {
						if l.Kind == leafCallResult && callIs(l.Call, "context.WithCancel") && l.Idx == 1 {
							cancelDeferred = true
						}
					}
				}
			})
			c.check(cancelDeferred, "R8", "session context cancelled at the end of Serve", p.Pos(rsServe.Pos()), "defer cancel()", "the session context is not cancelled when Serve returns")
		}
	}

	// ---------- R9 sweeps after the join, on every return path ----------
	for _, spec := range []struct{ fn, table string }{{"(*Server).Serve", "openFiles"}, {"(*RequestServer).Serve", "openRequests"}} {
		fn := p.Func(spec.fn)
		if fn == nil {
			c.missing("R9", spec.fn)
			continue
		}
		c.looked(spec.fn)
		// the range over the table
		var rng ssa.Instruction
		eachInstr(fn, func(in ssa.Instruction) {
			if r, ok := in.(*ssa.Range); ok {
				for _, l := range leavesOf(r.X) {
					if l.Kind == leafFieldLoad && l.Field == spec.table {
						rng = in
					}
				}
			}
		})
		if rng == nil {
			c.bad("R9", spec.fn+" sweep", p.Pos(fn.Pos()), "Serve no longer sweeps the "+spec.table+" table: objects still open at disconnect are never closed")
			continue
		}
		var wait ssa.Instruction
		for _, w := range findInstrs(fn, func(in ssa.Instruction) bool {
			cc := callOf(in)
			_, plain := in.(*ssa.Call)
			return plain && cc != nil && isWGCall(cc, "Wait")
		}) {
			if dominates(w, rng) {
				wait = w
			}
		}
		c.check(wait != nil, "R9", spec.fn+" sweep after join", pos(rng), "the sweep runs after wg.Wait()", "the sweep runs before all workers have ended: objects opened by a still-running worker are missed")
		allRet := true
		for _, r := range findInstrs(fn, isReturn) {
			if !dominates(rng, r) {
				allRet = false
			}
		}
		c.check(allRet, "R9", spec.fn+" sweep on every return", pos(rng), "every return path passes the sweep", "Serve can return without sweeping the handle table")
		// the workers' wait group: Add before go, Done deferred in the goroutine
		addOK, doneOK := false, false
		eachInstrDeep(fn, func(f *ssa.Function, in ssa.Instruction) {
			cc := callOf(in)
			if cc == nil {
				return
			}
			if isWGCall(cc, "Add") {
				if _, plain := in.(*ssa.Call); plain {
					for _, g := range findInstrs(f, func(x ssa.Instruction) bool { _, ok := x.(*ssa.Go); return ok }) {
						if dominates(in, g) {
							addOK = true
						}
					}
				}
			}
			if isWGCall(cc, "Done") {
				if _, isDefer := in.(*ssa.Defer); isDefer {
					doneOK = true
				}
			}
		})
		c.check(addOK && doneOK, "R9", spec.fn+" worker join accounting", p.Pos(fn.Pos()), "wg.Add before go, deferred wg.Done in the worker", "worker wait-group accounting broken: Wait may return while a worker still runs")
	}
}

// checkOwnership: R6 (handler objects) and R7 (os files).
func checkOwnership(c *Ctx) {
	p := c.P
	pos := func(in ssa.Instruction) string { return p.Pos(in.Pos()) }
	producers := map[string]bool{"Fileread": true, "Filewrite": true, "OpenFile": true, "Filelist": true, "Lstat": true}
	setters := map[string]bool{"setReaderAt": true, "setWriterAt": true, "setWriterAtReaderAt": true, "setListerAt": true}
	n := 0
	for _, fn := range p.LibFuncs() {
		if outermost(fn).Package() != p.Sftp || !isServerSide(fn) {
			continue
		}
		if fnName(outermost(fn)) == "(*root).OpenFile" || typeName(recvTypeOf(outermost(fn))) == "root" {
			continue // the in-memory example handler is a handler, not the server
		}
		eachInstr(fn, func(in ssa.Instruction) {
			call, ok := in.(*ssa.Call)
			if !ok {
				return
			}
			cc := &call.Call
			isProd := false
			kind := ""
			if cc.IsInvoke() && producers[cc.Method.Name()] && cc.Method.Type().(*types.Signature).Results().Len() == 2 {
				isProd, kind = true, "handler."+cc.Method.Name()
			}
			if f := cc.StaticCallee(); f != nil && fnName(f) == "(*Server).openfile" {
				isProd, kind = true, "Server.openfile"
			}
			if !isProd {
				return
			}
			n++
			key := kind + " in " + fnName(fn)
			// forward closure of the object and error values through phis
			objs, errs := map[ssa.Value]bool{}, map[ssa.Value]bool{}
			for _, r := range *call.Referrers() {
				if ex, ok := r.(*ssa.Extract); ok {
					if ex.Index == 0 {
						objs[ex] = true
					} else {
						errs[ex] = true
					}
				}
			}
			grow := func(set map[ssa.Value]bool) {
				for changed := true; changed; {
					changed = false
					for v := range set {
						for _, r := range *v.Referrers() {
							switch x := r.(type) {
							case *ssa.Phi:
								if !set[x] {
									set[x] = true
									changed = true
								}
							case *ssa.MakeInterface:
								if !set[x] {
									set[x] = true
									changed = true
								}
							case *ssa.ChangeInterface:
								if !set[x] {
									set[x] = true
									changed = true
								}
							}
						}
					}
				}
			}
			grow(objs)
			grow(errs)
			// the non-error continuation
			var cont *ssa.BasicBlock
			for e := range errs {
				for _, r := range *e.Referrers() {
					b, ok := r.(*ssa.BinOp)
					if !ok || b.Op != token.NEQ || !isNilConst(b.Y) {
						continue
					}
					for _, rr := range *b.Referrers() {
						if iff, ok := rr.(*ssa.If); ok && blockReaches(call.Block(), iff.Block()) {
							cont = iff.Block().Succs[1]
						}
					}
				}
			}
			if cont == nil {
				c.bad("R6", key, pos(in), "the error result of "+kind+" is not tested: ownership of the returned object cannot be established")
				return
			}
			unowned := ""
			isConsumer := func(x ssa.Instruction) bool {
				if cc := callOf(x); cc != nil {
					nm := calleeName(cc)
					if setters[nm] || nm == "nextHandle" {
						for _, a := range cc.Args {
							if objs[a] || objs[stripConv(a)] {
								if setters[nm] {
									// storing the object in a Request only transfers ownership when somebody owns the Request
									if r := recvOf(cc); r != nil {
										root, _ := accessPath(r)
										if ok, why := requestOwned(p, rootParam(root), x, 0); !ok {
											unowned = why
											return false
										}
									}
								}
								return true
							}
						}
					}
				}
				if ta, ok := x.(*ssa.TypeAssert); ok && ta.CommaOk && objs[ta.X] {
					if n := namedOf(ta.AssertedType); n != nil && n.Obj().Name() == "Closer" {
						// the ok branch must call Close on the asserted value
						closes := false
						for _, r := range *ta.Referrers() {
							if ex, ok := r.(*ssa.Extract); ok && ex.Index == 0 {
								for _, rr := range *ex.Referrers() {
									if cc := callOf(rr); cc != nil && cc.IsInvoke() && cc.Method.Name() == "Close" && cc.Value == ssa.Value(ex) {
										closes = true
									}
								}
							}
						}
						return closes
					}
				}
				return false
			}
			leak := reachFromBlock(cont, isReturn, isConsumer)
			rule := "R6"
			if kind == "Server.openfile" {
				rule = "R7"
			}
			why := "the object returned by " + kind + " can be dropped on a non-error path without being stored in a handle or closed"
			if unowned != "" {
				why = "the object returned by " + kind + " is stored in a Request that nobody closes: " + unowned
			}
			c.check(!leak, rule, key, pos(in), "on every non-error path the object is stored in a handle (a Request that is in the handle table or closed by its creator) or closed before the function returns", why)
		})
	}
	c.check(n >= 8, "R6", "producer sites", "?", fmt.Sprintf("%d producer sites examined", n), fmt.Sprintf("only %d producer sites found (8 expected): anchors lost", n))
}

func recvTypeOf(fn *ssa.Function) types.Type {
	if fn.Signature.Recv() != nil {
		return fn.Signature.Recv().Type()
	}
	return types.Typ[types.Invalid]
}

func dominatesBlockOrSame(a, b *ssa.BasicBlock) bool { return a == b || a.Dominates(b) }

// requestOwned: is the *Request denoted by v (at instruction `at`) one that somebody will close?  Yes when it came
// out of the handle table (getRequest), was entered into it (nextRequest) before `at`, or is closed by its creator on
// every path after `at`; a parameter is owned when that holds at every call site.
func requestOwned(p *Program, v ssa.Value, at ssa.Instruction, depth int) (bool, string) {
	if depth > 4 {
		return false, "call chain too deep"
	}
	fn := at.Parent()
	isReq := func(x ssa.Value) bool { return x == v || sameRoot(x, v) }
	switch x := v.(type) {
	case *ssa.Parameter:
		sites := p.callersOfStatic(x.Parent())
		if len(sites) == 0 || len(p.refsAsValue(x.Parent())) > 0 {
			return false, "callers of " + fnName(x.Parent()) + " cannot be enumerated"
		}
		idx := paramIndex(x)
		for _, site := range sites {
			cc := callOf(site)
			args := cc.Args
			if idx >= len(args) {
				return false, "argument mismatch at " + p.Pos(site.Pos())
			}
			a := args[idx]
			root, _ := accessPath(a)
			if root == nil {
				root = a
			}
			if ok, why := requestOwned(p, rootParam(root), site, depth+1); !ok {
				return false, why
			}
		}
		return true, ""
	case *ssa.Phi:
		for _, e := range x.Edges {
			if ok, why := requestOwned(p, e, at, depth+1); !ok {
				return false, why
			}
		}
		return true, ""
	case *ssa.Extract:
		if call, ok := x.Tuple.(*ssa.Call); ok && calleeName(&call.Call) == "getRequest" && x.Index == 0 {
			return true, ""
		}
	}
	// a request created here: entered into the table before `at`, or closed after it on every path
	for _, in := range findInstrs(fn, func(in ssa.Instruction) bool {
		cc := callOf(in)
		if cc == nil || calleeName(cc) != "nextRequest" {
			return false
		}
		for _, a := range cc.Args {
			if isReq(a) {
				return true
			}
		}
		return false
	}) {
		if dominates(in, at) {
			return true, ""
		}
	}
	isCloseOfReq := func(in ssa.Instruction) bool {
		cc := callOf(in)
		if cc == nil || calleeName(cc) != "close" {
			return false
		}
		r := recvOf(cc)
		return r != nil && isReq(r)
	}
	if _, isCall := at.(ssa.CallInstruction); isCall {
		if !reachAvoiding(fn, at, func(in ssa.Instruction) bool {
			// leaving the iteration without the close: a return, or the request variable's next use in the loop
			if isReturn(in) {
				return true
			}
			cc := callOf(in)
			return cc != nil && calleeName(cc) == "readyPacket"
		}, isCloseOfReq) {
			return true, ""
		}
	}
	return false, "the Request at " + p.Pos(at.Pos()) + " in " + fnName(fn) + " is neither in the handle table nor closed by its creator"
}

// checkCloseIsBarrier (C11.R10): the dispatcher hands reads and writes to parallel workers.  A read or write that
// arrives after a CLOSE of its handle must find the handle gone, so the dispatcher has to wait for the CLOSE itself
// (not only for the requests before it, which is C14) before it takes the next packet: on every path from the
// hand-off of a CLOSE to the next receive there is a working.Wait().
func checkCloseIsBarrier(c *Ctx, rule string) {
	p := c.P
	d := getDispatcher(c, rule)
	if d == nil || d.pktVal == nil {
		return
	}
	cl := p.NamedType(p.Sftp, "sshFxpClosePacket")
	if cl == nil {
		c.missing(rule, "sshFxpClosePacket")
		return
	}
	head := switchHead(d.disp, d.pktVal)
	body, isDefault, _ := simulate(head, newPtr(cl))
	if body == nil || isDefault {
		c.bad(rule, "CLOSE is a barrier for what follows it", p.Pos(d.disp.Pos()), "the dispatcher has no case for CLOSE")
		return
	}
	loops := rangeChanLoops(d.disp)
	if len(loops) != 1 {
		c.und(rule, "CLOSE is a barrier for what follows it", p.Pos(d.disp.Pos()), "dispatcher loop not found")
		return
	}
	l := loops[0]
	isHead := isLoopHeadStart(l)
	isWait := func(in ssa.Instruction) bool {
		cc := callOf(in)
		return cc != nil && isWGCall(cc, "Wait")
	}
	n := 0
	good := true
	var where ssa.Instruction
	for _, s := range d.sends {
		s := s
		if !reachFromBlock(body, func(in ssa.Instruction) bool { return in == ssa.Instruction(s) }, isHead) {
			continue
		}
		n++
		if reachAvoiding(d.disp, s, isHead, isWait) {
			good = false
			where = s
		}
	}
	if n == 0 {
		c.bad(rule, "CLOSE is a barrier for what follows it", p.Pos(body.Instrs[0].Pos()), "a CLOSE is never handed to a worker")
		return
	}
	pos := p.Pos(body.Instrs[0].Pos())
	if where != nil {
		pos = p.Pos(where.Pos())
	}
	c.check(good, rule, "CLOSE is a barrier for what follows it", pos, "working.Wait() between the hand-off of a CLOSE and the next packet",
		"after handing a CLOSE to the command worker the dispatcher goes on: a READ or WRITE of the same handle sent right after the CLOSE runs on a parallel worker while (or before) the handle is closed — it is served although the CLOSE was acknowledged, and can touch the closed object")
}

// checkContextCancelledBeforeJoin (C11.R11): the context given to the handlers ends with the session.  Handlers may
// block on it, and Serve joins the workers that run them, so the cancellation must come before the join — a deferred
// cancel alone runs only after wg.Wait() has returned.
func checkContextCancelledBeforeJoin(c *Ctx, rule string) {
	p := c.P
	fn := p.Func("(*RequestServer).Serve")
	if fn == nil {
		c.missing(rule, "(*RequestServer).Serve")
		return
	}
	var cancelV ssa.Value
	eachInstr(fn, func(in ssa.Instruction) {
		if call, ok := in.(*ssa.Call); ok && callIs(&call.Call, "context.WithCancel") {
			for _, r := range *call.Referrers() {
				if ex, ok := r.(*ssa.Extract); ok && ex.Index == 1 {
					cancelV = ex
				}
			}
		}
	})
	if cancelV == nil {
		c.und(rule, "session context", p.Pos(fn.Pos()), "Serve does not create a cancellable context")
		return
	}
	isCancel := func(in ssa.Instruction) bool {
		call, ok := in.(*ssa.Call)
		if !ok {
			return false
		}
		for _, l := range leavesOf(call.Call.Value) {
			if l.V == cancelV {
				return true
			}
		}
		return call.Call.Value == cancelV
	}
	n := 0
	eachInstr(fn, func(in ssa.Instruction) {
		cc := callOf(in)
		if cc == nil || !isWGCall(cc, "Wait") {
			return
		}
		if _, plain := in.(*ssa.Call); !plain {
			return
		}
		n++
		before := !reachAvoiding(fn, nil, func(x ssa.Instruction) bool { return x == in }, isCancel)
		c.check(before, rule, "context cancelled before the workers are joined", p.Pos(in.Pos()), "cancel() on every path to wg.Wait()",
			"the session context is cancelled only by the deferred call, after wg.Wait(): a handler that waits on Request.Context() (documented to end when the connection closes) is never released and Serve blocks in the join")
	})
	c.check(n == 1, rule, "RequestServer.Serve join", p.Pos(fn.Pos()), "one wg.Wait()", fmt.Sprintf("%d wg.Wait() calls", n))
}
