package main

import (
	"fmt"
	"strings"
	"go/types"

	"golang.org/x/tools/go/ssa"
)

// Rules added after seed round 8 (DESIGN.md section 25).

// checkNextIDReturnsTheCounter (C03.R11): the id a request gets is the value the atomic increment produced — every
// result of nextID is that call's result.  An id "corrected" afterwards (0 skipped by returning 1 without advancing the
// counter) is handed out twice: the second request replaces the first one's in-flight entry and one caller waits for
// ever or gets the other's reply.
func checkNextIDReturnsTheCounter(c *Ctx, rule string) {
	p := c.P
	fn := p.Func("(*Client).nextID")
	if fn == nil {
		c.missing(rule, "(*Client).nextID")
		return
	}
	c.looked(fnName(fn))
	n := 0
	for _, lf := range returnLeavesDeep(fn, 0) {
		n++
		call, ok := lf.v.(*ssa.Call)
		good := ok && (callIs(&call.Call, "sync/atomic.AddUint32") || methodCallOn(&call.Call, "sync/atomic", "Uint32", "Add"))
		c.check(good, rule, fmt.Sprintf("result #%d of nextID", n), p.Pos(fn.Pos()), "the value the atomic increment returned",
			"nextID can return something else than what the atomic increment of the counter produced ("+lf.v.String()+"): that id is not unique among the requests in flight")
	}
	c.floor(rule, 1)
}

// checkSlotClearedAfterFetch (C11.R22): in Request.close a slot of the request's state is cleared only behind the
// fetch of the object to close: cleared first, the object is never closed — neither by CLOSE nor by the end-of-session
// sweep.  A clearing is a setter of the state called with nil or a nil store to an interface field of the state; a
// fetch is a getter of the state or a load of such a field; the rule asks that behind a clearing no fetch of the same
// field is reachable.
func checkSlotClearedAfterFetch(c *Ctx, rule string) {
	p := c.P
	fn := p.Func("(*Request).close")
	if fn == nil {
		c.missing(rule, "(*Request).close")
		return
	}
	c.looked(fnName(fn))
	isIface := func(t types.Type) bool { _, ok := t.Underlying().(*types.Interface); return ok }
	stateField := func(addr ssa.Value) string {
		t, name, _, ok := fieldOf(addr)
		if !ok || typeName(t) != "state" {
			return ""
		}
		if st := derefStruct(t); st != nil {
			for i := 0; i < st.NumFields(); i++ {
				if st.Field(i).Name() == name && isIface(st.Field(i).Type()) && !isErrorType(st.Field(i).Type()) {
					return name
				}
			}
		}
		return ""
	}
	// fields of the state a function (and what it calls, two levels) loads or sets to nil
	var touched func(f *ssa.Function, clear bool, d int, out map[string]bool)
	touched = func(f *ssa.Function, clear bool, d int, out map[string]bool) {
		if f == nil || d > 2 || !inModule(f) {
			return
		}
		eachInstr(f, func(in ssa.Instruction) {
			switch x := in.(type) {
			case *ssa.Store:
				if clear {
					if n := stateField(x.Addr); n != "" {
						out[n] = true
					}
				}
			case *ssa.UnOp:
				if !clear {
					if n := stateField(x.X); n != "" {
						out[n] = true
					}
				}
			}
			if cc := callOf(in); cc != nil && cc.StaticCallee() != nil {
				touched(cc.StaticCallee(), clear, d+1, out)
			}
		})
	}
	type ev struct {
		in     ssa.Instruction
		fields map[string]bool
	}
	var clears, fetches []ev
	eachInstr(fn, func(in ssa.Instruction) {
		switch x := in.(type) {
		case *ssa.Store:
			if n := stateField(x.Addr); n != "" && isNilConst(x.Val) {
				clears = append(clears, ev{in, map[string]bool{n: true}})
			}
		case *ssa.UnOp:
			if n := stateField(x.X); n != "" {
				fetches = append(fetches, ev{in, map[string]bool{n: true}})
			}
		}
		cc := callOf(in)
		if cc == nil || cc.StaticCallee() == nil || !inModule(cc.StaticCallee()) {
			return
		}
		if _, isDefer := in.(*ssa.Defer); isDefer {
			return
		}
		f := cc.StaticCallee()
		args := argsOf(cc)
		if len(args) == 1 && isNilConst(args[0]) && isIface(args[0].Type()) {
			m := map[string]bool{}
			touched(f, true, 0, m)
			if len(m) > 0 {
				clears = append(clears, ev{in, m})
			}
			return
		}
		if f.Signature.Params().Len() == 0 && f.Signature.Results().Len() > 0 {
			all := true
			for i := 0; i < f.Signature.Results().Len(); i++ {
				if !isIface(f.Signature.Results().At(i).Type()) || isErrorType(f.Signature.Results().At(i).Type()) {
					all = false
				}
			}
			if all {
				m := map[string]bool{}
				touched(f, false, 0, m)
				if len(m) > 0 {
					fetches = append(fetches, ev{in, m})
				}
			}
		}
	})
	for _, cl := range clears {
		early := false
		for _, ft := range fetches {
			same := false
			for n := range cl.fields {
				if ft.fields[n] {
					same = true
				}
			}
			if same && ft.in != cl.in && reachAvoiding(fn, cl.in, func(x ssa.Instruction) bool { return x == ft.in }, nil) {
				early = true
			}
		}
		c.check(!early, rule, "slot cleared in Request.close", p.Pos(cl.in.Pos()),
			"no fetch of the cleared slot is reachable behind the clearing",
			"a slot of the request's state is cleared before the object in it is fetched for closing: that object is never closed")
	}
	c.okT(rule, "Request.close examined", p.Pos(fn.Pos()), fmt.Sprintf("%d clearings, %d fetches", len(clears), len(fetches)))
	c.floor(rule, 1)
}

// checkCloserClearsItsSlot (C11.R23): a method of the request's state that calls Close on the object of one of its
// slots clears that slot on every path from the Close to its return, and does both under the state's mutex: a slot
// left filled is closed again by the next close (CLOSE after a failed READDIR, the end-of-session sweep) and used
// after Close by the next request on the handle.
func checkCloserClearsItsSlot(c *Ctx, rule string) {
	p := c.P
	n := 0
	for _, fn := range p.LibFuncs() {
		if outermost(fn) != fn || fn.Signature.Recv() == nil || fn.Package() != p.Sftp || typeName(fn.Signature.Recv().Type()) != "state" {
			continue
		}
		for _, in := range findInstrs(fn, func(in ssa.Instruction) bool {
			cc := callOf(in)
			return cc != nil && cc.IsInvoke() && cc.Method.Name() == "Close"
		}) {
			n++
			c.looked(fnName(fn))
			isClear := func(x ssa.Instruction) bool {
				st, ok := x.(*ssa.Store)
				if !ok || !isNilConst(st.Val) {
					return false
				}
				t, _, _, ok := fieldOf(st.Addr)
				return ok && typeName(t) == "state"
			}
			cleared := alwaysAfter(fn, in, isClear)
			locked := len(fn.Params) > 0 && heldAt(in, fn.Params[0], "state.mu") == "Lock"
			c.check(cleared, rule, "Close in "+fnName(fn)+" is followed by clearing the slot", p.Pos(in.Pos()),
				"a nil store to a field of the state follows on every path",
				"the object of a state slot is closed and the slot is left filled on some path: the next close (or the next request on the handle) meets an object that is already closed")
			c.check(locked, rule, "Close in "+fnName(fn)+" under the state's mutex", p.Pos(in.Pos()),
				"closed and cleared in one critical section",
				"the object of a state slot is closed without the state's write lock: two closers can both see it filled and close it twice")
		}
	}
	c.floor(rule, 2)
}

// checkStringsEncodedVerbatim (C06.R21, shared as C16.R22): the encoders put the strings they are given on the wire as
// they are.  A string argument of marshalString (or the filexfer Buffer's AppendString) is not the result of a
// transformation from strings, bytes, unicode or unicode/utf8: file names are byte strings — "repaired" on the way out,
// two distinct names can become one and a listing then holds one entry twice and another not at all.
func checkStringsEncodedVerbatim(c *Ctx, rule string) {
	p := c.P
	n := 0
	transforming := map[string]bool{"strings": true, "bytes": true, "unicode": true, "unicode/utf8": true, "unicode/utf16": true}
	var bad func(v ssa.Value, d int) string
	bad = func(v ssa.Value, d int) string {
		if d > 4 {
			return ""
		}
		switch x := v.(type) {
		case *ssa.Call:
			if f := calleeFunc(&x.Call); f != nil && f.Pkg() != nil && transforming[f.Pkg().Path()] {
				return f.Pkg().Path() + "." + f.Name()
			}
		case *ssa.Phi:
			for _, e := range x.Edges {
				if w := bad(e, d+1); w != "" {
					return w
				}
			}
		case *ssa.Convert:
			return bad(x.X, d+1)
		case *ssa.ChangeType:
			return bad(x.X, d+1)
		}
		return ""
	}
	for _, fn := range p.LibFuncs() {
		eachInstr(fn, func(in ssa.Instruction) {
			cc := callOf(in)
			if cc == nil {
				return
			}
			f := cc.StaticCallee()
			if f == nil || !inModule(f) {
				return
			}
			if f.Name() != "marshalString" && f.Name() != "AppendString" {
				return
			}
			for _, a := range cc.Args {
				if b, ok := a.Type().Underlying().(*types.Basic); ok && b.Kind() == types.String {
					n++
					w := bad(a, 0)
					c.check(w == "", rule, fmt.Sprintf("string encoded by %s in %s", f.Name(), fnName(fn)), p.Pos(in.Pos()),
						"the string is encoded as given",
						"the string put on the wire is the result of "+w+", not the value the packet holds: the encoding is no longer lossless (distinct names can collapse into one)")
				}
			}
		})
	}
	c.floor(rule, 20)
}

// checkReceivePathDoesNotClose (C02.R16): nothing reachable from the frame reader closes the connection.  The writer is
// shared with the goroutine that sends the replies: closed on a framing error, the requests that were received whole
// before the torn one and are still being served lose their replies.  Closing is Serve's business, after the workers
// were joined.
func checkReceivePathDoesNotClose(c *Ctx, rule string) {
	p := c.P
	rp := p.Func("(*conn).recvPacket")
	cl := p.Func("(*conn).Close")
	if rp == nil || cl == nil {
		c.missing(rule, "(*conn).recvPacket / (*conn).Close")
		return
	}
	c.looked(fnName(rp))
	n := 0
	for fn := range p.cone(rp) {
		if !inModule(fn) {
			continue
		}
		n++
		var sites []ssa.Instruction
		eachInstr(fn, func(in ssa.Instruction) {
			cc := callOf(in)
			if cc == nil {
				return
			}
			if cc.StaticCallee() == cl {
				sites = append(sites, in)
				return
			}
			if cc.IsInvoke() && cc.Method.Name() == "Close" {
				if root, _ := accessPath(cc.Value); root != nil && typeName(root.Type()) == "conn" {
					sites = append(sites, in)
				}
			}
		})
		pos := p.Pos(fn.Pos())
		if len(sites) > 0 {
			pos = p.Pos(sites[0].Pos())
		}
		c.check(len(sites) == 0, rule, "no Close of the connection in "+fnName(fn), pos,
			"the receive path leaves the connection open",
			"the connection is closed from the receive path: replies to requests already received and still being served can no longer be written")
	}
	c.floor(rule, 2)
}

// checkReplyEncodersDoNotRefuse (C02.R17): the encoder of a reply does not invent an error.  Whatever a marshalPacket /
// MarshalBinary method of a response type returns as its error is nil or the error of a call it made; a reply refused
// by its own encoder (too long, say) is dropped by the sender, and its request is never answered while the ones behind
// it are.
func checkReplyEncodersDoNotRefuse(c *Ctx, rule string) {
	p := c.P
	n := 0
	for _, fn := range p.LibFuncs() {
		if outermost(fn) != fn || fn.Signature.Recv() == nil || fn.Package() != p.Sftp {
			continue
		}
		if fn.Name() != "marshalPacket" && fn.Name() != "MarshalBinary" {
			continue
		}
		if !p.implementsIface(fn.Signature.Recv().Type(), "responsePacket") || p.implementsIface(fn.Signature.Recv().Type(), "requestPacket") {
			continue
		}
		res := fn.Signature.Results()
		ei := res.Len() - 1
		if ei < 0 || !isErrorType(res.At(ei).Type()) {
			continue
		}
		n++
		bad := ""
		for _, lf := range returnLeavesDeep(fn, ei) {
			switch x := lf.v.(type) {
			case *ssa.Const:
				continue
			case *ssa.Extract:
				continue
			case *ssa.Call:
				continue
			default:
				bad = x.String()
			}
		}
		c.check(bad == "", rule, "error results of "+fnName(fn), p.Pos(fn.Pos()), "nil, or the error of a call",
			"the encoder of a reply returns an error of its own making ("+bad+"): the sender drops the reply and the request is never answered")
	}
	c.floor(rule, 8)
}

// checkConnSendReturnsTheWritersError (C13.R24, shared as C04.R17): (*conn).sendPacket never hands out the latched
// transport error as it is.  The framing function wraps what the writer reports; a short cut that returns the latch
// field bare hands an io.EOF from the transport to ReadAt and WriteTo, which take it for the end of the file: a
// transfer cut by a lost connection reports a short count with a nil error.  Decided on the results: no result of
// (*conn).sendPacket is the load of an error-typed field of the connection.
func checkConnSendReturnsTheWritersError(c *Ctx, rule string) {
	p := c.P
	fn := p.Func("(*conn).sendPacket")
	if fn == nil {
		c.missing(rule, "(*conn).sendPacket")
		return
	}
	c.looked(fnName(fn))
	n := 0
	for _, lf := range returnLeavesDeep(fn, 0) {
		n++
		bare := ""
		if u, ok := lf.v.(*ssa.UnOp); ok {
			if t, name, _, ok := fieldOf(u.X); ok && isErrorType(u.Type()) {
				bare = typeName(t) + "." + name
			}
		}
		c.check(bare == "", rule, fmt.Sprintf("result #%d of (*conn).sendPacket", n), p.Pos(fn.Pos()), "not the latch field itself",
			"(*conn).sendPacket returns the latched transport error "+bare+" as it is: an io.EOF from the transport is taken for the end of the file by the transfer loops")
	}
	c.floor(rule, 1)
}

// checkAllocatorLeavesPagesAlone (C18.R12): the allocator manages pages, it never writes into one.  A page lent out
// may still be read by the goroutine that writes its reply when the session ends: a method of the allocator that
// clears or overwrites page bytes (at Free, say) changes replies that are on their way.
func checkAllocatorLeavesPagesAlone(c *Ctx, rule string) {
	p := c.P
	n := 0
	isBytes := func(t types.Type) bool {
		sl, ok := t.Underlying().(*types.Slice)
		if !ok {
			return false
		}
		b, ok := sl.Elem().Underlying().(*types.Basic)
		return ok && b.Kind() == types.Byte
	}
	for _, fn := range p.LibFuncs() {
		o := outermost(fn)
		if o.Signature.Recv() == nil || typeName(o.Signature.Recv().Type()) != "allocator" || o.Package() != p.Sftp {
			continue
		}
		n++
		c.looked(fnName(fn))
		bad, pos := "", p.Pos(fn.Pos())
		eachInstr(fn, func(in ssa.Instruction) {
			switch x := in.(type) {
			case *ssa.Call:
				switch builtinName(&x.Call) {
				case "clear":
					if len(x.Call.Args) == 1 && isBytes(x.Call.Args[0].Type()) {
						bad, pos = "clear of a page", p.Pos(in.Pos())
					}
				case "copy":
					if len(x.Call.Args) == 2 && isBytes(x.Call.Args[0].Type()) {
						bad, pos = "copy into a page", p.Pos(in.Pos())
					}
				}
			case *ssa.Store:
				if ia, ok := x.Addr.(*ssa.IndexAddr); ok && isBytes(ia.X.Type()) {
					bad, pos = "store into a page", p.Pos(in.Pos())
				}
			}
		})
		c.check(bad == "", rule, "page bytes untouched by "+fnName(fn), pos, "no write into page contents",
			"a method of the allocator writes into page contents ("+bad+"): a page may still be read by the sender of its reply")
	}
	c.floor(rule, 4)
}

// checkRepliesAreFresh (C02.R18, shared as C09.R9): a reply is an object of its own.  No function that produces a
// reply packet returns a package-level object: two requests answered with the same object before either reply is
// written carry the id that was stored last — one request is answered twice, the other never (the refusals of a
// read-only server, pipelined).
func checkRepliesAreFresh(c *Ctx, rule string) {
	p := c.P
	n := 0
	var fromGlobal func(v ssa.Value, d int) *ssa.Global
	fromGlobal = func(v ssa.Value, d int) *ssa.Global {
		if d > 5 {
			return nil
		}
		switch x := v.(type) {
		case *ssa.Global:
			return x
		case *ssa.UnOp:
			return fromGlobal(x.X, d+1)
		case *ssa.MakeInterface:
			return fromGlobal(x.X, d+1)
		case *ssa.ChangeInterface:
			return fromGlobal(x.X, d+1)
		case *ssa.FieldAddr:
			return fromGlobal(x.X, d+1)
		case *ssa.Phi:
			for _, e := range x.Edges {
				if g := fromGlobal(e, d+1); g != nil {
					return g
				}
			}
		}
		return nil
	}
	for _, fn := range p.LibFuncs() {
		if outermost(fn).Package() != p.Sftp || len(fn.Blocks) == 0 {
			continue
		}
		res := fn.Signature.Results()
		for i := 0; i < res.Len(); i++ {
			t := res.At(i).Type()
			if typeName(t) != "responsePacket" {
				if _, isPtr := t.Underlying().(*types.Pointer); !isPtr || !p.implementsIface(t, "responsePacket") || p.implementsIface(t, "requestPacket") {
					continue
				}
			}
			n++
			var g *ssa.Global
			for _, lf := range returnLeavesDeep(fn, i) {
				if x := fromGlobal(lf.v, 0); x != nil {
					g = x
				}
			}
			what := ""
			if g != nil {
				what = g.Name()
			}
			c.check(g == nil, rule, "replies returned by "+fnName(fn), p.Pos(fn.Pos()), "made for the request",
				"a reply returned here is the package-level object "+what+": shared by all requests, it carries the id stored last when it is written")
		}
	}
	c.floor(rule, 20)
}

// checkOptionErrorRefusesConstruction (C09.R10): NewServer applies its options in order and an option that fails makes
// the construction fail.  Behind the non-nil side of an option's error no return with a nil error is reachable:
// a constructor that carries on drops the options behind the failing one — ReadOnly() among them — and hands out a
// writable server.
func checkOptionErrorRefusesConstruction(c *Ctx, rule string) {
	p := c.P
	fn := p.Func("NewServer")
	if fn == nil {
		c.missing(rule, "NewServer")
		return
	}
	c.looked(fnName(fn))
	n := 0
	for _, in := range findInstrs(fn, func(in ssa.Instruction) bool {
		call, ok := in.(*ssa.Call)
		if !ok || call.Call.IsInvoke() || call.Call.StaticCallee() != nil {
			return false
		}
		return typeName(call.Call.Value.Type()) == "ServerOption" && isErrorType(call.Type())
	}) {
		call := in.(*ssa.Call)
		n++
		tests := nilTests(call)
		okReturn := func(x ssa.Instruction) bool {
			r, ok := x.(*ssa.Return)
			return ok && len(r.Results) == 2 && isNilConst(r.Results[1])
		}
		bad := len(tests) == 0
		for _, t := range tests {
			if reachFromNilSide(t, true, okReturn, nil) {
				bad = true
			}
		}
		c.check(!bad, rule, "an option's error ends NewServer", p.Pos(in.Pos()), "no successful return behind a failed option",
			"behind an option that returned an error NewServer can still return a server with a nil error: the options behind the failing one (ReadOnly among them) are not applied and nobody is told")
	}
	c.floor(rule, 1)
}

// checkOnlyEOFEndsListing (C16.R23, shared as C05.R18): the only error ReadDir turns into success is io.EOF.  Every
// way the error result of ReadDirContext becomes the nil constant behind the listing loop is selected by a comparison
// with io.EOF (== or errors.Is) found true.  Any other error mapped to nil — a directory removed while it is read
// answers NO_SUCH_FILE — makes a failed listing look like a complete, shorter one.
func checkOnlyEOFEndsListing(c *Ctx, rule string) {
	p := c.P
	fn := p.Func("(*Client).ReadDirContext")
	if fn == nil {
		c.missing(rule, "(*Client).ReadDirContext")
		return
	}
	c.looked(fnName(fn))
	isEOF := func(v ssa.Value) bool {
		u, ok := v.(*ssa.UnOp)
		if !ok {
			return false
		}
		g, ok := u.X.(*ssa.Global)
		return ok && g.Name() == "EOF" && g.Pkg != nil && g.Pkg.Pkg.Path() == "io"
	}
	n := 0
	for _, lf := range returnLeavesDeep(fn, 1) {
		if !isNilConst(lf.v) || lf.pred == nil {
			continue
		}
		// the nil a loop-carried variable starts with is not an error turned into success
		if innermostLoop(loopsOf(fn), lf.block) != nil {
			continue
		}
		n++
		good := false
		for cond, val := range edgeConds(lf.block, lf.pred) {
			if !val {
				continue
			}
			switch x := cond.(type) {
			case *ssa.BinOp:
				if x.Op.String() == "==" && (isEOF(x.X) || isEOF(x.Y)) {
					good = true
				}
			case *ssa.Call:
				if callIs(&x.Call, "errors.Is") && len(x.Call.Args) == 2 && isEOF(x.Call.Args[1]) {
					good = true
				}
			}
		}
		c.check(good, rule, fmt.Sprintf("nil error of ReadDirContext, way #%d", n), p.Pos(fn.Pos()),
			"selected by a comparison with io.EOF",
			"the error of the listing is replaced by nil on a way that is not selected by a comparison with io.EOF: a listing that failed is reported as complete")
	}
	c.floor(rule, 1)
}

// checkClosedLatchReadOnlyByTheConnection (C04.R18): the connection's `closed` latch is received from only by methods
// of clientConn (Wait, and the guard in front of the in-flight table).  A transfer or a Close that peeks at the latch to
// skip its request leaves the protocol it is part of: a slicer that stops silently never produces the error chunk its
// reducer waits for, a Close that returns nil reports success for data that never arrived.  Every call after the loss
// has to go through the request path, which fails it.
func checkClosedLatchReadOnlyByTheConnection(c *Ctx, rule string) {
	p := c.P
	n := 0
	isLatch := func(v ssa.Value) bool {
		u, ok := v.(*ssa.UnOp)
		if !ok {
			return false
		}
		t, name, _, ok := fieldOf(u.X)
		if !ok || typeName(t) != "clientConn" {
			return false
		}
		_, isChan := u.Type().Underlying().(*types.Chan)
		return isChan && name != "" && (name == "closed" || u.Type().Underlying().(*types.Chan).Elem().String() == "struct{}")
	}
	for _, fn := range p.LibFuncs() {
		if outermost(fn).Package() != p.Sftp {
			continue
		}
		eachInstr(fn, func(in ssa.Instruction) {
			var chans []ssa.Value
			switch x := in.(type) {
			case *ssa.UnOp:
				if x.Op.String() == "<-" {
					chans = append(chans, x.X)
				}
			case *ssa.Select:
				for _, st := range x.States {
					if st.Dir == types.RecvOnly {
						chans = append(chans, st.Chan)
					}
				}
			}
			for _, ch := range chans {
				if !isLatch(ch) {
					continue
				}
				n++
				o := outermost(fn)
				own := o.Signature.Recv() != nil && typeName(o.Signature.Recv().Type()) == "clientConn"
				c.check(own, rule, "receive from the connection's closed latch in "+fnName(fn), p.Pos(in.Pos()),
					"inside a method of clientConn",
					"the connection's closed latch is read outside clientConn: a call that skips its request because the connection is gone neither fails nor completes the protocol it is part of (a waiting reducer hangs, a Close reports success)")
			}
		})
	}
	c.floor(rule, 2)
}

// checkCommaOkPointerUsedUnderOk (C20.Z16, shared as C07.R25): the pointer a comma-ok type assertion yields is nil when
// the assertion fails.  Every dereference of it (field access, method call on it) is dominated by the true side of a
// test of the ok value or the non-nil side of a test of the pointer — otherwise an error of another dynamic type (a
// truncated STATUS gives errShortPacket, a normalised one os.ErrNotExist) makes the caller panic with a nil dereference.
func checkCommaOkPointerUsedUnderOk(c *Ctx, rule string, want func(fn *ssa.Function) bool, floor int) {
	p := c.P
	n := 0
	for _, fn := range p.LibFuncs() {
		if outermost(fn).Package() != p.Sftp || (want != nil && !want(fn)) {
			continue
		}
		eachInstr(fn, func(in ssa.Instruction) {
			ta, ok := in.(*ssa.TypeAssert)
			if !ok || !ta.CommaOk {
				return
			}
			if _, isPtr := ta.AssertedType.Underlying().(*types.Pointer); !isPtr {
				return
			}
			var val, okv ssa.Value
			for _, r := range *ta.Referrers() {
				if ex, isEx := r.(*ssa.Extract); isEx {
					if ex.Index == 0 {
						val = ex
					} else {
						okv = ex
					}
				}
			}
			if val == nil {
				return
			}
			// blocks in which the pointer is known to be non-nil
			var safe []*ssa.BasicBlock
			if okv != nil {
				for _, r := range *okv.Referrers() {
					if iff, isIf := r.(*ssa.If); isIf && len(iff.Block().Succs) == 2 {
						safe = append(safe, iff.Block().Succs[0])
					}
					// `ok && …`: the right operand is evaluated on the true edge; handled by the If on ok itself
				}
			}
			for _, t := range nilTests(val) {
				safe = append(safe, t.nonNil)
			}
			guarded := func(b *ssa.BasicBlock) bool {
				for _, s := range safe {
					if len(s.Preds) == 1 && s.Dominates(b) {
						return true
					}
				}
				return false
			}
			for _, r := range *val.Referrers() {
				deref := false
				switch x := r.(type) {
				case *ssa.FieldAddr:
					deref = x.X == val
				case *ssa.UnOp:
					deref = x.X == val && x.Op.String() == "*"
				}
				if !deref {
					continue
				}
				n++
				c.check(guarded(r.Block()), rule, fmt.Sprintf("use of the pointer of a comma-ok assertion to %s in %s", typeName(ta.AssertedType), fnName(fn)), p.Pos(r.Pos()),
					"under the ok test",
					"the pointer of a comma-ok type assertion is dereferenced where the assertion may have failed (it is nil then): an error of another dynamic type panics the caller")
			}
		})
	}
	c.floor(rule, floor)
}

// checkRepliesHoldNoPooledMemory (C16.R24, shared as C02.R21): a function that builds a reply does not give memory back
// to a sync.Pool.  The reply is encoded and written later, by the packet manager's sender: memory handed back when the
// builder returns is taken by the next request while the first reply still points at it — two listings running side by
// side receive each other's entries.
func checkRepliesHoldNoPooledMemory(c *Ctx, rule string) {
	p := c.P
	n := 0
	for _, fn := range p.LibFuncs() {
		o := outermost(fn)
		if o.Package() != p.Sftp || isClientSide(fn) {
			continue
		}
		builds := false
		res := o.Signature.Results()
		for i := 0; i < res.Len(); i++ {
			t := res.At(i).Type()
			if typeName(t) == "responsePacket" {
				builds = true
			} else if _, isPtr := t.Underlying().(*types.Pointer); isPtr && p.implementsIface(t, "responsePacket") && !p.implementsIface(t, "requestPacket") {
				builds = true
			}
		}
		if !builds {
			continue
		}
		n++
		var put ssa.Instruction
		eachInstr(fn, func(in ssa.Instruction) {
			if cc := callOf(in); cc != nil && methodCallOn(cc, "sync", "Pool", "Put") {
				put = in
			}
		})
		pos := p.Pos(fn.Pos())
		if put != nil {
			pos = p.Pos(put.Pos())
		}
		c.check(put == nil, rule, "no sync.Pool.Put in "+fnName(fn), pos, "the builder of a reply recycles nothing",
			"a function that builds a reply hands memory back to a sync.Pool: the reply is encoded and written after the function has returned, from memory the next request may already have taken")
	}
	c.floor(rule, 20)
}

// ---- rules added after the short ninth round (faults at a point; DESIGN.md section 27) ----

// checkCloseReportsFailure (C04.R19, C10.R20, C11.R25): a function that closes something on behalf of a caller (its name
// says close, it returns an error) does not turn a failure it has seen into success.  From a point where an error
// obtained in the function is known to be non-nil — the non-nil side of a nil test, the true side of a comparison with a
// sentinel (== or errors.Is) — no return with the nil constant as its error is reachable.  io.EOF is not a failure.
func checkCloseReportsFailure(c *Ctx, rule string, want func(fn *ssa.Function) bool, floor int) {
	checkNoNilBehindFailure(c, rule, func(fn *ssa.Function) bool {
		return strings.Contains(strings.ToLower(fn.Name()), "close") && (want == nil || want(fn))
	}, floor, "a failure seen by %s is reported",
		"behind an error that is known to be non-nil this function can return nil: a close that failed (the connection was lost, the handler's Close reported an error) is reported as a success")
}

// checkRefusedWriteNotCounted (C15.R15): the same for the functions that send a WRITE and
// return (count, error): behind a STATUS that decoded to a non-nil error — whichever, SSH_FX_EOF included — no return
// with a nil error is reachable.  A write the server refused and the client counts as done is a stale read for the
// next reader and bytes missing from the file for the caller.
func checkRefusedWriteNotCounted(c *Ctx, rule string) {
	checkNoNilBehindFailure(c, rule, func(fn *ssa.Function) bool {
		return isClientSide(fn) && len(literalsOf(fn, "sshFxpWritePacket")) > 0
	}, 1, "a refused WRITE is not counted by %s",
		"behind a reply that decoded to a non-nil error this function can return a nil error: a WRITE the server refused is counted as written")
}

func checkNoNilBehindFailure(c *Ctx, rule string, sel func(fn *ssa.Function) bool, floor int, keyFmt, badText string) {
	p := c.P
	n := 0
	isEOFv := func(v ssa.Value) bool {
		u, ok := v.(*ssa.UnOp)
		if !ok {
			return false
		}
		g, ok := u.X.(*ssa.Global)
		return ok && g.Name() == "EOF"
	}
	isSentinel := func(v ssa.Value) bool {
		if isEOFv(v) {
			return false
		}
		switch x := v.(type) {
		case *ssa.UnOp:
			_, ok := x.X.(*ssa.Global)
			return ok
		case *ssa.MakeInterface:
			_, ok := x.X.(*ssa.Const)
			return ok
		}
		return false
	}
	for _, fn := range p.LibFuncs() {
		if outermost(fn) != fn || fn.Package() != p.Sftp || len(fn.Blocks) == 0 {
			continue
		}
		res := fn.Signature.Results()
		if res.Len() == 0 || !isErrorType(res.At(res.Len()-1).Type()) || !sel(fn) {
			continue
		}
		ei := res.Len() - 1
		n++
		c.looked(fnName(fn))
		// results spilled to a local because the function defers: `*t0 = nil; rundefers; return *t0`
		spilled := map[ssa.Value]bool{}
		for _, ret := range findInstrs(fn, isReturn) {
			if r := ret.(*ssa.Return); len(r.Results) > ei {
				if u, ok := r.Results[ei].(*ssa.UnOp); ok {
					if a, ok := u.X.(*ssa.Alloc); ok {
						spilled[a] = true
					}
				}
			}
		}
		okReturn := func(x ssa.Instruction) bool {
			if st, ok := x.(*ssa.Store); ok {
				return spilled[st.Addr] && isNilConst(st.Val)
			}
			r, ok := x.(*ssa.Return)
			return ok && len(r.Results) > ei && isNilConst(r.Results[ei])
		}
		bad, pos := false, p.Pos(fn.Pos())
		eachInstr(fn, func(in ssa.Instruction) {
			v, isVal := in.(ssa.Value)
			if !isVal || !isErrorType(v.Type()) {
				return
			}
			switch in.(type) {
			case *ssa.Call, *ssa.Extract:
			default:
				return
			}
			for _, t := range nilTests(v) {
				if reachFromNilSide(t, true, okReturn, nil) {
					bad, pos = true, p.Pos(t.iff.Pos())
				}
			}
			if refs := v.Referrers(); refs != nil {
				for _, r := range *refs {
					var cond ssa.Value
					switch x := r.(type) {
					case *ssa.BinOp:
						if x.Op.String() == "==" && ((x.X == v && isSentinel(x.Y)) || (x.Y == v && isSentinel(x.X))) {
							cond = x
						}
					case *ssa.Call:
						if callIs(&x.Call, "errors.Is") && len(x.Call.Args) == 2 && x.Call.Args[0] == v && isSentinel(x.Call.Args[1]) {
							cond = x
						}
					}
					if cond == nil || cond.Referrers() == nil {
						continue
					}
					for _, rr := range *cond.Referrers() {
						if iff, ok := rr.(*ssa.If); ok && len(iff.Block().Succs) == 2 {
							if reachCore(iff.Block().Succs[0], 0, okReturn, nil) && len(iff.Block().Succs[0].Preds) == 1 {
								bad, pos = true, p.Pos(iff.Pos())
							}
						}
					}
				}
			}
		})
		c.check(!bad, rule, fmt.Sprintf(keyFmt, fnName(fn)), pos, "no nil return behind a non-nil error", badText)
	}
	c.floor(rule, floor)
}

// checkInserterInsertsOnEveryPath (C11.R26): a function that enters a Request into the handle table does so on every
// path to its return.  The caller has already decided to publish (the open produced a handle); an inserter that skips
// the entry under some condition (the context is already cancelled) leaves the object the handler returned outside the
// table, where neither CLOSE nor the end-of-session sweep finds it.
func checkInserterInsertsOnEveryPath(c *Ctx, rule string) {
	p := c.P
	n := 0
	for _, fn := range p.LibFuncs() {
		if outermost(fn) != fn || fn.Package() != p.Sftp {
			continue
		}
		isInsert := func(in ssa.Instruction) bool {
			mu, ok := in.(*ssa.MapUpdate)
			if !ok {
				return false
			}
			u, ok := mu.Map.(*ssa.UnOp)
			if !ok {
				return false
			}
			t, name, _, ok := fieldOf(u.X)
			if !ok {
				return false
			}
			tn := typeName(t)
			return (tn == "RequestServer" && name == "openRequests") || (tn == "Server" && name == "openFiles")
		}
		ins := findInstrs(fn, isInsert)
		if len(ins) == 0 {
			continue
		}
		n++
		c.looked(fnName(fn))
		all := true
		for _, ret := range findInstrs(fn, isReturn) {
			if !alwaysBefore(fn, ret, isInsert) {
				all = false
			}
		}
		c.check(all, rule, "the table entry is made on every path of "+fnName(fn), p.Pos(ins[0].Pos()), "every return is preceded by the entry",
			"a function that enters an object into the handle table can return without having done so: the object is then owned by nobody (never closed, never notified)")
	}
	c.floor(rule, 2)
}

// checkOneWrapperPerRequest (C10.R21): (*Request).call hands a request to one handler wrapper.  Behind the call of a
// wrapper (a function of the package that returns the reply) no second wrapper call is reachable: a request served a
// second time because of what the first handler answered invokes two handlers for one request, and the client gets the
// second one's answer instead of the first one's error.
func checkOneWrapperPerRequest(c *Ctx, rule string) {
	p := c.P
	fn := p.Func("(*Request).call")
	if fn == nil {
		c.missing(rule, "(*Request).call")
		return
	}
	c.looked(fnName(fn))
	isWrapper := func(in ssa.Instruction) bool {
		call, ok := in.(*ssa.Call)
		if !ok {
			return false
		}
		f := call.Call.StaticCallee()
		if f == nil || !inModule(f) || f.Signature.Results().Len() != 1 {
			return false
		}
		return typeName(f.Signature.Results().At(0).Type()) == "responsePacket"
	}
	n := 0
	for _, w := range findInstrs(fn, isWrapper) {
		n++
		again := reachAvoiding(fn, w, func(x ssa.Instruction) bool { return x != w && isWrapper(x) }, nil)
		c.check(!again, rule, "one handler wrapper per request: "+fnName(callOf(w).StaticCallee()), p.Pos(w.Pos()), "no second wrapper call behind it",
			"behind this handler wrapper a second one is reachable for the same request: two handlers are invoked for one request and the first one's answer is dropped")
	}
	c.floor(rule, 5)
}

// checkHandlersErrorIsTheOneReported (C10.R22): in the wrappers round the handlers' ReadAt/WriteAt/ListAt calls the error
// handed to statusFromError is the handler's own whenever it is non-nil.  Every way the argument gets its value is the
// handler's error, something computed from it, or a value selected where the handler's error was found nil.  An error of
// the library's own choosing put in its place (io.ErrShortWrite for a short count) hides permission, not-exist and
// status-code errors behind SSH_FX_FAILURE.
func checkHandlersErrorIsTheOneReported(c *Ctx, rule string) {
	p := c.P
	sfe := p.Func("statusFromError")
	if sfe == nil {
		c.missing(rule, "statusFromError")
		return
	}
	n := 0
	for _, fn := range p.LibFuncs() {
		if outermost(fn) != fn || fn.Package() != p.Sftp || isClientSide(fn) {
			continue
		}
		// the handler's error: the error result of an invoke of ReadAt/WriteAt/ListAt
		var herr ssa.Value
		eachInstr(fn, func(in ssa.Instruction) {
			call, ok := in.(*ssa.Call)
			if !ok || !call.Call.IsInvoke() {
				return
			}
			switch call.Call.Method.Name() {
			case "ReadAt", "WriteAt", "ListAt":
			default:
				return
			}
			for _, r := range *call.Referrers() {
				if ex, ok := r.(*ssa.Extract); ok && isErrorType(ex.Type()) {
					herr = ex
				}
			}
		})
		if herr == nil {
			continue
		}
		nilSide := map[*ssa.BasicBlock]bool{}
		for _, t := range nilTests(herr) {
			nilSide[t.isNil] = true
		}
		underNil := func(b *ssa.BasicBlock) bool {
			for s := range nilSide {
				if len(s.Preds) == 1 && (s == b || s.Dominates(b)) {
					return true
				}
			}
			return false
		}
		for _, site := range findInstrs(fn, func(in ssa.Instruction) bool {
			cc := callOf(in)
			return cc != nil && cc.StaticCallee() == sfe
		}) {
			args := callOf(site).Args
			if len(args) < 2 {
				continue
			}
			// only the calls behind the handler call
			if !reachAvoiding(fn, herr.(ssa.Instruction), func(x ssa.Instruction) bool { return x == site }, nil) {
				continue
			}
			n++
			bad := ""
			seen := map[ssa.Value]bool{}
			var walk func(v ssa.Value, b *ssa.BasicBlock, d int)
			walk = func(v ssa.Value, b *ssa.BasicBlock, d int) {
				if seen[v] || d > 6 {
					return
				}
				seen[v] = true
				if v == herr {
					return
				}
				switch x := v.(type) {
				case *ssa.Phi:
					for i, e := range x.Edges {
						walk(e, x.Block().Preds[i], d+1)
					}
					return
				case *ssa.Call:
					for _, a := range x.Call.Args {
						if a == herr {
							return
						}
					}
				}
				if b != nil && underNil(b) {
					return
				}
				// a value that comes in on a way that does not pass the handler's call stands for "no call was made"
				if b != nil && !blockReaches(herr.(ssa.Instruction).Block(), b) {
					return
				}
				bad = v.String()
			}
			// only an argument that can be the handler's error is in question: a join of it with something else
			hasHerr := false
			var has func(v ssa.Value, d int)
			hseen := map[ssa.Value]bool{}
			has = func(v ssa.Value, d int) {
				if hseen[v] || d > 6 {
					return
				}
				hseen[v] = true
				if v == herr {
					hasHerr = true
				}
				if ph, ok := v.(*ssa.Phi); ok {
					for _, e := range ph.Edges {
						has(e, d+1)
					}
				}
			}
			has(args[1], 0)
			if !hasHerr {
				n--
				continue
			}
			walk(args[1], site.Block(), 0)
			c.check(bad == "", rule, "error reported by "+fnName(fn)+" behind the handler's call", p.Pos(site.Pos()),
				"the handler's error, or a value chosen where it was nil",
				"the status is built from "+bad+" on a way on which the handler's own error may be non-nil: the handler's error is replaced by one of the library's choosing")
		}
	}
	c.floor(rule, 2)
}

// checkNoCloseBetweenEndOfInputAndJoin (C02.R22): when the receive loop of a Serve has ended and the request channel
// has been closed, the workers still hold requests that were received whole.  Until they have been joined (wg.Wait) the
// connection stays open: closed in between, those requests are served and their replies cannot be written.
func checkNoCloseBetweenEndOfInputAndJoin(c *Ctx, rule string) {
	p := c.P
	cl := p.Func("(*conn).Close")
	n := 0
	for _, name := range []string{"(*Server).Serve", "(*RequestServer).Serve"} {
		fn := p.Func(name)
		if fn == nil {
			c.missing(rule, name)
			continue
		}
		c.looked(name)
		isJoin := func(in ssa.Instruction) bool {
			cc := callOf(in)
			_, plain := in.(*ssa.Call)
			return plain && cc != nil && isWGCall(cc, "Wait")
		}
		isConnClose := func(in ssa.Instruction) bool {
			cc := callOf(in)
			if cc == nil {
				return false
			}
			if _, plain := in.(*ssa.Call); !plain {
				return false
			}
			return cl != nil && cc.StaticCallee() == cl
		}
		for _, in := range findInstrs(fn, func(in ssa.Instruction) bool {
			call, ok := in.(*ssa.Call)
			if !ok || builtinName(&call.Call) != "close" || len(call.Call.Args) != 1 {
				return false
			}
			ch, ok := call.Call.Args[0].Type().Underlying().(*types.Chan)
			return ok && typeName(ch.Elem()) == "orderedRequest"
		}) {
			n++
			early := reachAvoiding(fn, in, isConnClose, isJoin)
			c.check(!early, rule, "no Close of the connection between the end of input and the join in "+name, p.Pos(in.Pos()),
				"the workers are joined first",
				"the connection can be closed after the request channel was closed and before the workers were joined: requests received whole are served and their replies cannot be written")
		}
	}
	c.floor(rule, 1)
}
