package main

import (
	"fmt"
	"go/token"
	"go/types"
	"os"
	"sort"
	"strings"

	"golang.org/x/tools/go/ssa"
)

func init() {
	register("C08", &propSpec{
		level:       "proof",
		explanation: "Every panic-capable instruction (index, slice, make, non-comma-ok type assertion, explicit panic, division, stdlib calls with a length contract) in the decode cone of both codecs is an obligation discharged by a linear-arithmetic bounds prover over SSA (dominating guards, definitional facts of slices, field memory with the Buffer invariant 0<=off<=len(b), inferred callee requires/ensures, Fourier–Motzkin refutation); allocation sizes are bounded by a constant or by the length of the input; the frame limits dominate the body allocation and read; a short body read is returned as an error. All obligations discharged ⇒ no decode call can panic on bounds, allocation size, assertion or explicit panic, and its allocations are O(input).",
		run:         runC08,
		trusted: []string{
			"Go semantics of slices, copy, append and io.ReadFull (n <= len(buf); err == nil implies n == len(buf))",
			"soundness of the prover (linear facts over SSA values; rational Fourier–Motzkin refutation)",
			"slice lengths are below 2^31; receivers and *Buffer arguments are non-nil; no recursion in the cone",
			"encoding/binary.Read reports short input as an error (StatVFS decoding)",
			"conversions between integer types are modelled by width for the analysed GOARCH (amd64 quick; 386 added in the thorough tier)",
		},
		quickExtra: []BuildConfig{cfg386},
	})
	register("C20", &propSpec{
		level:       "other",
		explanation: "The bounds prover of C08 applied to the client's reply decoding: every index/slice/make whose operand or bound derives from a server reply (results of clientConn.sendPacket, result.data taken from a channel, recvPacket) in every Client/File method and in their background goroutines is an obligation; the axiom 'a delivered payload has at least 4 bytes' is itself proved where results are constructed (recv); every switch on the reply type has an error default; decoders only return errors.",
		run:         runC20,
		assumptions: []string{"binary.Read (StatVFS) allocates nothing proportional to a length taken from the input"},
		quickExtra:  []BuildConfig{cfg386},
	})
}

func isDecodeRootName(fn *ssa.Function) bool {
	n := fn.Name()
	switch {
	case n == "UnmarshalBinary", n == "UnmarshalFrom", n == "UnmarshalPacketBody", n == "ReadFrom", n == "XXX_UnmarshalByFlags":
		return true
	case strings.HasPrefix(n, "unmarshal"), strings.HasPrefix(n, "Consume"):
		return true
	case n == "recvPacket", n == "makePacket", n == "readPacket", n == "newPacketFromType", n == "Attributes":
		return true
	}
	return false
}

// decodeCone: decode entry points of the three library packages and everything they reach inside the module.
func decodeCone(p *Program) []*ssa.Function {
	var roots []*ssa.Function
	for _, fn := range p.LibFuncs() {
		if fn.Parent() == nil && isDecodeRootName(fn) {
			if fn.Name() == "Attributes" && typeName(recvTypeOf(fn)) != "Request" {
				continue
			}
			if fn.Name() == "ReadFrom" && typeName(recvTypeOf(fn)) == "File" {
				continue
			}
			// an unexported plain helper that no library code calls is dead (tests only): not an entry point
			if fn.Signature.Recv() == nil && fn.Object() != nil && !fn.Object().Exported() && len(p.callersOfStatic(fn)) == 0 && len(p.refsAsValue(fn)) == 0 {
				continue
			}
			roots = append(roots, fn)
		}
	}
	set := p.cone(roots...)
	var out []*ssa.Function
	for f := range set {
		o := outermost(f)
		if o.Package() == nil {
			continue
		}
		switch o.Package().Pkg.Path() {
		case pkgSftp, pkgSshfx, pkgOpenssh:
			out = append(out, f)
		}
	}
	sort.Slice(out, func(i, j int) bool { return out[i].String() < out[j].String() })
	return out
}

// mayHaveRequires: only unexported plain functions whose every use is a static call may push a
// length requirement to their callers.
func mayHaveRequires(p *Program, fn *ssa.Function) bool {
	if fn.Parent() != nil || fn.Signature.Recv() != nil || fn.Object() == nil || fn.Object().Exported() {
		return false
	}
	if len(p.refsAsValue(fn)) > 0 {
		return false
	}
	return len(p.callersOfStatic(fn)) > 0
}

func oblKey(o zobl, fn *ssa.Function, ord map[string]int) string {
	what := o.Kind
	switch x := o.In.(type) {
	case *ssa.Call:
		what += " " + calleeName(&x.Call)
	case *ssa.Slice:
		what += " of " + typeName(x.X.Type())
	}
	k := fnName(fn) + ": " + what
	ord[k]++
	return fmt.Sprintf("%s #%d", k, ord[k])
}

// decide proves one obligation, allowing it to be lifted to the callers as a length requirement.
func decideObl(c *Ctx, w *zworld, z *zfn, o zobl, rule, key string, lifted map[*ssa.Function][]zreq) {
	p := c.P
	posS := p.Pos(o.In.Pos())
	if posS == "?" {
		posS = p.Pos(z.fn.Pos())
	}
	switch o.Kind {
	case "assert":
		ta := o.In.(*ssa.TypeAssert)
		if ok, why := assertDischarged(p, ta); ok {
			c.ok(rule, key, posS, why)
		} else {
			c.bad(rule, key, posS, "a type assertion without the ok form on a value that may hold another type (or nil): "+why)
		}
		return
	case "panic":
		if ok, why := panicDischarged(z, o.In.(*ssa.Panic)); ok {
			c.ok(rule, key, posS, why)
		} else {
			c.bad(rule, key, posS, "an explicit panic is reachable on decoded data: "+why)
		}
		return
	}
	if len(o.Alt) > 0 {
		for _, goals := range o.Alt {
			if ok, _ := z.prove(o.In, goals); ok {
				c.ok(rule, key, posS, o.Desc)
				return
			}
		}
		if os.Getenv("ZDEBUG") != "" && strings.Contains(key, os.Getenv("ZDEBUG")) {
			fmt.Printf("ZDEBUG %s at %s\n", key, posS)
			for _, gs := range o.Alt {
				fmt.Printf("  alt: %s\n", gs[0])
			}
			for _, f := range z.factsAt(o.In) {
				fmt.Printf("    %s\n", f)
			}
		}
		c.bad(rule, key, posS, "cannot establish: "+o.Desc+" — a value decoded from the input controls this size")
		return
	}
	ok, failed := z.prove(o.In, o.Goals)
	if ok {
		c.ok(rule, key, posS, o.Desc)
		return
	}
	if mayHaveRequires(p, z.fn) {
		for _, rq := range w.requiresOf(z.fn) {
			pl := z.lenOf(z.fn.Params[rq.param], 0)
			if rq.cap {
				pl = z.capOf(z.fn.Params[rq.param], 0)
			}
			facts := append(z.factsAt(o.In), leq(linConst(rq.min), pl, 0))
			all := true
			for _, g := range o.Goals {
				if !entails(facts, g) {
					all = false
				}
			}
			if all {
				lifted[z.fn] = append(lifted[z.fn], rq)
				c.ok(rule, key, posS, fmt.Sprintf("%s; holds under the precondition len(%s) >= %d, which is an obligation at every call site", o.Desc, z.fn.Params[rq.param].Name(), rq.min))
				return
			}
		}
	}
	if os.Getenv("ZDEBUG") != "" && strings.Contains(key, os.Getenv("ZDEBUG")) {
		fmt.Printf("ZDEBUG %s at %s\n  goal: %s\n", key, posS, failed)
		for _, f := range z.factsAt(o.In) {
			fmt.Printf("    %s\n", f)
		}
	}
	c.bad(rule, key, posS, fmt.Sprintf("cannot establish %s (unproved: %s): input bytes can make this instruction panic", o.Desc, failed))
}

// assertDischarged: v.(T) without ok is safe when every value that can be in that field is a T:
// all stores into the field (on decode paths) store a T, and a nil-error decode dominates by such a store.
func assertDischarged(p *Program, ta *ssa.TypeAssert) (bool, string) {
	var field string
	var base types.Type
	for _, l := range leavesOf(ta.X) {
		if l.Kind == leafFieldLoad {
			field, base = l.Field, l.Base.Type()
		}
	}
	if field == "" {
		// an element of a list fed from a channel: every value sent on the feeding channels implements the asserted interface
		if it, ok := ta.AssertedType.Underlying().(*types.Interface); ok {
			src := ta.X.Type()
			n, okAll := 0, true
			for _, fn := range p.LibFuncs() {
				eachInstr(fn, func(in ssa.Instruction) {
					mi, ok := in.(*ssa.MakeInterface)
					if !ok || !types.Identical(mi.Type(), src) {
						return
					}
					// only conversions that are sent on a channel named like the response queue matter
					toResp := false
					for _, r := range *mi.Referrers() {
						if s, ok := r.(*ssa.Send); ok {
							if _, path := accessPath(s.Chan); path == "responses" {
								toResp = true
							}
						}
					}
					if !toResp {
						return
					}
					n++
					if !types.Implements(mi.X.Type(), it) {
						okAll = false
					}
				})
			}
			// the list is filled only from that channel
			fed := false
			for _, l := range leavesOfIface(ta.X) {
				if u, ok := l.(*ssa.UnOp); ok {
					if ia, ok := u.X.(*ssa.IndexAddr); ok {
						if _, path := accessPath(ia.X); path == "outgoing" {
							fed = true
						}
					}
				}
			}
			if fed && n > 0 && okAll {
				return true, "every value queued as a response implements " + ta.AssertedType.String()
			}
		}
		return false, "the asserted value is not a packet field"
	}
	nt := namedOf(base)
	if nt == nil {
		return false, "unnamed base"
	}
	ub := p.methodOf(types.NewPointer(nt), "UnmarshalBinary")
	if ub == nil || ub.Blocks == nil {
		return false, "no UnmarshalBinary for " + nt.Obj().Name()
	}
	// every nil-error return of UnmarshalBinary is dominated by a store of the asserted type into the field
	okAll := true
	n := 0
	eachInstr(ub, func(in ssa.Instruction) {
		r, ok := in.(*ssa.Return)
		if !ok || !isReturn(in) || !isNilConst(r.Results[0]) {
			return
		}
		n++
		dom := false
		eachInstr(ub, func(x ssa.Instruction) {
			st, ok := x.(*ssa.Store)
			if !ok || !dominates(x, in) {
				return
			}
			if fa, ok := st.Addr.(*ssa.FieldAddr); ok {
				if _, nm, _, _ := fieldOf(fa); nm == field {
					if mi, ok := st.Val.(*ssa.MakeInterface); ok && types.Identical(mi.X.Type(), ta.AssertedType) {
						dom = true
					}
				}
			}
		})
		if !dom {
			okAll = false
		}
	})
	if n == 0 || !okAll {
		return false, "a successful decode of " + nt.Obj().Name() + " does not always store a " + ta.AssertedType.String() + " into " + field
	}
	return true, "every successful decode of " + nt.Obj().Name() + " stores a " + ta.AssertedType.String() + " into " + field + " (packets that failed to decode are never dispatched: C07.R1)"
}

// panicDischarged: an explicit panic is acceptable when it is the impossible arm of a blocking select
// or guarded by a condition that cannot hold on decoded data (negative count from a builtin / io contract).
func panicDischarged(z *zfn, pn *ssa.Panic) (bool, string) {
	if s, ok := constString(stripConv(pn.X)); ok && strings.Contains(s, "blocking select matched no case") {
		return true, "impossible arm of a blocking select"
	}
	// unreachable by facts: the block's entry condition contradicts the known facts
	facts := z.factsAt(pn)
	if infeasible(facts) {
		return true, "guard contradicts the contracts of copy/io (unreachable)"
	}
	if s, ok := constString(stripConv(pn.X)); ok {
		return false, s
	}
	return false, "panic"
}

func runC08(c *Ctx) {
	p := c.P
	w := newZWorld(p)
	cone := decodeCone(p)
	c.check(len(cone) >= 100, "O0", "decode cone size", "?", fmt.Sprintf("%d functions", len(cone)), fmt.Sprintf("the decode cone has only %d functions (122 on the reference tree): entry points lost", len(cone)))
	ord := map[string]int{}
	lifted := map[*ssa.Function][]zreq{}
	nObl := 0
	for _, fn := range cone {
		c.looked(fnName(fn))
		z := w.get(fn)
		for _, o := range z.obligationsOf() {
			nObl++
			rule := map[string]string{"slice": "O1", "index": "O1", "make": "O1", "alloc": "O2", "assert": "O5", "panic": "O5", "div": "O5", "call": "O6", "buffer-invariant": "O1"}[o.Kind]
			decideObl(c, w, z, o, rule, oblKey(o, fn, ord), lifted)
		}
	}
	// the client's frame dispatcher decodes the id of every reply before anybody else sees the bytes; it runs on
	// a background goroutine, so a panic there kills the process (its obligations are also part of C20)
	if rv := p.Func("(*clientConn).recv"); rv == nil {
		c.missing("O1", "(*clientConn).recv")
	} else {
		c.looked(fnName(rv))
		z := w.get(rv)
		for _, o := range z.obligationsOf() {
			nObl++
			rule := map[string]string{"slice": "O1", "index": "O1", "make": "O1", "alloc": "O2", "assert": "O5", "panic": "O5", "div": "O5", "call": "O6"}[o.Kind]
			if rule == "" {
				rule = "O1"
			}
			decideObl(c, w, z, o, rule, oblKey(o, rv, ord), lifted)
		}
	}

	// the name-list and attribute decoding that package sftp's client does inline on reply bytes (ReadDir, ReadLink,
	// RealPath, Stat …) is decoding too: its allocations are bounded by the input (shared with C20.Z2)
	nClientAlloc := 0
	for _, fn := range p.LibFuncs() {
		if outermost(fn).Package() != p.Sftp || !isClientSide(fn) {
			continue
		}
		var z *zfn
		eachInstr(fn, func(in ssa.Instruction) {
			if _, ok := in.(*ssa.MakeSlice); !ok {
				return
			}
			if z == nil {
				z = w.get(fn)
				z.clientAxioms()
			}
		})
		if z == nil {
			continue
		}
		for _, o := range z.obligationsOf() {
			ms, ok := o.In.(*ssa.MakeSlice)
			if !ok || o.Kind != "alloc" {
				continue
			}
			if !replyTainted(ms.Len, map[ssa.Value]bool{}, 0) && !replyTainted(ms.Cap, map[ssa.Value]bool{}, 0) {
				continue
			}
			nClientAlloc++
			decideObl(c, w, z, o, "O2", oblKey(o, fn, ord), lifted)
		}
	}
	checkStickyErrorReported(c, "O4")
	c.note("decode cone: %d functions, %d obligations; %d reply-sized allocations in client decoders", len(cone), nObl, nClientAlloc)
	c.floor("O1", 40)

	// ---------- O3/O4 frame limits ----------
	checkFrameLimits(c, w)
	// O7 (shared with C07.R6): a set-attributes or open request is decoded "totally" only if the attribute block its
	// flags word announces is checked to be there: otherwise a truncated packet decodes without error and the bytes are
	// interpreted later, outside the decoder's error handling
	checkAttrsValidatedAtDecode(c, "O7")
	checkRequestConstructorErrorExamined(c, "O8")
	checkShortInputIsReported(c, "O11")
	// O12: a map the decoders consult (the registry of extended packet types) shares its struct with a mutex: every
	// access to it, by whatever function, is made with that mutex held — a lookup next to a registration is a fatal
	// "concurrent map read and map write", which no recover() turns into an error
	{
		consulted := map[string]bool{}
		inCone := map[*ssa.Function]bool{}
		for _, fn := range cone {
			inCone[fn] = true
		}
		checkGuardedMapsCollect(p, func(owner string, fn *ssa.Function) {
			if inCone[fn] {
				consulted[owner] = true
			}
		})
		checkGuardedMaps(c, "O12", func(owner string, fn *ssa.Function) bool { return consulted[owner] }, 2)
	}
	// O13 (shared as C07.R23): a failed read from the stream is the last one
	checkFailedReadIsFinal(c, "O13", 8)
	// O14 (shared as C20.Z14, C19.R17): a decode loop ends on the decoder's error
	checkDecodeLoopEndsOnError(c, "O14", 6)
	// O9 (shared with C20.Z1): the unchecked primitives are called only where the length is known — also in the client
	c.withOnly("Z1", "O9", func() { runC20(c) })
	// O10 (shared with C07.R1): what could not be decoded is not passed on (a nil or half-decoded packet crashes a worker)
	c.withOnly("R1", "O10", func() { checkBadPacketEndsSession(c) })

	// every call site of a function whose obligations were lifted establishes the requirement: those are the
	// "call" obligations already decided above; make sure none was silently skipped
	for fn, rqs := range lifted {
		sites := p.callersOfStatic(fn)
		c.check(len(sites) > 0, "O6", "call sites of "+fnName(fn), p.Pos(fn.Pos()), fmt.Sprintf("%d call sites carry the obligation len >= %d", len(sites), rqs[0].min), "a function with a length precondition has no enumerable call sites")
	}
}

// ---------------------------------------------------------------------------

// tainted: does the value derive from a server reply?
func replyTainted(v ssa.Value, seen map[ssa.Value]bool, d int) bool {
	if v == nil || d > 12 || seen[v] {
		return false
	}
	seen[v] = true
	switch x := v.(type) {
	case *ssa.Extract:
		if call, ok := x.Tuple.(*ssa.Call); ok {
			switch calleeName(&call.Call) {
			case "sendPacket", "recvPacket":
				return x.Index == 1 || x.Index == 0
			case "unmarshalUint32", "unmarshalUint64", "unmarshalString", "unmarshalUint32Safe", "unmarshalUint64Safe", "unmarshalStringSafe", "unmarshalAttrs", "unmarshalFileStat", "unmarshalExtensionPair":
				for _, a := range call.Call.Args {
					if replyTainted(a, seen, d+1) {
						return true
					}
				}
			}
		}
		if u, ok := x.Tuple.(*ssa.UnOp); ok && u.Op == token.ARROW {
			return typeName(x.Type()) == "result"
		}
	case *ssa.Field:
		if typeName(x.X.Type()) == "result" {
			return true
		}
		return replyTainted(x.X, seen, d+1)
	case *ssa.UnOp:
		if x.Op == token.ARROW && typeName(x.Type()) == "result" {
			return true
		}
		if x.Op == token.MUL {
			if a, ok := x.X.(*ssa.Alloc); ok {
				for _, st := range reachingStores(x, a) {
					if replyTainted(st.Val, seen, d+1) {
						return true
					}
				}
			}
			if fa, ok := x.X.(*ssa.FieldAddr); ok {
				if typeName(derefType(fa.X.Type())) == "result" {
					return true
				}
				// a field of a local struct variable: follow stores to that field
				if root, _ := accessPath(fa); root != nil {
					if al, ok := root.(*ssa.Alloc); ok {
						hit := false
						eachInstr(al.Parent(), func(in ssa.Instruction) {
							if st, ok := in.(*ssa.Store); ok {
								if fa2, ok := st.Addr.(*ssa.FieldAddr); ok && fa2.X == fa.X && fa2.Field == fa.Field {
									if replyTainted(st.Val, seen, d+1) {
										hit = true
									}
								}
							}
						})
						if hit {
							return true
						}
					}
				}
			}
		}
	case *ssa.Slice:
		return replyTainted(x.X, seen, d+1) || replyTainted(x.Low, seen, d+1) || replyTainted(x.High, seen, d+1)
	case *ssa.Convert:
		return replyTainted(x.X, seen, d+1)
	case *ssa.ChangeType:
		return replyTainted(x.X, seen, d+1)
	case *ssa.Phi:
		for _, e := range x.Edges {
			if replyTainted(e, seen, d+1) {
				return true
			}
		}
	case *ssa.BinOp:
		return replyTainted(x.X, seen, d+1) || replyTainted(x.Y, seen, d+1)
	case *ssa.Call:
		if builtinName(&x.Call) == "len" || builtinName(&x.Call) == "cap" {
			return false
		}
	case *ssa.Parameter:
		// parameters named data/b of the decoding helpers
		fn := x.Parent()
		if strings.HasPrefix(fn.Name(), "unmarshal") {
			if _, isSlice := x.Type().Underlying().(*types.Slice); isSlice {
				return true
			}
		}
	}
	return false
}

func isClientSide(fn *ssa.Function) bool {
	o := outermost(fn)
	if o.Signature.Recv() != nil {
		switch typeName(o.Signature.Recv().Type()) {
		case "File", "Client", "clientConn":
			return true
		}
	}
	switch o.Name() {
	case "unmarshalStatus", "newClientPipe", "normaliseError":
		return true
	}
	return false
}

func runC20(c *Ctx) {
	p := c.P
	w := newZWorld(p)
	ord := map[string]int{}
	lifted := map[*ssa.Function][]zreq{}
	nFn, nObl := 0, 0
	for _, fn := range p.LibFuncs() {
		if outermost(fn).Package() != p.Sftp || !isClientSide(fn) {
			continue
		}
		nFn++
		c.looked(fnName(fn))
		z := w.get(fn)
		z.clientAxioms()
		for _, o := range z.obligationsOf() {
			// only instructions that touch reply data
			touches := false
			switch x := o.In.(type) {
			case *ssa.Slice:
				touches = replyTainted(x, map[ssa.Value]bool{}, 0)
			case *ssa.IndexAddr:
				touches = replyTainted(x.X, map[ssa.Value]bool{}, 0) || replyTainted(x.Index, map[ssa.Value]bool{}, 0)
			case *ssa.Index:
				touches = replyTainted(x.X, map[ssa.Value]bool{}, 0) || replyTainted(x.Index, map[ssa.Value]bool{}, 0)
			case *ssa.MakeSlice:
				touches = replyTainted(x.Len, map[ssa.Value]bool{}, 0) || replyTainted(x.Cap, map[ssa.Value]bool{}, 0)
			case *ssa.Call:
				for _, a := range x.Call.Args {
					if replyTainted(a, map[ssa.Value]bool{}, 0) {
						touches = true
					}
				}
			case *ssa.Panic:
				touches = false
			}
			if !touches {
				continue
			}
			nObl++
			rule := map[string]string{"slice": "Z2", "index": "Z2", "make": "Z2", "alloc": "Z2", "call": "Z1", "assert": "Z1", "div": "Z1"}[o.Kind]
			if rule == "" {
				rule = "Z1"
			}
			decideObl(c, w, z, o, rule, oblKey(o, fn, ord), lifted)
		}
	}
	// the decoding helpers the client hands reply bytes to (shared with C08's cone)
	{
		var clientFns []*ssa.Function
		for _, fn := range p.LibFuncs() {
			if outermost(fn).Package() == p.Sftp && isClientSide(fn) {
				clientFns = append(clientFns, fn)
			}
		}
		reach := p.cone(clientFns...)
		var helpers []*ssa.Function
		for _, fn := range decodeCone(p) {
			if reach[fn] && !isClientSide(fn) && outermost(fn).Package() == p.Sftp && strings.HasPrefix(outermost(fn).Name(), "unmarshal") {
				helpers = append(helpers, fn)
			}
		}
		for _, fn := range helpers {
			c.looked(fnName(fn))
			z := w.get(fn)
			for _, o := range z.obligationsOf() {
				nObl++
				rule := map[string]string{"slice": "Z2", "index": "Z2", "make": "Z2", "alloc": "Z2", "call": "Z1", "assert": "Z1", "div": "Z1", "panic": "Z4"}[o.Kind]
				if rule == "" {
					rule = "Z1"
				}
				decideObl(c, w, z, o, rule, oblKey(o, fn, ord), lifted)
			}
		}
		c.check(len(helpers) >= 6, "Z1", "decoding helpers used by the client", "?", fmt.Sprintf("%d helpers", len(helpers)), fmt.Sprintf("only %d decoding helpers reachable from the client", len(helpers)))
	}
	// Z17: what a reply's attributes decode to (a FileStat, the os.FileInfo made from it) is handed to the caller, and
	// the library itself calls Mode()/IsDir() on it (MkdirAll, Remove, RemoveAll, Walk): every index, slice and
	// assertion in the methods of fileInfo and FileStat and what they call holds for every value of the fields
	{
		var roots []*ssa.Function
		for _, fn := range p.LibFuncs() {
			if outermost(fn) != fn || fn.Package() != p.Sftp || fn.Signature.Recv() == nil {
				continue
			}
			switch typeName(fn.Signature.Recv().Type()) {
			case "fileInfo", "FileStat":
				roots = append(roots, fn)
			}
		}
		nZ := 0
		for fn := range p.cone(roots...) {
			if !inModule(fn) || outermost(fn).Package() != p.Sftp || len(fn.Blocks) == 0 {
				continue
			}
			c.looked(fnName(fn))
			z := w.get(fn)
			for _, o := range z.obligationsOf() {
				switch o.Kind {
				case "index", "slice", "assert", "div":
				default:
					continue
				}
				nZ++
				decideObl(c, w, z, o, "Z17", oblKey(o, fn, ord), lifted)
			}
		}
		c.okT("Z17", "accessors of decoded attributes examined", "?", fmt.Sprintf("%d functions at the roots, %d obligations", len(roots), nZ))
		c.check(len(roots) >= 6, "Z17", "methods of fileInfo and FileStat", "?", fmt.Sprintf("%d", len(roots)), "the accessor methods of decoded attributes were not found")
	}
	c.note("client functions: %d, reply-touching obligations: %d", nFn, nObl)
	c.check(nObl >= 12, "Z1", "reply decoding sites", "?", fmt.Sprintf("%d obligations on reply data", nObl), fmt.Sprintf("only %d obligations found on reply data: the taint sources were lost", nObl))

	// the axiom: whoever delivers a result with data has checked len(data) >= 4
	for _, fn := range p.LibFuncs() {
		if outermost(fn).Package() != p.Sftp {
			continue
		}
		for _, a := range literalsOf(fn, "result") {
			d := litField(a, "data")
			if d == nil || isNilConst(d) {
				continue
			}
			z := w.get(fn)
			ok, _ := z.prove(a, []lin{leq(linConst(4), z.lenOf(d, 0), 0)})
			// the literal is built after the checks: prove at the send that follows
			if !ok {
				eachInstr(fn, func(in ssa.Instruction) {
					if s, isSend := in.(*ssa.Send); isSend && !ok {
						if u, isU := s.X.(*ssa.UnOp); isU && u.X == ssa.Value(a) {
							ok, _ = z.prove(in, []lin{leq(linConst(4), z.lenOf(d, 0), 0)})
						}
					}
				})
			}
			if !ok && os.Getenv("ZDEBUG") == "recv" {
				for _, f := range z.factsAt(a) {
					fmt.Printf("   F %s\n", f)
				}
				for cf, sm := range w.sums {
					if strings.Contains(cf.Name(), "unmarshalUint32") {
						fmt.Printf("   SUM %s %+v\n", cf.Name(), sm)
					}
				}
			}
			c.check(ok, "Z1", "delivered payload has >= 4 bytes in "+fnName(fn), p.Pos(a.Pos()), "len(data) >= 4 where the result is built", "a reply shorter than 4 bytes can be delivered to a caller, which decodes the id without a length check")
		}
	}

	// Z3: every switch on the reply type ends in an error default
	for _, fn := range p.LibFuncs() {
		if outermost(fn).Package() != p.Sftp || !isClientSide(fn) {
			continue
		}
		// find comparisons typ == const where typ comes from sendPacket #0 / result.typ
		var chainStart *ssa.BasicBlock
		blocks := map[*ssa.BasicBlock]bool{}
		noMatch := map[*ssa.BasicBlock]int{}
		for _, b := range fn.Blocks {
			iff, ok := b.Instrs[len(b.Instrs)-1].(*ssa.If)
			if !ok {
				continue
			}
			cmp, ok := iff.Cond.(*ssa.BinOp)
			if !ok || (cmp.Op != token.EQL && cmp.Op != token.NEQ) {
				continue
			}
			if typeName(cmp.X.Type()) != "fxp" {
				continue
			}
			if _, isC := constInt(cmp.Y); !isC {
				continue
			}
			blocks[b] = true
			if cmp.Op == token.NEQ {
				noMatch[b] = 0 // `typ != K`: the other types go on through the true side
			} else {
				noMatch[b] = 1
			}
			if chainStart == nil {
				chainStart = b
			}
		}
		if len(blocks) == 0 {
			continue
		}
		// the default: the no-match successor of the last comparison in each chain (a comparison from whose no-match
		// side another comparison of a reply type is still reachable is not the last one)
		for b := range blocks {
			f := b.Succs[noMatch[b]]
			if blocks[f] {
				continue
			}
			more := false
			seenB := map[*ssa.BasicBlock]bool{f: true}
			work := []*ssa.BasicBlock{f}
			for len(work) > 0 && !more {
				x := work[len(work)-1]
				work = work[:len(work)-1]
				for _, sx := range x.Succs {
					if sx.Dominates(x) {
						continue // a back edge: the next reply is another reply
					}
					if blocks[sx] && sx != b {
						more = true
					}
					if !seenB[sx] && !blocks[sx] {
						seenB[sx] = true
						work = append(work, sx)
					}
				}
			}
			if more {
				continue
			}
			// f is the default arm: it must produce an error (return with non-nil error, or assign err)
			okDef := false
			for _, in := range f.Instrs {
				if cc := callOf(in); cc != nil {
					switch calleeName(cc) {
					case "unimplementedPacketErr":
						okDef = true
					}
				}
				if a, ok := in.(*ssa.Alloc); ok && typeName(a.Type()) == "unexpectedPacketErr" {
					okDef = true
				}
			}
			if !okDef {
				// maybe the chain continues after a non-comparison block (switch with init); look one step further
				for _, s := range f.Succs {
					for _, in := range s.Instrs {
						if cc := callOf(in); cc != nil && calleeName(cc) == "unimplementedPacketErr" {
							okDef = true
						}
					}
				}
			}
			c.check(okDef, "Z3", "reply type switch default in "+fnName(fn), p.Pos(b.Instrs[len(b.Instrs)-1].Pos()), "an unexpected reply type yields an error", "a reply of an unexpected type falls through the switch without an error")
		}
	}

	// Z4: decoders do not close or panic
	for _, fn := range p.LibFuncs() {
		if outermost(fn).Package() != p.Sftp || !isClientSide(fn) {
			continue
		}
		eachInstr(fn, func(in ssa.Instruction) {
			if pn, ok := in.(*ssa.Panic); ok {
				z := w.get(fn)
				if ok, why := panicDischarged(z, pn); !ok {
					// panics on negative counts from callees are contract checks on the package's own helpers
					if s, isS := constString(stripConv(pn.X)); isS && (strings.Contains(s, "negative count") || strings.Contains(s, "nil context") || strings.Contains(s, "bufPool")) {
						c.okT("Z4", "panic in "+fnName(fn), p.Pos(in.Pos()), "contract check unrelated to reply bytes: "+s)
					} else {
						c.bad("Z4", "panic in "+fnName(fn), p.Pos(in.Pos()), "client code can panic: "+why)
					}
				}
			}
		})
	}
	// Z5: a reply the receiver cannot decode ends recv; the client then "fails cleanly as after a connection loss",
	// which is the broadcastErr sweep (shared with C04.R2): every outstanding call is failed exactly once and a
	// request whose write fails afterwards cannot block on its already notified channel
	if bcast := p.Func("(*clientConn).broadcastErr"); bcast == nil {
		c.missing("Z5", "(*clientConn).broadcastErr")
	} else {
		checkBroadcastErr(c, "Z5", bcast)
	}
	checkStatusIsFailureWhereDataIsExpected(c, "Z6")
	checkUnknownIDEndsSession(c, "Z7")
	checkWorkerCountBounded(c, "Z8")
	// Z9 (shared with C08.O3 / C07.R10): the length word of a reply is checked before the body is allocated — with the
	// allocation in front of the check a 13-byte reply makes the client allocate whatever the server announces
	c.withRule("Z9", func() { checkFrameLimits(c, newZWorld(p)) })
	// Z10 (shared with C04.R7): bad replies to several chunks of one transfer must not close the cancel channel twice
	mapReduceKeyFilter = "cancel closed at most once"
	for _, name := range []string{"(*File).readAt", "(*File).WriteTo", "(*File).writeAtConcurrent", "(*File).readFromWithConcurrency"} {
		if fn := p.Func(name); fn != nil {
			checkMapReduce(c, fn, name, "Z10", false)
		} else {
			c.missing("Z10", name)
		}
	}
	mapReduceKeyFilter = ""
	checkResultsUsedOnlyWithoutError(c, "Z11")
	checkShortInputIsReported(c, "Z12")
	checkReplyErrorsConsumed(c, "Z13")
	// Z14 (= C08.O14): a decode loop ends on the decoder's error — a VERSION or NAME reply with a damaged list must not
	// keep the caller spinning
	checkDecodeLoopEndsOnError(c, "Z14", 6)
	// Z15 (= C04.R4): a failed send is delivered through the in-flight table, so that a reply of absurd length (which
	// ends the session) cannot leave the caller waiting on a channel nobody writes to
	c.withOnly("R4", "Z15", func() { runC04(c) })
	checkCommaOkPointerUsedUnderOk(c, "Z16", isClientSide, 3)
}

// clientAxioms adds: data returned by clientConn.sendPacket with a nil error, and result.data of a
// result whose err is nil, have at least 4 bytes.
func (z *zfn) clientAxioms() {
	eachInstr(z.fn, func(in ssa.Instruction) {
		switch x := in.(type) {
		case *ssa.Call:
			callee := x.Call.StaticCallee()
			if callee == nil || fnName(callee) != "(*clientConn).sendPacket" {
				return
			}
			var dataEx, errEx *ssa.Extract
			for _, r := range *x.Referrers() {
				if ex, ok := r.(*ssa.Extract); ok {
					if ex.Index == 1 {
						dataEx = ex
					}
					if ex.Index == 2 {
						errEx = ex
					}
				}
			}
			if dataEx == nil || errEx == nil {
				return
			}
			ln := z.lenOf(dataEx, 0)
			for _, b := range z.nilEdges(errEx) {
				z.addFactAtBlock(leq(linConst(4), ln, 0), b)
			}
			// switch-style `case err != nil: return` (Sync): handled by nilEdges as well
		case *ssa.Alloc:
			// a local `result` variable filled from a channel: s.data has >= 4 bytes where s.err == nil
			if typeName(x.Type()) != "result" {
				return
			}
			if _, isStruct := derefType(x.Type()).Underlying().(*types.Struct); !isStruct {
				return
			}
			var dataLoads, errLoads []*ssa.UnOp
			for _, r := range *x.Referrers() {
				fa, ok := r.(*ssa.FieldAddr)
				if !ok {
					continue
				}
				_, n, _, _ := fieldOf(fa)
				for _, rr := range *fa.Referrers() {
					if u, ok := rr.(*ssa.UnOp); ok && u.Op == token.MUL {
						if n == "data" {
							dataLoads = append(dataLoads, u)
						}
						if n == "err" {
							errLoads = append(errLoads, u)
						}
					}
				}
			}
			// only if the variable is assigned once, from a channel receive
			sts := storesTo(z.fn, x)
			if len(sts) != 1 {
				return
			}
			if u, ok := sts[0].Val.(*ssa.UnOp); !ok || u.Op != token.ARROW {
				return
			}
			for _, d := range dataLoads {
				ln := z.lenOf(d, 0)
				for _, e := range errLoads {
					for _, b := range z.nilEdges(e) {
						z.addFactAtBlock(leq(linConst(4), ln, 0), b)
					}
				}
			}
		case *ssa.Field:
			if typeName(x.X.Type()) != "result" {
				return
			}
			st, _ := x.X.Type().Underlying().(*types.Struct)
			if st == nil || st.Field(x.Field).Name() != "data" {
				return
			}
			ln := z.lenOf(x, 0)
			// sibling loads of .err on the same struct value
			for _, r := range *x.X.Referrers() {
				f2, ok := r.(*ssa.Field)
				if !ok || st.Field(f2.Field).Name() != "err" {
					continue
				}
				for _, b := range z.nilEdges(f2) {
					z.addFactAtBlock(leq(linConst(4), ln, 0), b)
				}
			}
		}
	})
}

// checkStickyErrorReported (C08.O4, filexfer): the filexfer Buffer records a short read in its sticky Err field and the
// Consume methods return zero values.  A decoder built on it must end with that error (or one it tested): a constant
// nil result after consuming reports a truncated packet as decoded.
func checkStickyErrorReported(c *Ctx, rule string) {
	p := c.P
	n := 0
	for _, fn := range p.LibFuncs() {
		if fn.Pkg != p.Sshfx && (fn.Pkg == nil || fn.Pkg != p.Ossh) {
			continue
		}
		if !strings.HasPrefix(fn.Name(), "Unmarshal") && !strings.HasPrefix(fn.Name(), "XXX_Unmarshal") {
			continue
		}
		res := fn.Signature.Results()
		if res.Len() == 0 || res.At(res.Len()-1).Type().String() != "error" {
			continue
		}
		// consumes with the sticky protocol: a single-result Consume* call on a *Buffer
		var consumes []ssa.Instruction
		eachInstr(fn, func(in ssa.Instruction) {
			call, ok := in.(*ssa.Call)
			if !ok {
				return
			}
			f := call.Call.StaticCallee()
			if f == nil || !strings.HasPrefix(f.Name(), "Consume") || typeName(recvTypeOf(f)) != "Buffer" {
				return
			}
			if f.Signature.Results().Len() == 1 {
				consumes = append(consumes, in)
			}
		})
		if len(consumes) == 0 {
			continue
		}
		n++
		bad := ""
		for _, rl := range returnLeaves(fn, res.Len()-1) {
			k, ok := rl.v.(*ssa.Const)
			if !ok || k.Value != nil {
				continue
			}
			// a nil result is fine only if no sticky consume can have happened before it
			last := rl.block.Instrs[len(rl.block.Instrs)-1]
			for _, cs := range consumes {
				if cs.Block() == rl.block || blockReaches(cs.Block(), rl.block) {
					bad = p.Pos(last.Pos())
				}
			}
		}
		c.check(bad == "", rule, fnName(fn)+" reports the buffer's error", p.Pos(fn.Pos()), "ends with buf.Err (or a tested error)", "the decoder returns a constant nil after consuming from the Buffer: a packet cut inside those fields is reported as decoded, with zero values")
	}
	c.check(n >= 10, rule, "filexfer decoders using the sticky error", "?", fmt.Sprintf("%d decoders", n), fmt.Sprintf("only %d decoders found", n))
}

// errNeverNil: can the error value v (selected in block b, entered from pred) be nil?  false = may be nil.
func (p *Program) errNeverNil(v ssa.Value, b, pred *ssa.BasicBlock, depth int) bool {
	if depth > 4 {
		return false
	}
	switch x := v.(type) {
	case *ssa.Const:
		return x.Value != nil
	case *ssa.MakeInterface:
		return true
	case *ssa.Global:
		return true
	case *ssa.UnOp:
		if g, ok := x.X.(*ssa.Global); ok && x.Op == token.MUL {
			return strings.HasPrefix(g.Name(), "err") || strings.HasPrefix(g.Name(), "Err")
		}
	}
	// tested non-nil on the way here
	for cv, truth := range edgeConds(b, pred) {
		if bo, ok := cv.(*ssa.BinOp); ok && isNilConst(bo.Y) && bo.X == v {
			if (bo.Op == token.NEQ && truth) || (bo.Op == token.EQL && !truth) {
				return true
			}
		}
	}
	var call *ssa.Call
	switch x := v.(type) {
	case *ssa.Call:
		call = x
	case *ssa.Extract:
		call, _ = x.Tuple.(*ssa.Call)
	}
	if call == nil {
		return false
	}
	if callIs(&call.Call, "errors.New") || callIs(&call.Call, "fmt.Errorf") {
		return true
	}
	f := call.Call.StaticCallee()
	if f == nil || f.Blocks == nil || !inModule(f) {
		return false
	}
	idx := f.Signature.Results().Len() - 1
	leaves := returnLeaves(f, idx)
	if len(leaves) == 0 {
		return false
	}
	for _, rl := range leaves {
		if !p.errNeverNil(rl.v, rl.block, rl.pred, depth+1) {
			return false
		}
	}
	return true
}

// checkStatusIsFailureWhereDataIsExpected (C20.Z6): a request whose success reply carries data (HANDLE, ATTRS, NAME,
// EXTENDED_REPLY) can only be *refused* with a STATUS.  Where a client function returns the zero value of its result
// together with the error decoded from a STATUS reply, that error must not be able to be nil: SSH_FX_OK in such a
// reply would otherwise come out as (nil, nil) and the nil *FileStat / FileInfo is dereferenced by the callers
// (MkdirAll, WriteTo, Seek, Walk).
func checkStatusIsFailureWhereDataIsExpected(c *Ctx, rule string) {
	p := c.P
	n := 0
	for _, fn := range p.LibFuncs() {
		if outermost(fn) != fn || fn.Package() != p.Sftp || !isClientSide(fn) {
			continue
		}
		res := fn.Signature.Results()
		if res.Len() != 2 || res.At(1).Type().String() != "error" {
			continue
		}
		// only value-returning requests: the first result is a pointer, interface or string
		switch res.At(0).Type().Underlying().(type) {
		case *types.Pointer, *types.Interface:
		case *types.Basic:
			if b := res.At(0).Type().Underlying().(*types.Basic); b.Kind() != types.String {
				continue
			}
		default:
			continue
		}
		ord := 0
		eachInstr(fn, func(in ssa.Instruction) {
			r, ok := in.(*ssa.Return)
			if !ok || !isReturn(in) || len(r.Results) != 2 {
				return
			}
			// zero value + an error derived from unmarshalStatus
			zero := isNilConst(r.Results[0])
			if s, ok := constString(r.Results[0]); ok && s == "" {
				zero = true
			}
			if !zero {
				return
			}
			fromStatus := false
			var walk func(v ssa.Value, d int)
			walk = func(v ssa.Value, d int) {
				if d > 4 || v == nil {
					return
				}
				if call, ok := v.(*ssa.Call); ok {
					if calleeName(&call.Call) == "unmarshalStatus" {
						fromStatus = true
					}
					for _, a := range call.Call.Args {
						walk(a, d+1)
					}
					if f := call.Call.StaticCallee(); f != nil && inModule(f) && d < 2 {
						eachInstr(f, func(y ssa.Instruction) {
							if cc := callOf(y); cc != nil && calleeName(cc) == "unmarshalStatus" {
								fromStatus = true
							}
						})
					}
				}
			}
			walk(r.Results[1], 0)
			if !fromStatus {
				return
			}
			n++
			ord++
			key := fmt.Sprintf("%s: STATUS in reply to a data request #%d", fnName(fn), ord)
			c.check(p.errNeverNil(r.Results[1], r.Block(), nil, 0), rule, key, p.Pos(in.Pos()), "the decoded status cannot come out as a nil error",
				"a STATUS reply with code SSH_FX_OK makes this request return its zero value with a nil error: callers dereference the nil result (Stat().Size(), MkdirAll, WriteTo, Seek(SeekEnd), Walk) and the client panics on 17 bytes from the server")
		})
	}
	c.check(n >= 5, rule, "data requests that can be refused with a STATUS", "?", fmt.Sprintf("%d sites", n), fmt.Sprintf("only %d sites found", n))
	checkStatusCaseNextToDataCase(c, rule, false)
}

// checkStatusCaseNextToDataCase: the same fact decided from the reply switch rather than from the result type.  A
// switch on the reply's type byte that has a case for a data reply (HANDLE, DATA, NAME, ATTRS, EXTENDED_REPLY) besides
// the STATUS case is the reply handling of a data request; the error decoded in its STATUS case must not be able to be
// nil.  With SSH_FX_OK read as success, ReadDir ends the listing early with a nil error, and ReadAt, Read and WriteTo
// return a short count with a nil error.
//
// With alone set the converse is decided for the File methods: a switch with a STATUS case and no data case is the
// reply handling of a request that is *acknowledged* with a STATUS (WRITE, CLOSE, FSETSTAT, fsync), and there the
// decoded error must be able to be nil — a decoder that turns SSH_FX_OK into an error fails every chunk the server
// took.
func checkStatusCaseNextToDataCase(c *Ctx, rule string, alone bool) {
	p := c.P
	cv := func(name string) (int64, bool) {
		k := p.Sftp.Const(name)
		if k == nil {
			return 0, false
		}
		return constInt(k.Value)
	}
	status, ok := cv("sshFxpStatus")
	if !ok {
		c.missing(rule, "sshFxpStatus")
		return
	}
	dataTypes := map[int64]string{}
	for _, nme := range []string{"sshFxpHandle", "sshFxpData", "sshFxpName", "sshFxpAttrs", "sshFxpExtendedReply"} {
		v, ok := cv(nme)
		if !ok {
			c.missing(rule, nme)
			return
		}
		dataTypes[v] = nme
	}
	decodesStatus := func(cc *ssa.CallCommon) bool {
		if calleeName(cc) == "unmarshalStatus" {
			return true
		}
		if f := cc.StaticCallee(); f != nil && inModule(f) && f.Name() != "normaliseError" {
			found := false
			eachInstr(f, func(y ssa.Instruction) {
				if c2 := callOf(y); c2 != nil && calleeName(c2) == "unmarshalStatus" {
					found = true
				}
			})
			return found
		}
		return false
	}
	n := 0
	for _, fn := range p.LibFuncs() {
		if outermost(fn).Package() != p.Sftp || !isClientSide(fn) {
			continue
		}
		type cmp struct {
			eq *ssa.BinOp
			k  int64
		}
		// keyed by what is compared (a field read twice is one thing compared twice)
		groups := map[string][]cmp{}
		eachInstr(fn, func(in ssa.Instruction) {
			bo, ok := in.(*ssa.BinOp)
			if !ok || (bo.Op != token.EQL && bo.Op != token.NEQ) {
				return
			}
			x, y := bo.X, bo.Y
			if _, isC := x.(*ssa.Const); isC {
				x, y = y, x
			}
			k, ok := constInt(y)
			if !ok {
				return
			}
			// `typ != K` guards are the same test with the branches exchanged
			groups[valKey(x)] = append(groups[valKey(x)], cmp{bo, k})
		})
		ord := 0
		for _, g := range groups {
			var st *ssa.BinOp
			want := ""
			for _, m := range g {
				if m.k == status {
					st = m.eq
				}
				if nme, ok := dataTypes[m.k]; ok {
					want = nme
				}
			}
			if st == nil || (want == "") != alone {
				continue
			}
			if alone && !strings.Contains(fnName(outermost(fn)), "File)") {
				continue
			}
			// the true branch of the STATUS comparison
			var region map[*ssa.BasicBlock]bool
			for _, ref := range *st.Referrers() {
				if iff, ok := ref.(*ssa.If); ok && len(iff.Block().Succs) == 2 {
					side := 0
					if st.Op == token.NEQ {
						side = 1
					}
					region = regionOf(fn, iff.Block().Succs[side])
				}
			}
			if region == nil {
				continue
			}
			for _, b := range fn.Blocks {
				if !region[b] {
					continue
				}
				for _, in := range b.Instrs {
					call, ok := in.(*ssa.Call)
					if !ok || !decodesStatus(&call.Call) {
						continue
					}
					// the error as the function sees it: through normaliseError where the decoder is called directly
					var e ssa.Value = call
					if calleeName(&call.Call) == "unmarshalStatus" {
						for _, ref := range *call.Referrers() {
							if c2, ok := ref.(*ssa.Call); ok && calleeName(&c2.Call) == "normaliseError" {
								e = c2
							}
						}
					}
					n++
					ord++
					if alone {
						key := fmt.Sprintf("%s: STATUS is the acknowledgement #%d", fnName(fn), ord)
						c.check(!p.errNeverNil(e, b, nil, 0), rule, key, p.Pos(call.Pos()), "SSH_FX_OK decodes to a nil error",
							"the reply to this request is decoded with a function that never returns nil: the SSH_FX_OK that acknowledges the chunk is reported as a failure")
						continue
					}
					key := fmt.Sprintf("%s: STATUS case beside the %s case #%d", fnName(fn), want, ord)
					c.check(p.errNeverNil(e, b, nil, 0), rule, key, p.Pos(call.Pos()), "the decoded status cannot come out as a nil error",
						"a STATUS reply with code SSH_FX_OK to this data request is read as success: the listing ends early, or the read returns a short count, with a nil error")
				}
			}
		}
	}
	if alone {
		c.check(n >= 2, rule, "STATUS cases of acknowledged requests", "?", fmt.Sprintf("%d sites", n), fmt.Sprintf("only %d sites found", n))
		return
	}
	c.check(n >= 10, rule, "STATUS cases of data requests", "?", fmt.Sprintf("%d sites", n), fmt.Sprintf("only %d sites found", n))
}

// checkWorkerCountBounded (C20.Z8): the number of workers of a concurrent transfer sizes channels, pools and the
// wait group.  In WriteTo it is computed from the size the *server* reported, so it must be proved to lie in
// 1..maxConcurrentRequests where it is used — a count that wrapped in a narrowing conversion makes make(chan) panic
// or starts no worker at all (the transfer then never returns).  The prover is given, as verified axioms, that the
// client options maxConcurrentRequests and maxPacket are at least 1 (every store is a positive constant or follows a
// `n < 1` refusal; decided here too).
func checkWorkerCountBounded(c *Ctx, rule string) {
	p := c.P
	// ---- the option invariant ----
	optOK := true
	nStores := 0
	for _, fn := range p.LibFuncs() {
		eachInstr(fn, func(in ssa.Instruction) {
			st, ok := in.(*ssa.Store)
			if !ok {
				return
			}
			t, name, _, ok := fieldOf(st.Addr)
			if !ok || typeName(t) != "Client" || (name != "maxConcurrentRequests" && name != "maxPacket") {
				return
			}
			nStores++
			if k, ok := constInt(st.Val); ok {
				if k < 1 {
					optOK = false
				}
				return
			}
			// guarded: some dominating If compares the stored value with a constant >= 1 and refuses below it
			guarded := false
			for cv, truth := range edgeConds(st.Block(), nil) {
				b, ok := cv.(*ssa.BinOp)
				if !ok {
					continue
				}
				k, isK := constInt(b.Y)
				if !isK || !(stripConv(b.X) == stripConv(st.Val) || sameValue(b.X, st.Val)) {
					continue
				}
				if (b.Op == token.LSS && !truth && k >= 1) || (b.Op == token.LEQ && !truth && k >= 0) || (b.Op == token.GEQ && truth && k >= 1) || (b.Op == token.GTR && truth && k >= 0) {
					guarded = true
				}
			}
			if !guarded {
				optOK = false
			}
		})
	}
	c.check(optOK && nStores >= 3, rule, "client options maxPacket and maxConcurrentRequests are at least 1", "client.go", fmt.Sprintf("%d stores, each a positive constant or refused below 1", nStores), "a client option can set maxPacket or maxConcurrentRequests below 1: the worker-count computations divide by it / saturate to it")
	if !optOK {
		return
	}
	// ---- the worker counts ----
	w := newZWorld(p)
	n := 0
	for _, name := range []string{"(*File).readAt", "(*File).WriteTo", "(*File).writeAtConcurrent", "(*File).readFromWithConcurrency"} {
		fn := p.Func(name)
		if fn == nil {
			c.missing(rule, name)
			continue
		}
		z := w.get(fn)
		z.clientAxioms()
		// axioms: every load of the two option fields is >= 1; remember one load of maxConcurrentRequests
		var maxTerm *lin
		eachInstr(fn, func(in ssa.Instruction) {
			u, ok := in.(*ssa.UnOp)
			if !ok || u.Op != token.MUL {
				return
			}
			t, fname, _, ok := fieldOf(u.X)
			if !ok || typeName(t) != "Client" || (fname != "maxConcurrentRequests" && fname != "maxPacket") {
				return
			}
			tm := z.term(u)
			z.addFact(leq(linConst(1), tm, 0), u)
			if fname == "maxConcurrentRequests" && maxTerm == nil {
				maxTerm = &tm
			}
		})
		if maxTerm == nil {
			c.und(rule, name+" worker count", p.Pos(fn.Pos()), "maxConcurrentRequests is not read here")
			continue
		}
		ord := 0
		eachInstr(fn, func(in ssa.Instruction) {
			var arg ssa.Value
			calleeNm := ""
			if mc, isMC := in.(*ssa.MakeChan); isMC {
				// the pool constructor written out: make(resChanPool, concurrency)
				if _, isConst := mc.Size.(*ssa.Const); isConst {
					return
				}
				arg, calleeNm = mc.Size, "make(chan)"
			}
			call, ok := in.(*ssa.Call)
			if !ok && arg == nil {
				return
			}
			if ok {
				calleeNm = calleeName(&call.Call)
			}
			switch {
			case arg != nil:
			case calleeName(&call.Call) == "newResChanPool" || calleeName(&call.Call) == "newBufPool":
				arg = call.Call.Args[0]
			case isWGCall(&call.Call, "Add"):
				arg = call.Call.Args[len(call.Call.Args)-1]
				if k, ok := constInt(arg); ok && k == 1 {
					return
				}
			default:
				return
			}
			n++
			ord++
			key := fmt.Sprintf("%s: worker count at %s #%d", name, calleeNm, ord)
			// a count converted from a wider or unsigned computation is bounded *before* the conversion:
			// 1 <= x <= maxConcurrentRequests there implies that the conversion keeps the value
			if cv, ok := arg.(*ssa.Convert); ok {
				arg = cv.X
			}
			at := z.term(arg)
			goals := []lin{leq(linConst(1), at, 0), leq(at, *maxTerm, 0)}
			ok2, failed := z.prove(in, goals)
			if ph, isPhi := arg.(*ssa.Phi); !ok2 && isPhi {
				// the count joins "no concurrency" constants (excluded by the test that leads here) with a value that was
				// converted on its own edge: the same principle, edge by edge, at the end of the edge's block
				all, any := true, false
				for i, e := range ph.Edges {
					pred := ph.Block().Preds[i]
					if z.edgeExcluded(ph, i, in) || staticallyDeadEdge(pred, ph.Block()) {
						continue
					}
					any = true
					if cv, ok := e.(*ssa.Convert); ok {
						e = cv.X
					}
					et := z.term(e)
					last := pred.Instrs[len(pred.Instrs)-1]
					if okE, f := z.prove(last, []lin{leq(linConst(1), et, 0), leq(et, *maxTerm, 0)}); !okE {
						all, failed = false, f
						break
					}
				}
				ok2 = all && any
			}
			if !ok2 && os.Getenv("ZDEBUG") != "" && strings.Contains(key, os.Getenv("ZDEBUG")) {
				fmt.Printf("ZDEBUG %s goal %s\n", key, failed)
				for _, f := range z.factsAt(in) {
					fmt.Printf("    %s\n", f)
				}
			}
			c.check(ok2, rule, key, p.Pos(in.Pos()), "1 <= count <= maxConcurrentRequests",
				"the worker count used here is not provably within 1..maxConcurrentRequests (unproved: "+failed+"): a size reported by the server can make it wrap — make(chan) panics with a huge value, and with zero workers the transfer never returns")
		})
	}
	c.check(n >= 8, rule, "worker-count uses", "?", fmt.Sprintf("%d uses", n), fmt.Sprintf("only %d uses found", n))
}

// checkFrameLimits (C08.O3/O4, shared with C07 as R10): in both frame readers the declared length is bounded above
// and below on every path before the body is allocated or read, and a short body is an error.
func checkFrameLimits(c *Ctx, w *zworld) {
	p := c.P
	checkCutFrameIsNotCleanEOF(c, "O4")
	// ---------- O3 frame limits ----------
	if rp := p.Func("recvPacket"); rp == nil {
		c.missing("O3", "recvPacket")
	} else {
		z := w.get(rp)
		var lengthV ssa.Value
		eachInstr(rp, func(in ssa.Instruction) {
			if call, ok := in.(*ssa.Call); ok && calleeName(&call.Call) == "unmarshalUint32" {
				for _, r := range *call.Referrers() {
					if ex, ok := r.(*ssa.Extract); ok && ex.Index == 0 {
						lengthV = ex
					}
				}
			}
		})
		if lengthV == nil {
			c.und("O3", "recvPacket frame length", p.Pos(rp.Pos()), "cannot find the decoded frame length")
		} else {
			// the sites are recognised by the value they size with: the decoded length, directly or through the
			// join of a helper that validated it (a phi once the helper is inlined), and the goals are stated
			// on that size
			var fromLength func(v ssa.Value, d int) bool
			fromLength = func(v ssa.Value, d int) bool {
				if v == lengthV {
					return true
				}
				if d > 4 {
					return false
				}
				switch x := v.(type) {
				case *ssa.Convert:
					return fromLength(x.X, d+1)
				case *ssa.ChangeType:
					return fromLength(x.X, d+1)
				case *ssa.Phi:
					for _, e := range x.Edges {
						if fromLength(e, d+1) {
							return true
						}
					}
				}
				return false
			}
			n := 0
			eachInstr(rp, func(in ssa.Instruction) {
				// the body allocation and the body read
				var size ssa.Value
				isMake := false
				switch x := in.(type) {
				case *ssa.Call:
					if callIs(&x.Call, "io.ReadFull") && len(x.Call.Args) == 2 {
						if sl, ok := x.Call.Args[1].(*ssa.Slice); ok && sl.High != nil && fromLength(sl.High, 0) {
							size = sl.High
						}
					}
				case *ssa.MakeSlice:
					if fromLength(x.Len, 0) {
						size, isMake = x.Len, true
					}
				}
				if size == nil {
					return
				}
				n++
				lt := z.term(size)
				up := lt.clone()
				up.c -= 256 * 1024
				ok1, _ := z.prove(in, []lin{up})
				ok2, _ := z.prove(in, []lin{leq(linConst(1), lt, 0)})
				what := "body read"
				if isMake {
					what = "body allocation"
				}
				c.check(ok1, "O3", "recvPacket "+what+" after the 256 KiB limit", p.Pos(in.Pos()), "length <= maxMsgLength on every path here", "a frame longer than 256 KiB is not refused before its "+what+" (on some path, e.g. with the allocator)")
				c.check(ok2, "O3", "recvPacket "+what+" after the zero-length test", p.Pos(in.Pos()), "length >= 1 on every path here", "a zero-length frame is not refused before its "+what)
			})
			c.check(n >= 2, "O3", "recvPacket body sites", p.Pos(rp.Pos()), fmt.Sprintf("%d sites", n), "recvPacket no longer allocates and reads the body after decoding the length")
			// the limit is inclusive: the peer's sendPacket may fill a frame to exactly maxMsgLength, so the refusal
			// is entered only with length > limit
			for _, b := range rp.Blocks {
				iff, ok := b.Instrs[len(b.Instrs)-1].(*ssa.If)
				if !ok || len(b.Succs) != 2 {
					continue
				}
				cmp, ok := iff.Cond.(*ssa.BinOp)
				if !ok {
					continue
				}
				var other, mine ssa.Value
				switch {
				case fromLength(cmp.X, 0):
					other, mine = cmp.Y, cmp.X
				case fromLength(cmp.Y, 0):
					other, mine = cmp.X, cmp.Y
				default:
					continue
				}
				if k, isK := constInt(other); !isK || k != 256*1024 {
					continue
				}
				for side, sb := range b.Succs {
					ret, isRet := sb.Instrs[len(sb.Instrs)-1].(*ssa.Return)
					if !isRet || len(ret.Results) == 0 || isNilConst(ret.Results[len(ret.Results)-1]) || len(sb.Preds) != 1 {
						continue
					}
					lt := z.term(mine) // the value compared: the decoded length, or the join it reaches the test through
					facts := z.condFacts(cmp, side == 0)
					c.check(entails(facts, leq(linConst(256*1024+1), lt, 0)), "O3", "recvPacket refuses only frames beyond the limit", p.Pos(cmp.Pos()), "refused: length > maxMsgLength",
						"a frame of exactly maxMsgLength bytes — which the peer's sendPacket accepts — is refused as too long: the session ends on a legal packet (a full NAME batch, a full DATA chunk)")
				}
			}
		}
		// O4: a failed body read is an error
		var bodyRead *ssa.Call
		eachInstr(rp, func(in ssa.Instruction) {
			if call, ok := in.(*ssa.Call); ok && callIs(&call.Call, "io.ReadFull") {
				bodyRead = call
			}
		})
		if bodyRead != nil {
			var errEx *ssa.Extract
			for _, r := range *bodyRead.Referrers() {
				if ex, ok := r.(*ssa.Extract); ok && ex.Index == 1 {
					errEx = ex
				}
			}
			okErr := false
			if errEx != nil {
				for _, nt := range nilTests(errEx) {
					nilRet := reachFromBlock(nt.nonNil, func(in ssa.Instruction) bool {
						r, ok := in.(*ssa.Return)
						return ok && isReturn(in) && len(r.Results) == 3 && mayBeNilHere(r.Results[2])
					}, nil)
					okErr = !nilRet
				}
			}
			c.check(okErr, "O4", "short frame is an error", p.Pos(bodyRead.Pos()), "a failed body read never returns a nil error", "a frame whose body is shorter than declared can be delivered (short) with a nil error")
		}
	}
	if rdp := p.FuncIn(p.Sshfx, "readPacket"); rdp == nil {
		c.missing("O3", "sshfx readPacket")
	} else {
		z := w.get(rdp)
		var lengthV ssa.Value
		eachInstr(rdp, func(in ssa.Instruction) {
			if call, ok := in.(*ssa.Call); ok && calleeName(&call.Call) == "unmarshalUint32" {
				lengthV = call
			}
		})
		if lengthV != nil {
			lt := z.term(lengthV)
			eachInstr(rdp, func(in ssa.Instruction) {
				if ms, ok := in.(*ssa.MakeSlice); ok && dominates(lengthV.(ssa.Instruction), in) {
					bound := lt.plus(linVar("p:maxPacketLength"), -1)
					ok1, _ := z.prove(in, []lin{bound})
					// the limit is whatever the caller's allowance is held in (a parameter, a field of a parameter
					// struct): the non-constant value the decoded length is compared with
					if !ok1 {
						for _, r := range *lengthV.Referrers() {
							cmp, isCmp := r.(*ssa.BinOp)
							if !isCmp {
								continue
							}
							other := cmp.X
							if other == lengthV {
								other = cmp.Y
							}
							if _, isK := other.(*ssa.Const); isK {
								continue
							}
							if okM, _ := z.prove(in, []lin{lt.plus(z.term(other), -1)}); okM {
								ok1 = true
							}
						}
					}
					ok2, _ := z.prove(in, []lin{leq(linConst(5), lt, 0)})
					// … and what is allocated is the frame's own length, not the limit (a 100-byte frame must not cost the
					// caller's whole allowance)
					c.check(stripConv(ms.Len) == lengthV || stripConv(ms.Len) == stripConv(lengthV), "O3", "filexfer readPacket allocates the frame's length", p.Pos(in.Pos()), "make([]byte, length)",
						"filexfer's readPacket allocates "+affineOf(ms.Len).String()+" bytes for the body instead of the length the frame announces: every small packet costs the full limit")
					c.check(ok1 && ok2, "O3", "filexfer readPacket limits", p.Pos(in.Pos()), "5 <= length <= maxPacketLength before allocating", "filexfer's readPacket allocates the body without the length limits")
				}
				// and nothing longer than four bytes is refused as too short: a packet with a type, an id and no body (an
				// empty extended reply) is five bytes, and the codec's own MarshalPacket writes it
				if r, ok := in.(*ssa.Return); ok && isReturn(in) && len(r.Results) == 2 && dominates(lengthV.(ssa.Instruction), in) {
					isShort := false
					for _, l := range leavesOf(r.Results[1]) {
						if l.Kind == leafGlobal && l.V.Name() == "ErrShortPacket" {
							isShort = true
						}
					}
					if isShort {
						okS, why := z.prove(in, []lin{leq(lt, linConst(4), 0)})
						c.check(okS, "O3", "filexfer readPacket refuses as short only what is shorter than five bytes", p.Pos(in.Pos()), "length <= 4 where ErrShortPacket is returned",
							"filexfer's readPacket refuses a frame as too short whose length is not shown to be below five ("+why+"): a body-less packet that the codec itself encodes cannot be read back")
					}
				}
			})
			// the error of the body read is returned
			okRet := false
			eachInstr(rdp, func(in ssa.Instruction) {
				if r, ok := in.(*ssa.Return); ok && isReturn(in) {
					for _, l := range leavesOf(r.Results[1]) {
						if l.Kind == leafCallResult && callIs(l.Call, "io.ReadFull") && l.Idx == 1 {
							okRet = true
						}
					}
				}
			})
			c.check(okRet, "O4", "filexfer short frame is an error", p.Pos(rdp.Pos()), "the body read's error is returned", "filexfer's readPacket drops the error of the body read")
		}
	}

}

// checkCutFrameIsNotCleanEOF (O4): io.EOF is how a frame reader tells its caller that the stream ended *between* two
// frames.  io.ReadFull answers io.EOF when it could read nothing at all, so the read of a frame's body answers io.EOF
// when the stream ends right behind the length word — inside a frame.  In both frame readers (recvPacket of the wire
// codec, readPacket of filexfer) the error of the body read (the last io.ReadFull of the function) must not be handed
// back as it is unless it has been compared with io.EOF and found different: a serve loop would take
// <frame><length word> for a clean shutdown.
func checkCutFrameIsNotCleanEOF(c *Ctx, rule string) {
	p := c.P
	n := 0
	for _, fn := range []*ssa.Function{p.Func("recvPacket"), p.FuncIn(p.Sshfx, "readPacket")} {
		if fn == nil {
			continue
		}
		var reads []*ssa.Call
		eachInstr(fn, func(in ssa.Instruction) {
			if call, ok := in.(*ssa.Call); ok && (callIs(&call.Call, "io.ReadFull") || callIs(&call.Call, "io.ReadAtLeast")) {
				reads = append(reads, call)
			}
		})
		if len(reads) < 2 {
			c.und(rule, fnName(fn)+" reads a length and a body", p.Pos(fn.Pos()), fmt.Sprintf("%d io.ReadFull calls found", len(reads)))
			continue
		}
		body := reads[0]
		for _, r := range reads {
			if dominates(body, r) {
				body = r
			}
		}
		var errEx ssa.Value
		for _, r := range *body.Referrers() {
			if ex, ok := r.(*ssa.Extract); ok && ex.Index == 1 {
				errEx = ex
			}
		}
		if errEx == nil {
			c.bad(rule, fnName(fn)+": a cut frame is not a clean end of stream", p.Pos(body.Pos()), "the error of the body read is ignored")
			continue
		}
		n++
		idx := fn.Signature.Results().Len() - 1
		bad := ""
		for _, rl := range returnLeaves(fn, idx) {
			if rl.v != errEx {
				continue // wrapped, replaced or another error
			}
			// handed back raw: only where it was compared with io.EOF and differs
			differs := false
			for b := rl.block; b != nil && !differs; b = b.Idom() {
				preds := []*ssa.BasicBlock{rl.pred}
				if b != rl.block || rl.pred == nil {
					preds = b.Preds
				}
				for _, pred := range preds {
					for cv, truth := range edgeConds(b, pred) {
						bo, ok := cv.(*ssa.BinOp)
						if !ok || (bo.Op != token.EQL && bo.Op != token.NEQ) {
							continue
						}
						other := bo.Y
						if bo.X != errEx {
							if bo.Y != errEx {
								continue
							}
							other = bo.X
						}
						isEOF := false
						for _, l := range leavesOf(other) {
							if l.Kind == leafGlobal && l.V.Name() == "EOF" {
								isEOF = true
							}
						}
						if isEOF && ((bo.Op == token.NEQ) == truth) {
							differs = true
						}
					}
				}
			}
			if !differs {
				bad = p.Pos(body.Pos())
			}
		}
		c.check(bad == "", rule, fnName(fn)+": a cut frame is not a clean end of stream", p.Pos(body.Pos()), "io.EOF from the body read is turned into an error of its own",
			"the error of the body read is handed back as it is: when the stream ends right behind a frame's length word io.ReadFull answers io.EOF, the clean-end sentinel, and the caller takes a cut frame for an orderly shutdown")
	}
	c.check(n >= 2, rule, "frame readers", "?", fmt.Sprintf("%d readers", n), fmt.Sprintf("only %d frame readers found (recvPacket, filexfer readPacket)", n))
}

// checkRequestConstructorErrorExamined (C08.O8): filexfer's RequestPacket.UnmarshalFrom asks newPacketFromType for an
// empty packet of the type byte; for the 237 bytes that are no request type it gets (nil, error).  The decoder must not
// reach the call of the packet's UnmarshalPacketBody on the side where that error is not nil — tested on another
// variable (the buffer's sticky error, say) every non-request type byte dereferences a nil interface: a panic in
// UnmarshalBinary/ReadFrom instead of an error.
func checkRequestConstructorErrorExamined(c *Ctx, rule string) {
	p := c.P
	var fn *ssa.Function
	for _, f := range p.ModuleFuncs() {
		if f.Pkg == p.Sshfx && f.Name() == "UnmarshalFrom" && f.Signature.Recv() != nil && typeName(f.Signature.Recv().Type()) == "RequestPacket" {
			fn = f
		}
	}
	if fn == nil {
		c.missing(rule, "sshfx (*RequestPacket).UnmarshalFrom")
		return
	}
	var ctor *ssa.Call
	eachInstr(fn, func(in ssa.Instruction) {
		if call, ok := in.(*ssa.Call); ok && calleeName(&call.Call) == "newPacketFromType" {
			ctor = call
		}
	})
	key := "RequestPacket.UnmarshalFrom decodes a body only with a packet"
	if ctor == nil {
		c.okT(rule, key, p.Pos(fn.Pos()), "the constructor table is written into the decoder itself (its arms are judged by C06.R12)")
		return
	}
	var errEx *ssa.Extract
	for _, r := range *ctor.Referrers() {
		if ex, ok := r.(*ssa.Extract); ok && ex.Index == 1 {
			errEx = ex
		}
	}
	isBody := func(in ssa.Instruction) bool {
		cc := callOf(in)
		return cc != nil && cc.IsInvoke() && cc.Method.Name() == "UnmarshalPacketBody"
	}
	good := errEx != nil
	if good {
		tests := nilTests(errEx)
		if len(tests) == 0 {
			good = false
		}
		for _, nt := range tests {
			if reachFromNilSide(nt, true, isBody, nil) {
				good = false
			}
		}
	}
	c.check(good, rule, key, p.Pos(ctor.Pos()), "the error of newPacketFromType is tested and the body decoder lies on its nil side", "the body decoder of the request packet can be called although newPacketFromType failed (its error is not what is tested): every type byte that is no request dereferences a nil packet and panics")
}

// checkResultsUsedOnlyWithoutError (C20.Z11): a client function of this package that returns (value, error) returns a
// nil value with its errors (Lstat: `return nil, err`).  In client code, a pointer or interface result of such a call is
// dereferenced — a method called on it, a field read — only where the call's error is known to be nil (or the value
// itself was tested).  `err == nil || fi.IsDir()` evaluates fi.IsDir() exactly when there was an error: a refused or
// malformed reply panics the caller.
func checkResultsUsedOnlyWithoutError(c *Ctx, rule string) {
	p := c.P
	n := 0
	for _, fn := range p.LibFuncs() {
		if outermost(fn).Package() != p.Sftp || !isClientSide(fn) {
			continue
		}
		eachInstr(fn, func(in ssa.Instruction) {
			call, ok := in.(*ssa.Call)
			if !ok {
				return
			}
			callee := call.Call.StaticCallee()
			if callee == nil || !inModule(callee) || callee.Blocks == nil {
				return
			}
			res := callee.Signature.Results()
			if res.Len() != 2 || !isErrorType(res.At(1).Type()) {
				return
			}
			switch res.At(0).Type().Underlying().(type) {
			case *types.Pointer, *types.Interface:
			default:
				return
			}
			// only callees that do hand back a nil value together with an error
			nilWithErr := false
			eachInstr(callee, func(x ssa.Instruction) {
				if r, ok := x.(*ssa.Return); ok && len(r.Results) == 2 && isNilConst(r.Results[0]) && !isNilConst(r.Results[1]) {
					nilWithErr = true
				}
			})
			if !nilWithErr {
				return
			}
			var v, e *ssa.Extract
			for _, r := range *call.Referrers() {
				if ex, ok := r.(*ssa.Extract); ok {
					if ex.Index == 0 {
						v = ex
					} else {
						e = ex
					}
				}
			}
			if v == nil || e == nil || v.Referrers() == nil {
				return
			}
			errTests := nilTests(e)
			valTests := nilTests(v)
			if len(errTests) == 0 && len(valTests) == 0 {
				return // handed on as a pair, not examined here
			}
			for _, r := range *v.Referrers() {
				deref := false
				switch x := r.(type) {
				case *ssa.Call:
					deref = x.Call.IsInvoke() && x.Call.Value == ssa.Value(v)
					if !deref && x.Call.StaticCallee() != nil && x.Call.StaticCallee().Signature.Recv() != nil && len(x.Call.Args) > 0 && x.Call.Args[0] == ssa.Value(v) {
						if _, isPtr := v.Type().Underlying().(*types.Pointer); isPtr {
							deref = false // a method on a pointer receiver may accept nil; not judged
						}
					}
				case *ssa.FieldAddr:
					deref = x.X == ssa.Value(v)
				case *ssa.UnOp:
					deref = x.Op == token.MUL && x.X == ssa.Value(v)
				}
				if !deref {
					continue
				}
				n++
				safe := false
				for _, nt := range errTests {
					if nt.isNil != nil && nt.isNil != nt.nonNil && (nt.isNil == r.Block() || nt.isNil.Dominates(r.Block())) && edgeOnly(nt.iff.Block(), nt.isNil) {
						safe = true
					}
				}
				for _, nt := range valTests {
					if nt.nonNil != nil && nt.isNil != nt.nonNil && (nt.nonNil == r.Block() || nt.nonNil.Dominates(r.Block())) && edgeOnly(nt.iff.Block(), nt.nonNil) {
						safe = true
					}
				}
				c.check(safe, rule, fmt.Sprintf("result of %s used in %s only without error", calleeName(&call.Call), fnName(fn)), p.Pos(r.Pos()), "behind err == nil (or a nil test of the value)",
					"the value returned by "+calleeName(&call.Call)+" is dereferenced where its error may be non-nil (the value is then nil): a refused or malformed reply panics the caller")
			}
		})
	}
	c.check(n >= 3, rule, "dereferenced results of client calls", "?", fmt.Sprintf("%d uses", n), fmt.Sprintf("only %d uses found", n))
}

// checkShortInputIsReported (C08.O11, shared as C07.R22 and C20.Z12): "total" means a truncated input is *refused*, not
// only survived.  Three shapes, all followed path by path:
//   - a checked primitive of package sftp (unmarshal…Safe): from the side of its length guard on which the buffer is
//     too short, every return carries an error that is not nil;
//   - a decoder of package sftp that calls such a primitive (or unmarshalAttrs / unmarshalFileStat …): from the failing
//     side of the test of the callee's error, every return carries a non-nil error;
//   - a Consume… method of the filexfer Buffer: from the short side of its length guard, no return is reached without
//     a store to the Buffer's sticky Err.
// A decoder that answers "fine, empty string" for a cut packet lets the request be acted upon with made-up fields.
func checkShortInputIsReported(c *Ctx, rule string) {
	p := c.P
	nPrim, nProp, nBuf := 0, 0, 0
	lastIsNotNonNil := func(in ssa.Instruction) bool {
		r, ok := in.(*ssa.Return)
		if !ok || len(r.Results) == 0 {
			return false
		}
		last := r.Results[len(r.Results)-1]
		if !isErrorType(last.Type()) {
			return false
		}
		cls, _ := classify(last, reachEnv, 0)
		return cls != clsNonNil
	}
	// the side of a comparison on which len(b) is the smaller operand
	shortSide := func(fn *ssa.Function, iff *ssa.If, isLen func(ssa.Value) bool) *ssa.BasicBlock {
		cmp, ok := iff.Cond.(*ssa.BinOp)
		if !ok {
			return nil
		}
		lx, ly := isLen(cmp.X), isLen(cmp.Y)
		if lx == ly {
			return nil
		}
		// only the sides on which len is *strictly* smaller (a trim `if len(v) > n { v = v[:n] }` is no guard)
		switch {
		case cmp.Op == token.LSS && lx, cmp.Op == token.GTR && ly:
			return iff.Block().Succs[0]
		case cmp.Op == token.GEQ && lx, cmp.Op == token.LEQ && ly:
			return iff.Block().Succs[1]
		}
		return nil
	}
	for _, fn := range p.LibFuncs() {
		if fn.Pkg != p.Sftp || fn.Parent() != nil {
			continue
		}
		nm := fn.Name()
		// (a) the checked primitives
		if strings.HasPrefix(nm, "unmarshal") && strings.HasSuffix(nm, "Safe") && len(fn.Params) >= 1 {
			b := fn.Params[len(fn.Params)-1]
			isLen := func(v ssa.Value) bool {
				v = stripConv(v)
				call, ok := v.(*ssa.Call)
				return ok && builtinName(&call.Call) == "len" && len(call.Call.Args) == 1 && (call.Call.Args[0] == ssa.Value(b) || isByteSlice(call.Call.Args[0].Type()))
			}
			for _, blk := range fn.Blocks {
				iff, ok := blk.Instrs[len(blk.Instrs)-1].(*ssa.If)
				if !ok {
					continue
				}
				side := shortSide(fn, iff, isLen)
				if side == nil {
					continue
				}
				nPrim++
				c.check(!reachFromBlock(side, lastIsNotNonNil, nil), rule, fnName(fn)+" refuses input that is too short", p.Pos(iff.Pos()), "an error on the short side of the length guard",
					"the checked primitive can return without an error although the buffer is shorter than what it is to decode: a truncated packet decodes to made-up values and is acted upon")
			}
		}
		// (b) errors of the primitives are handed up
		if strings.HasPrefix(nm, "unmarshal") || nm == "UnmarshalBinary" {
			res := fn.Signature.Results()
			if res.Len() == 0 || !isErrorType(res.At(res.Len()-1).Type()) {
				continue
			}
			eachInstr(fn, func(in ssa.Instruction) {
				call, ok := in.(*ssa.Call)
				if !ok {
					return
				}
				callee := call.Call.StaticCallee()
				if callee == nil || callee.Pkg != p.Sftp || !strings.HasPrefix(callee.Name(), "unmarshal") {
					return
				}
				cres := callee.Signature.Results()
				if cres.Len() < 2 || !isErrorType(cres.At(cres.Len()-1).Type()) {
					return
				}
				var errEx *ssa.Extract
				for _, r := range *call.Referrers() {
					if ex, ok := r.(*ssa.Extract); ok && ex.Index == cres.Len()-1 {
						errEx = ex
					}
				}
				if errEx == nil {
					return
				}
				for _, nt := range nilTests(errEx) {
					nProp++
					c.check(!reachFromNilSide(nt, true, lastIsNotNonNil, nil), rule, fmt.Sprintf("%s hands up the error of %s", fnName(fn), callee.Name()), p.Pos(call.Pos()), "every return behind the failed step carries an error",
						"after "+callee.Name()+" failed, "+fnName(fn)+" can return a nil error: the truncated packet counts as decoded")
				}
			})
		}
	}
	// (c) the filexfer Buffer
	for _, fn := range p.ModuleFuncs() {
		if fn.Pkg != p.Sshfx || fn.Parent() != nil || fn.Signature.Recv() == nil || typeName(fn.Signature.Recv().Type()) != "Buffer" || !strings.HasPrefix(fn.Name(), "Consume") {
			continue
		}
		isLen := func(v ssa.Value) bool {
			v = stripConv(v)
			call, ok := v.(*ssa.Call)
			if !ok {
				return false
			}
			if builtinName(&call.Call) == "len" {
				return true
			}
			return call.Call.StaticCallee() != nil && call.Call.StaticCallee().Name() == "Len"
		}
		isErrStore := func(in ssa.Instruction) bool {
			st, ok := in.(*ssa.Store)
			if !ok || isNilConst(st.Val) {
				return false
			}
			_, name, _, ok := fieldOf(st.Addr)
			return ok && name == "Err"
		}
		for _, blk := range fn.Blocks {
			iff, ok := blk.Instrs[len(blk.Instrs)-1].(*ssa.If)
			if !ok {
				continue
			}
			side := shortSide(fn, iff, isLen)
			if side == nil {
				continue
			}
			nBuf++
			c.check(!reachFromBlock(side, isReturn, isErrStore), rule, fnName(fn)+" records short input in the sticky error", p.Pos(iff.Pos()), "b.Err is set on the short side of the length guard",
				"a Consume method of the filexfer Buffer can return from its short-input branch without setting the sticky error: a truncated field decodes as zero and nobody is told")
		}
	}
	c.check(nPrim >= 3 && nProp >= 20 && nBuf >= 4, rule, "length guards and error hand-ups examined", "?", fmt.Sprintf("%d primitive guards, %d hand-ups, %d Buffer guards", nPrim, nProp, nBuf), fmt.Sprintf("only %d primitive guards, %d hand-ups and %d Buffer guards found", nPrim, nProp, nBuf))
}

// valueLive: v is consumed by something other than a join that is itself consumed by nothing.
func valueLive(v ssa.Value, seen map[ssa.Value]bool) bool {
	if seen[v] {
		return false
	}
	seen[v] = true
	refs := v.Referrers()
	if refs == nil {
		return true
	}
	for _, r := range *refs {
		switch x := r.(type) {
		case *ssa.DebugRef:
		case *ssa.Phi:
			if valueLive(x, seen) {
				return true
			}
		default:
			return true
		}
	}
	return false
}

// checkReplyErrorsConsumed (C20.Z13): in a function that decodes replies (it has a case for the STATUS type byte),
// an error computed from the reply is what the function reports.  An error value that is computed and then
// consumed by nothing — the worker hands on the transport's error instead of the one it decoded — loses the
// refusal, the EOF and the malformed reply alike: the transfer waits for an end that is never reported.
func checkReplyErrorsConsumed(c *Ctx, rule string) {
	p := c.P
	status := int64(-1)
	if k := p.Sftp.Const("sshFxpStatus"); k != nil {
		status, _ = constInt(k.Value)
	}
	if status < 0 {
		c.missing(rule, "sshFxpStatus")
		return
	}
	n := 0
	for _, fn := range p.LibFuncs() {
		if outermost(fn).Package() != p.Sftp || !isClientSide(fn) {
			continue
		}
		hasStatus := false
		eachInstr(fn, func(in ssa.Instruction) {
			if bo, ok := in.(*ssa.BinOp); ok && (bo.Op == token.EQL || bo.Op == token.NEQ) {
				for _, s := range []ssa.Value{bo.X, bo.Y} {
					if k, ok := constInt(s); ok && k == status {
						if _, isC := s.(*ssa.Const); isC {
							hasStatus = true
						}
					}
				}
			}
		})
		if !hasStatus {
			continue
		}
		ord := map[string]int{}
		eachInstr(fn, func(in ssa.Instruction) {
			call, ok := in.(*ssa.Call)
			if !ok {
				return
			}
			f := call.Call.StaticCallee()
			if f == nil || !inModule(f) {
				return
			}
			res := f.Signature.Results()
			if res.Len() != 1 || res.At(0).Type().String() != "error" {
				return
			}
			n++
			ord[f.Name()]++
			key := fmt.Sprintf("%s: error of %s #%d", fnName(fn), f.Name(), ord[f.Name()])
			c.check(valueLive(call, map[ssa.Value]bool{}), rule, key, p.Pos(call.Pos()), "consumed",
				"the error computed from the reply is consumed by nothing: the function reports something else (the transport's error, or none) and the refusal, the end of the file or the malformed reply is lost")
		})
	}
	c.check(n >= 10, rule, "errors computed in reply decoders", "?", fmt.Sprintf("%d calls", n), fmt.Sprintf("only %d calls found", n))
}
