package main

import (
	"fmt"
	"go/constant"
	"go/token"
	"go/types"
	"sort"
	"strings"

	"golang.org/x/tools/go/ssa"
)

// ---------- identifying calls ----------

// callOf returns the CallCommon of an instruction that is a call, go or defer.
func callOf(in ssa.Instruction) *ssa.CallCommon {
	switch x := in.(type) {
	case *ssa.Call:
		return &x.Call
	case *ssa.Go:
		return &x.Call
	case *ssa.Defer:
		return &x.Call
	}
	return nil
}

// calleeFunc is the *types.Func a call resolves to: the static callee's object,
// or the interface method for an invoke. nil for closures and func values.
func calleeFunc(cc *ssa.CallCommon) *types.Func {
	if cc == nil {
		return nil
	}
	if cc.IsInvoke() {
		return cc.Method
	}
	if f := cc.StaticCallee(); f != nil {
		if o, ok := f.Object().(*types.Func); ok {
			return o
		}
		// synthetic wrapper/bound method: try origin
		if f.Synthetic != "" && f.Object() == nil {
			return nil
		}
	}
	return nil
}

// funcID renders a *types.Func as "pkgpath.Name" or "pkgpath.(Recv).Name" / "(*Recv)".
func funcID(f *types.Func) string {
	if f == nil {
		return ""
	}
	sig, _ := f.Type().(*types.Signature)
	pk := ""
	if f.Pkg() != nil {
		pk = f.Pkg().Path()
	}
	if sig != nil && sig.Recv() != nil {
		t := sig.Recv().Type()
		ptr := ""
		if p, ok := t.(*types.Pointer); ok {
			t = p.Elem()
			ptr = "*"
		}
		name := t.String()
		if n, ok := t.(*types.Named); ok {
			name = n.Obj().Name()
			if n.Obj().Pkg() != nil {
				pk = n.Obj().Pkg().Path()
			}
		}
		return fmt.Sprintf("%s.(%s%s).%s", pk, ptr, name, f.Name())
	}
	return pk + "." + f.Name()
}

// isCall reports whether in is a call (not go/defer unless anyKind) to the function
// with the given funcID. Receiver pointer-ness is ignored when id has no '*'.
func callIs(cc *ssa.CallCommon, ids ...string) bool {
	f := calleeFunc(cc)
	if f == nil {
		return false
	}
	got := funcID(f)
	for _, id := range ids {
		if got == id {
			return true
		}
	}
	return false
}

// methodCallOn reports whether cc calls a method named meth (static or invoke) whose
// receiver's named type (pointer stripped) is typeName in package pkgPath.
func methodCallOn(cc *ssa.CallCommon, pkgPath, typeName, meth string) bool {
	f := calleeFunc(cc)
	if f == nil || f.Name() != meth {
		return false
	}
	sig := f.Type().(*types.Signature)
	if sig.Recv() == nil {
		return false
	}
	t := sig.Recv().Type()
	if p, ok := t.(*types.Pointer); ok {
		t = p.Elem()
	}
	n, ok := t.(*types.Named)
	if !ok {
		return false
	}
	if n.Obj().Name() != typeName {
		return false
	}
	if n.Obj().Pkg() == nil {
		return pkgPath == ""
	}
	return n.Obj().Pkg().Path() == pkgPath
}

// recvOf returns the receiver operand of a method call (static or invoke).
func recvOf(cc *ssa.CallCommon) ssa.Value {
	if cc.IsInvoke() {
		return cc.Value
	}
	if f := cc.StaticCallee(); f != nil && f.Signature.Recv() != nil && len(cc.Args) > 0 {
		return cc.Args[0]
	}
	return nil
}

// argsOf returns the non-receiver arguments.
func argsOf(cc *ssa.CallCommon) []ssa.Value {
	if cc.IsInvoke() {
		return cc.Args
	}
	if f := cc.StaticCallee(); f != nil && f.Signature.Recv() != nil && len(cc.Args) > 0 {
		return cc.Args[1:]
	}
	return cc.Args
}

// builtinName returns the name if the call is to a builtin.
func builtinName(cc *ssa.CallCommon) string {
	if b, ok := cc.Value.(*ssa.Builtin); ok {
		return b.Name()
	}
	return ""
}

// ---------- iteration ----------

func eachInstr(fn *ssa.Function, f func(ssa.Instruction)) {
	for _, b := range fn.Blocks {
		for _, in := range b.Instrs {
			f(in)
		}
	}
}

// eachInstrDeep visits fn and all closures nested in it.
func eachInstrDeep(fn *ssa.Function, f func(*ssa.Function, ssa.Instruction)) {
	for _, b := range fn.Blocks {
		for _, in := range b.Instrs {
			f(fn, in)
		}
	}
	for _, a := range fn.AnonFuncs {
		eachInstrDeep(a, f)
	}
}

func findInstrs(fn *ssa.Function, pred func(ssa.Instruction) bool) []ssa.Instruction {
	var out []ssa.Instruction
	eachInstr(fn, func(in ssa.Instruction) {
		if pred(in) {
			out = append(out, in)
		}
	})
	return out
}

// callsWhere returns plain Call instructions (not go/defer) matching pred.
func callsWhere(fn *ssa.Function, pred func(*ssa.CallCommon) bool) []ssa.Instruction {
	return findInstrs(fn, func(in ssa.Instruction) bool {
		if c, ok := in.(*ssa.Call); ok {
			return pred(&c.Call)
		}
		return false
	})
}

// anyCallsWhere also matches go and defer.
func anyCallsWhere(fn *ssa.Function, pred func(*ssa.CallCommon) bool) []ssa.Instruction {
	return findInstrs(fn, func(in ssa.Instruction) bool {
		if cc := callOf(in); cc != nil {
			return pred(cc)
		}
		return false
	})
}

func idxIn(in ssa.Instruction) int {
	for i, x := range in.Block().Instrs {
		if x == in {
			return i
		}
	}
	return -1
}

// ---------- dominance and reachability at instruction granularity ----------

// dominates: every path from entry to b passes a (a != b).
func dominates(a, b ssa.Instruction) bool {
	if a.Block() == b.Block() {
		return idxIn(a) < idxIn(b)
	}
	return a.Block().Dominates(b.Block())
}

// reachAvoiding reports whether some instruction satisfying target is reachable
// from the point just after start (or from function entry if start is nil)
// without passing an instruction satisfying barrier. Panic-terminated blocks are
// followed like any other.  The search is phi-sensitive (see reachCore).
func reachAvoiding(fn *ssa.Function, start ssa.Instruction, target, barrier func(ssa.Instruction) bool) bool {
	if len(fn.Blocks) == 0 {
		return false
	}
	if start == nil {
		return reachCore(fn.Blocks[0], 0, target, barrier)
	}
	return reachCore(start.Block(), idxIn(start)+1, target, barrier)
}

// ---- phi-sensitive reachability ----
//
// A search over (block, values of the phis fixed by the way the block was entered).  When a path enters a block
// through one predecessor, each phi of the block is the value on that edge; a branch that compares such a phi (or a
// phi of such phis) with nil or with a constant, where the value is known to be nil / non-nil / a constant, has only
// one feasible successor.  This is what makes `r = f(); if r != nil { return r }` after inlining f — a phi of the
// values f returned — as exact as the code it came from, and a flag variable as exact as the break it stands for.
// Only infeasible edges are pruned, so every real path is still searched.

type phiEnv map[*ssa.Phi]ssa.Value

// pathFacts: values known nil / non-nil from the branches taken on the current path
type pathFacts map[ssa.Value]valClass

var reachFacts pathFacts

type valClass int

const (
	clsUnknown valClass = iota
	clsNil
	clsNonNil
	clsConst
)

// neverNilCall is set by the program loader: is the result of this call never nil (errors.New, fmt.Errorf, a module
// function all of whose results are)?
var neverNilCall func(v ssa.Value) bool

func classify(v ssa.Value, env phiEnv, depth int) (valClass, ssa.Value) {
	for i := 0; i < 8; i++ {
		if c, ok := reachFacts[v]; ok {
			return c, v
		}
		ph, ok := v.(*ssa.Phi)
		if !ok {
			break
		}
		nv, ok := env[ph]
		if !ok {
			// a phi all of whose edges agree
			var cls valClass
			var rep ssa.Value
			if depth < 3 {
				for k, e := range ph.Edges {
					c, r := classify(e, env, depth+1)
					if c == clsConst {
						// constants must be equal
						if k > 0 && (cls != clsConst || !sameConst(rep, r)) {
							return clsUnknown, v
						}
					} else if k > 0 && c != cls {
						return clsUnknown, v
					}
					cls, rep = c, r
				}
				if cls == clsNil || cls == clsNonNil || cls == clsConst {
					return cls, rep
				}
			}
			return clsUnknown, v
		}
		v = nv
	}
	if c, ok := reachFacts[v]; ok {
		return c, v
	}
	switch x := v.(type) {
	case *ssa.Const:
		if x.Value == nil {
			if _, isBasic := x.Type().Underlying().(*types.Basic); isBasic {
				return clsUnknown, v
			}
			return clsNil, v
		}
		return clsConst, v
	case *ssa.MakeInterface, *ssa.Alloc, *ssa.MakeClosure, *ssa.MakeMap, *ssa.MakeChan, *ssa.MakeSlice, *ssa.FieldAddr, *ssa.IndexAddr, *ssa.Function, *ssa.Global:
		return clsNonNil, v
	case *ssa.ChangeInterface:
		return classify(x.X, env, depth)
	case *ssa.Call, *ssa.Extract:
		if neverNilCall != nil && neverNilCall(v) {
			return clsNonNil, v
		}
	case *ssa.UnOp:
		// a local variable that lives in memory (a named result next to a defer): the one store that reaches the load
		if a, ok := x.X.(*ssa.Alloc); ok && x.Op == token.MUL && depth < 3 && !classifyingLoad {
			// (reachingStores searches paths itself: no second level)
			classifyingLoad = true
			sts := reachingStores(x, a)
			classifyingLoad = false
			if len(sts) == 1 && sts[0].Parent() == x.Parent() {
				return classify(sts[0].Val, env, depth+1)
			}
		}
		// a package-level error sentinel (os.ErrClosed, io.EOF, errShortPacket …): assigned once, never nil
		if g, ok := x.X.(*ssa.Global); ok && x.Op == token.MUL && isErrorType(x.Type()) {
			n := g.Name()
			if strings.HasPrefix(n, "Err") || strings.HasPrefix(n, "err") || n == "EOF" {
				return clsNonNil, v
			}
		}
	}
	return clsUnknown, v
}

var classifyingLoad bool

func isErrorType(t types.Type) bool {
	n := namedOf(t)
	return n != nil && n.Obj().Pkg() == nil && n.Obj().Name() == "error"
}

func sameConst(a, b ssa.Value) bool {
	ca, ok1 := a.(*ssa.Const)
	cb, ok2 := b.(*ssa.Const)
	if !ok1 || !ok2 || ca.Value == nil || cb.Value == nil {
		return false
	}
	return constant.Compare(ca.Value, token.EQL, cb.Value)
}

// evalCond decides a branch condition under env: 1 true, 0 false, -1 unknown.
func evalCond(c ssa.Value, env phiEnv, depth int) int {
	if depth > 4 {
		return -1
	}
	switch x := c.(type) {
	case *ssa.Const:
		if x.Value != nil && x.Value.Kind() == constant.Bool {
			if constant.BoolVal(x.Value) {
				return 1
			}
			return 0
		}
	case *ssa.Phi:
		cls, v := classify(x, env, 0)
		if cls == clsConst {
			return evalCond(v, env, depth+1)
		}
	case *ssa.UnOp:
		if x.Op == token.NOT {
			if r := evalCond(x.X, env, depth+1); r >= 0 {
				return 1 - r
			}
		}
	case *ssa.BinOp:
		if x.Op != token.EQL && x.Op != token.NEQ {
			return -1
		}
		cx, vx := classify(x.X, env, 0)
		cy, vy := classify(x.Y, env, 0)
		eq := -1
		switch {
		case cx == clsNil && cy == clsNil:
			eq = 1
		case (cx == clsNil && cy == clsNonNil) || (cx == clsNonNil && cy == clsNil):
			eq = 0
		case cx == clsConst && cy == clsConst:
			ca, cb := vx.(*ssa.Const), vy.(*ssa.Const)
			if ca.Value.Kind() == cb.Value.Kind() || (ca.Value.Kind() != constant.String && cb.Value.Kind() != constant.String && ca.Value.Kind() != constant.Bool && cb.Value.Kind() != constant.Bool) {
				if constant.Compare(ca.Value, token.EQL, cb.Value) {
					eq = 1
				} else {
					eq = 0
				}
			}
		}
		if eq < 0 {
			return -1
		}
		if x.Op == token.NEQ {
			return 1 - eq
		}
		return eq
	}
	return -1
}

func envKey(env phiEnv) string {
	if len(env) == 0 {
		return ""
	}
	var parts []string
	for ph, v := range env {
		cls, r := classify(v, nil, 3)
		switch cls {
		case clsNil:
			parts = append(parts, fmt.Sprintf("%p=nil", ph))
		case clsNonNil:
			parts = append(parts, fmt.Sprintf("%p=nn", ph))
		case clsConst:
			parts = append(parts, fmt.Sprintf("%p=%s", ph, r.(*ssa.Const).Value.ExactString()))
		}
	}
	sort.Strings(parts)
	return strings.Join(parts, ",")
}

func factsKey(f pathFacts) string {
	if len(f) == 0 {
		return ""
	}
	var parts []string
	for v, c := range f {
		parts = append(parts, fmt.Sprintf("%p=%d", v, c))
	}
	sort.Strings(parts)
	return strings.Join(parts, ",")
}

// reachEnv is the phi environment of the path on which target/barrier are being evaluated (for predicates that want to
// classify a value exactly, e.g. "this return may deliver nil").
var reachEnv phiEnv

// mayBeNilHere: can v be nil on the path being searched?
func mayBeNilHere(v ssa.Value) bool {
	cls, _ := classify(v, reachEnv, 0)
	return cls != clsNonNil && cls != clsConst
}

// onlyViaEdge: every path from the entry of fn to an instruction satisfying target takes the edge from -> from.Succs[succ]
// (phi-sensitive).  This is the path form of "target is dominated by that edge", and unlike dominance it survives a
// join between the edge and the target (code inlined from a helper returns through a join).
func onlyViaEdge(fn *ssa.Function, from *ssa.BasicBlock, succ int, target func(ssa.Instruction) bool) bool {
	if len(fn.Blocks) == 0 || succ >= len(from.Succs) {
		return false
	}
	to := from.Succs[succ]
	return !reachCoreX(fn.Blocks[0], 0, target, nil, func(a, b *ssa.BasicBlock, idx int) bool { return a == from && b == to && idx == succ })
}

// edgeRef names a control-flow edge: successor number succ of block from.
type edgeRef struct {
	from *ssa.BasicBlock
	succ int
}

// onlyViaEdges: every path from the entry of fn to target takes one of the given edges.
func onlyViaEdges(fn *ssa.Function, edges []edgeRef, target func(ssa.Instruction) bool) bool {
	if len(fn.Blocks) == 0 || len(edges) == 0 {
		return false
	}
	return !reachCoreX(fn.Blocks[0], 0, target, nil, func(a, b *ssa.BasicBlock, idx int) bool {
		for _, e := range edges {
			if e.from == a && e.succ == idx {
				return true
			}
		}
		return false
	})
}

// reachCore searches from instruction index `from` of block b.
func reachCore(b *ssa.BasicBlock, from int, target, barrier func(ssa.Instruction) bool) bool {
	return reachCoreX(b, from, target, barrier, nil)
}

func reachCoreX(b *ssa.BasicBlock, from int, target, barrier func(ssa.Instruction) bool, blocked func(a, b *ssa.BasicBlock, succIdx int) bool) bool {
	var bar func(ssa.Instruction, int) bool
	if barrier != nil {
		bar = func(in ssa.Instruction, _ int) bool { return barrier(in) }
	}
	return reachStagedX(b, from, []func(ssa.Instruction) bool{target}, bar, blocked)
}

// reachStaged: is there a path from the start of b that meets an instruction satisfying milestones[0], later one
// satisfying milestones[1], and so on, without passing an instruction for which barrier(in, k) holds while k milestones
// have been met?  One search, so that what the path knows (phi values, nil facts) carries over from stage to stage.
func reachStaged(b *ssa.BasicBlock, milestones []func(ssa.Instruction) bool, barrier func(ssa.Instruction, int) bool) bool {
	return reachStagedX(b, 0, milestones, barrier, nil)
}

func reachStagedX(b *ssa.BasicBlock, from int, milestones []func(ssa.Instruction) bool, barrier func(ssa.Instruction, int) bool, blocked func(a, b *ssa.BasicBlock, succIdx int) bool) bool {
	defer func(old phiEnv) { reachEnv = old }(reachEnv)
	type state struct {
		b     *ssa.BasicBlock
		from  int
		env   phiEnv
		facts pathFacts
		stage int
	}
	defer func(old pathFacts) { reachFacts = old }(reachFacts)
	visited := map[string]bool{}
	work := []state{{b, from, nil, seedFacts, 0}}
	seedFacts = nil
	steps := 0
	for len(work) > 0 {
		st := work[len(work)-1]
		work = work[:len(work)-1]
		steps++
		if steps > 20000 {
			return true // give up precisely: assume reachable
		}
		stop := false
		reachEnv = st.env
		reachFacts = st.facts
		for i := st.from; i < len(st.b.Instrs); i++ {
			in := st.b.Instrs[i]
			if barrier != nil && barrier(in, st.stage) {
				stop = true
				break
			}
			if milestones[st.stage](in) {
				st.stage++
				if st.stage == len(milestones) {
					return true
				}
			}
		}
		if stop {
			continue
		}
		allow := []bool{true, true}
		if len(st.b.Succs) == 2 {
			if iff, ok := st.b.Instrs[len(st.b.Instrs)-1].(*ssa.If); ok {
				switch evalCond(iff.Cond, st.env, 0) {
				case 1:
					allow[1] = false
				case 0:
					allow[0] = false
				}
			}
		}
		for si, s := range st.b.Succs {
			if si < 2 && !allow[si] {
				continue
			}
			if blocked != nil && blocked(st.b, s, si) {
				continue
			}
			// the phis of s take the values on the edge from st.b
			env := st.env
			idx := -1
			for k, p := range s.Preds {
				if p == st.b {
					idx = k
				}
			}
			copied := false
			for _, in := range s.Instrs {
				ph, ok := in.(*ssa.Phi)
				if !ok {
					break
				}
				if idx < 0 || idx >= len(ph.Edges) {
					continue
				}
				if !copied {
					ne := phiEnv{}
					for k, v := range env {
						ne[k] = v
					}
					env, copied = ne, true
				}
				// resolve through the current env so that chains of phis stay exact
				v := ph.Edges[idx]
				if p2, ok := v.(*ssa.Phi); ok {
					if r, ok := st.env[p2]; ok {
						v = r
					}
				}
				env[ph] = v
			}
			// what the branch taken says about the value it tested
			facts := st.facts
			if len(st.b.Succs) == 2 && si < 2 {
				if iff, ok := st.b.Instrs[len(st.b.Instrs)-1].(*ssa.If); ok {
					if bo, ok := iff.Cond.(*ssa.BinOp); ok && (bo.Op == token.EQL || bo.Op == token.NEQ) {
						x, y := bo.X, bo.Y
						if isNilConst(x) {
							x, y = y, x
						}
						if isNilConst(y) {
							isNil := (bo.Op == token.EQL) == (si == 0)
							nf := pathFacts{}
							for k, v := range facts {
								nf[k] = v
							}
							cls := clsNonNil
							if isNil {
								cls = clsNil
							}
							// the value itself, and the phi operand it stands for on this path
							nf[x] = cls
							if ph, ok := x.(*ssa.Phi); ok {
								if r, ok := st.env[ph]; ok {
									nf[r] = cls
								}
							}
							facts = nf
						}
					}
				}
			}
			// facts about values that the block being entered defines anew are stale
			if len(facts) > 0 {
				var drop []ssa.Value
				for v := range facts {
					if in, ok := v.(ssa.Instruction); ok && in.Block() == s {
						drop = append(drop, v)
					}
				}
				if len(drop) > 0 {
					nf := pathFacts{}
					for k, v := range facts {
						nf[k] = v
					}
					for _, v := range drop {
						delete(nf, v)
					}
					facts = nf
				}
			}
			key := fmt.Sprintf("%d|%d|%s|%s", s.Index, st.stage, envKey(env), factsKey(facts))
			if visited[key] {
				continue
			}
			visited[key] = true
			work = append(work, state{s, 0, env, facts, st.stage})
		}
	}
	return false
}

// isReturn matches normal returns; the synthetic return of a function's recover block
// (only reachable after a recovered panic) is not one.
func isReturn(in ssa.Instruction) bool {
	_, ok := in.(*ssa.Return)
	return ok && in.Block() != in.Parent().Recover
}

// alwaysBefore: every path from entry to `at` passes an instruction satisfying pred first.
func alwaysBefore(fn *ssa.Function, at ssa.Instruction, pred func(ssa.Instruction) bool) bool {
	return !reachAvoiding(fn, nil, func(in ssa.Instruction) bool { return in == at }, pred)
}

// alwaysAfter: every path from `from` to a normal return passes an instruction satisfying pred.
// A deferred call registered on every path to `from` (dominating Defer) that satisfies
// predDefer also counts (it runs at the return).
func alwaysAfter(fn *ssa.Function, from ssa.Instruction, pred func(ssa.Instruction) bool) bool {
	return !reachAvoiding(fn, from, isReturn, pred)
}

// blockReaches: plain block-level reachability.
func blockReaches(a, b *ssa.BasicBlock) bool {
	seen := map[*ssa.BasicBlock]bool{a: true}
	w := []*ssa.BasicBlock{a}
	for len(w) > 0 {
		x := w[len(w)-1]
		w = w[:len(w)-1]
		if x == b {
			return true
		}
		for _, s := range x.Succs {
			if !seen[s] {
				seen[s] = true
				w = append(w, s)
			}
		}
	}
	return false
}

// ---------- loops ----------

type loop struct {
	head   *ssa.BasicBlock
	blocks map[*ssa.BasicBlock]bool
}

// loopsOf finds natural loops (merged per header).
func loopsOf(fn *ssa.Function) []*loop {
	by := map[*ssa.BasicBlock]*loop{}
	var order []*loop
	for _, b := range fn.Blocks {
		for _, s := range b.Succs {
			if s.Dominates(b) { // back edge b->s
				l := by[s]
				if l == nil {
					l = &loop{head: s, blocks: map[*ssa.BasicBlock]bool{s: true}}
					by[s] = l
					order = append(order, l)
				}
				// add all nodes that reach b without going through s
				stack := []*ssa.BasicBlock{b}
				for len(stack) > 0 {
					x := stack[len(stack)-1]
					stack = stack[:len(stack)-1]
					if l.blocks[x] {
						continue
					}
					l.blocks[x] = true
					for _, p := range x.Preds {
						stack = append(stack, p)
					}
				}
			}
		}
	}
	return order
}

// innermostLoop returns the smallest loop containing b, or nil.
func innermostLoop(loops []*loop, b *ssa.BasicBlock) *loop {
	var best *loop
	for _, l := range loops {
		if l.blocks[b] && (best == nil || len(l.blocks) < len(best.blocks)) {
			best = l
		}
	}
	return best
}

// ---------- value helpers ----------

// stripConv removes conversions, interface boxing and type changes.
func stripConv(v ssa.Value) ssa.Value {
	for {
		switch x := v.(type) {
		case *ssa.Convert:
			v = x.X
		case *ssa.ChangeType:
			v = x.X
		case *ssa.MakeInterface:
			v = x.X
		case *ssa.ChangeInterface:
			v = x.X
		default:
			return v
		}
	}
}

func constInt(v ssa.Value) (int64, bool) {
	v = stripConv(v)
	c, ok := v.(*ssa.Const)
	if !ok || c.Value == nil {
		return 0, false
	}
	if c.Value.Kind() != constant.Int {
		return 0, false
	}
	if i, ok := constant.Int64Val(c.Value); ok {
		return i, true
	}
	if u, ok := constant.Uint64Val(c.Value); ok {
		return int64(u), true
	}
	return 0, false
}

func constString(v ssa.Value) (string, bool) {
	c, ok := stripConv(v).(*ssa.Const)
	if !ok || c.Value == nil || c.Value.Kind() != constant.String {
		return "", false
	}
	return constant.StringVal(c.Value), true
}

func isNilConst(v ssa.Value) bool {
	c, ok := v.(*ssa.Const)
	return ok && c.Value == nil
}

// fieldName of a FieldAddr / Field instruction.
func fieldOf(v ssa.Value) (structType types.Type, name string, base ssa.Value, ok bool) {
	switch x := v.(type) {
	case *ssa.FieldAddr:
		st := derefStruct(x.X.Type())
		if st == nil {
			return nil, "", nil, false
		}
		return derefType(x.X.Type()), st.Field(x.Field).Name(), x.X, true
	case *ssa.Field:
		st, _ := x.X.Type().Underlying().(*types.Struct)
		if st == nil {
			return nil, "", nil, false
		}
		return x.X.Type(), st.Field(x.Field).Name(), x.X, true
	}
	return nil, "", nil, false
}

func derefType(t types.Type) types.Type {
	if p, ok := t.Underlying().(*types.Pointer); ok {
		return p.Elem()
	}
	return t
}

func derefStruct(t types.Type) *types.Struct {
	st, _ := derefType(t).Underlying().(*types.Struct)
	return st
}

func namedOf(t types.Type) *types.Named {
	for i := 0; i < 4; i++ {
		t = types.Unalias(t)
		if n, ok := t.(*types.Named); ok {
			return n
		}
		p, ok := t.Underlying().(*types.Pointer)
		if !ok {
			return nil
		}
		t = p.Elem()
	}
	return nil
}

func typeName(t types.Type) string {
	if n := namedOf(t); n != nil {
		return n.Obj().Name()
	}
	return t.String()
}

// accessPath renders v as root.field.field… where root is a parameter, free variable,
// global or allocation. Loads (UnOp *) of field addresses are looked through.
func accessPath(v ssa.Value) (root ssa.Value, path string) {
	var parts []string
	for {
		switch x := v.(type) {
		case *ssa.FieldAddr:
			_, n, base, ok := fieldOf(x)
			if !ok {
				return v, strings.Join(parts, ".")
			}
			parts = append([]string{n}, parts...)
			v = base
		case *ssa.Field:
			_, n, base, ok := fieldOf(x)
			if !ok {
				return v, strings.Join(parts, ".")
			}
			parts = append([]string{n}, parts...)
			v = base
		case *ssa.UnOp:
			if x.Op == token.MUL {
				v = x.X
				continue
			}
			return v, strings.Join(parts, ".")
		case *ssa.ChangeType:
			v = x.X
		case *ssa.Convert:
			v = x.X
		default:
			return v, strings.Join(parts, ".")
		}
	}
}

// rootName names a root value for messages and keys.
func rootName(v ssa.Value) string {
	switch x := v.(type) {
	case *ssa.Parameter:
		return x.Name()
	case *ssa.FreeVar:
		return x.Name()
	case *ssa.Global:
		return x.Name()
	case *ssa.Alloc:
		if x.Comment != "" {
			return x.Comment
		}
		return "alloc"
	}
	return v.Name()
}

// resolveFreeVar follows a FreeVar of a closure to the value bound at its MakeClosure.
func resolveFreeVar(fv *ssa.FreeVar) ssa.Value {
	fn := fv.Parent()
	parent := fn.Parent()
	if parent == nil {
		return nil
	}
	idx := -1
	for i, f := range fn.FreeVars {
		if f == fv {
			idx = i
		}
	}
	if idx < 0 {
		return nil
	}
	var out ssa.Value
	eachInstr(parent, func(in ssa.Instruction) {
		if mc, ok := in.(*ssa.MakeClosure); ok && mc.Fn == fn {
			out = mc.Bindings[idx]
		}
	})
	return out
}

// storesTo returns all Store instructions (in fn and its closures) whose address is
// the given alloc (directly, or via free variables bound to it).
func storesTo(fn *ssa.Function, addr ssa.Value) []*ssa.Store {
	var out []*ssa.Store
	var walk func(f *ssa.Function, a ssa.Value)
	walk = func(f *ssa.Function, a ssa.Value) {
		eachInstr(f, func(in ssa.Instruction) {
			switch x := in.(type) {
			case *ssa.Store:
				if x.Addr == a {
					out = append(out, x)
				}
			case *ssa.MakeClosure:
				for i, b := range x.Bindings {
					if b == a {
						cf := x.Fn.(*ssa.Function)
						walk(cf, cf.FreeVars[i])
					}
				}
			}
		})
	}
	walk(fn, addr)
	return out
}

// typeSwitchCase describes one arm of a chain of `typeassert,ok` tests on the same value.
type typeCase struct {
	Asserted types.Type
	TA       *ssa.TypeAssert
	Body     *ssa.BasicBlock // block entered when ok is true
}

// typeCasesOn finds the comma-ok type assertions applied to value x in fn, in block order.
func typeCasesOn(fn *ssa.Function, x ssa.Value) []typeCase {
	var out []typeCase
	eachInstr(fn, func(in ssa.Instruction) {
		ta, ok := in.(*ssa.TypeAssert)
		if !ok || !ta.CommaOk || !sameSwitchVal(ta.X, x) {
			return
		}
		tc := typeCase{Asserted: ta.AssertedType, TA: ta}
		// find the If on extract #1
		for _, r := range *ta.Referrers() {
			ex, ok := r.(*ssa.Extract)
			if !ok || ex.Index != 1 {
				continue
			}
			for _, r2 := range *ex.Referrers() {
				if iff, ok := r2.(*ssa.If); ok {
					tc.Body = iff.Block().Succs[0]
				}
			}
		}
		out = append(out, tc)
	})
	return out
}

// regionOf returns the blocks dominated by head.
func regionOf(fn *ssa.Function, head *ssa.BasicBlock) map[*ssa.BasicBlock]bool {
	out := map[*ssa.BasicBlock]bool{}
	for _, b := range fn.Blocks {
		if head.Dominates(b) {
			out[b] = true
		}
	}
	return out
}

func fnName(fn *ssa.Function) string {
	s := fn.String()
	s = strings.TrimPrefix(s, pkgSshfx+"/openssh.")
	s = strings.ReplaceAll(s, pkgOpenssh+".", "openssh.")
	s = strings.ReplaceAll(s, pkgSshfx+".", "sshfx.")
	s = strings.ReplaceAll(s, pkgSftp+".", "")
	return s
}

// reachFromBlock is reachAvoiding starting at the first instruction of block b.
func reachFromBlock(b *ssa.BasicBlock, target, barrier func(ssa.Instruction) bool) bool {
	return reachCore(b, 0, target, barrier)
}

// staticCallees lists module functions called statically (call/go/defer) from fn,
// including closures created in fn (they are assumed to run).
func staticCallees(fn *ssa.Function) []*ssa.Function {
	var out []*ssa.Function
	eachInstr(fn, func(in ssa.Instruction) {
		if cc := callOf(in); cc != nil {
			if f := cc.StaticCallee(); f != nil {
				out = append(out, f)
			}
		}
		if mc, ok := in.(*ssa.MakeClosure); ok {
			out = append(out, mc.Fn.(*ssa.Function))
		}
	})
	return out
}

// inModule reports whether fn belongs to the analysed module.
func inModule(fn *ssa.Function) bool {
	o := outermost(fn)
	if o.Package() == nil {
		// synthetic wrappers: use the receiver's package
		if o.Signature.Recv() != nil {
			if n := namedOf(o.Signature.Recv().Type()); n != nil && n.Obj().Pkg() != nil {
				return strings.HasPrefix(n.Obj().Pkg().Path(), pkgSftp)
			}
		}
		return false
	}
	return strings.HasPrefix(o.Package().Pkg.Path(), pkgSftp)
}

// reachSet computes, over static calls inside the module, the set of functions from
// which some instruction satisfying hit is reachable (transitively).
func (p *Program) reachSet(hit func(*ssa.Function, ssa.Instruction) bool) map[*ssa.Function]bool {
	direct := map[*ssa.Function]bool{}
	callers := map[*ssa.Function][]*ssa.Function{}
	for _, fn := range p.modFuncs {
		eachInstr(fn, func(in ssa.Instruction) {
			if hit(fn, in) {
				direct[fn] = true
			}
		})
		for _, c := range staticCallees(fn) {
			callers[c] = append(callers[c], fn)
		}
	}
	out := map[*ssa.Function]bool{}
	var work []*ssa.Function
	for f := range direct {
		out[f] = true
		work = append(work, f)
	}
	for len(work) > 0 {
		f := work[len(work)-1]
		work = work[:len(work)-1]
		for _, c := range callers[f] {
			if !out[c] {
				out[c] = true
				work = append(work, c)
			}
		}
	}
	return out
}

// callersOfStatic lists every call/go/defer instruction in the module whose static callee is fn.
func (p *Program) callersOfStatic(fn *ssa.Function) []ssa.Instruction {
	var out []ssa.Instruction
	for _, f := range p.modFuncs {
		eachInstr(f, func(in ssa.Instruction) {
			if cc := callOf(in); cc != nil && cc.StaticCallee() == fn {
				out = append(out, in)
			}
		})
	}
	return out
}

// refsAsValue lists uses of fn as a value (method value, func value) other than a direct call:
// such a use means callers cannot be enumerated statically.
func (p *Program) refsAsValue(fn *ssa.Function) []ssa.Instruction {
	var out []ssa.Instruction
	for _, f := range p.modFuncs {
		eachInstr(f, func(in ssa.Instruction) {
			for _, op := range in.Operands(nil) {
				if *op == ssa.Value(fn) {
					if cc := callOf(in); cc != nil && cc.Value == ssa.Value(fn) {
						continue
					}
					out = append(out, in)
				}
			}
		})
	}
	return out
}

// inLoop reports whether the instruction lies in any natural loop of its function.
func inLoop(in ssa.Instruction) bool {
	fn := in.Parent()
	return innermostLoop(loopsOf(fn), in.Block()) != nil
}

// loadOfFreeVarAlloc: if v is a load (*x) of a free variable or alloc, return the
// allocation in the defining function that holds it.
func cellOf(v ssa.Value) ssa.Value {
	// a change of channel direction or of a named type does not change the variable
	for {
		if ct, ok := v.(*ssa.ChangeType); ok {
			v = ct.X
			continue
		}
		break
	}
	u, ok := v.(*ssa.UnOp)
	if !ok || u.Op != token.MUL {
		return nil
	}
	x := u.X
	for {
		if fv, ok := x.(*ssa.FreeVar); ok {
			x = resolveFreeVar(fv)
			if x == nil {
				return nil
			}
			continue
		}
		break
	}
	if a, ok := x.(*ssa.Alloc); ok {
		return a
	}
	return nil
}

// cone returns the module functions reachable from roots over the VTA call graph
// (static calls, resolved interface calls, closures created on the way).
func (p *Program) cone(roots ...*ssa.Function) map[*ssa.Function]bool {
	g := p.VTA()
	out := map[*ssa.Function]bool{}
	var work []*ssa.Function
	push := func(f *ssa.Function) {
		if f != nil && !out[f] && f.Blocks != nil && inModule(f) {
			out[f] = true
			work = append(work, f)
		}
	}
	for _, r := range roots {
		push(r)
	}
	for len(work) > 0 {
		f := work[len(work)-1]
		work = work[:len(work)-1]
		if n := g.Nodes[f]; n != nil {
			for _, e := range n.Out {
				push(e.Callee.Func)
			}
		}
		for _, a := range f.AnonFuncs {
			push(a)
		}
	}
	return out
}

// countPaths explores every acyclic path from the point just after start (or the
// function entry) to the first instruction satisfying isEnd and returns the minimum
// and maximum number of instructions satisfying isM met on such a path, plus the
// number of distinct end instructions reached. Back edges are not followed.
func countPaths(fn *ssa.Function, start ssa.Instruction, isEnd, isM func(ssa.Instruction) bool) (min, max, ends int) {
	if mn, mx, n, ok := countPathsSensitive(fn, start, isEnd, isM); ok {
		return mn, mx, n
	}
	return countPathsPlain(fn, start, isEnd, isM)
}

// countPathsSensitive is countPaths over feasible paths only: like reachCore it carries the value each phi takes on the
// path and does not follow a branch whose condition those values decide the other way (a result flag set by an inlined
// helper, tested right behind it).  ok is false when the search gets too large; the caller then counts all paths.
func countPathsSensitive(fn *ssa.Function, start ssa.Instruction, isEnd, isM func(ssa.Instruction) bool) (min, max, ends int, ok bool) {
	type res struct {
		min, max int
		ok       bool
	}
	memo := map[string]res{}
	onStack := map[string]bool{}
	endSeen := map[ssa.Instruction]bool{}
	steps := 0
	overflow := false
	var fromBlock func(b *ssa.BasicBlock, idx int, env phiEnv) res
	fromBlock = func(b *ssa.BasicBlock, idx int, env phiEnv) res {
		steps++
		if steps > 20000 {
			overflow = true
			return res{}
		}
		key := ""
		if idx == 0 {
			key = fmt.Sprintf("%d|%s", b.Index, envKey(env))
			if r, ok := memo[key]; ok {
				return r
			}
			if onStack[key] {
				return res{}
			}
			// a block already on the stack under another environment is a way round a loop: not followed either
			for k := range onStack {
				if onStack[k] && strings.HasPrefix(k, fmt.Sprintf("%d|", b.Index)) {
					return res{}
				}
			}
			onStack[key] = true
			defer func() { onStack[key] = false }()
		}
		n := 0
		for i := idx; i < len(b.Instrs); i++ {
			in := b.Instrs[i]
			if isEnd(in) {
				endSeen[in] = true
				r := res{n, n, true}
				if idx == 0 {
					memo[key] = r
				}
				return r
			}
			if isM(in) {
				n++
			}
		}
		allow := []bool{true, true}
		if len(b.Succs) == 2 {
			if iff, ok := b.Instrs[len(b.Instrs)-1].(*ssa.If); ok {
				old := reachEnv
				reachEnv = env
				switch evalCond(iff.Cond, env, 0) {
				case 1:
					allow[1] = false
				case 0:
					allow[0] = false
				}
				reachEnv = old
			}
		}
		out := res{}
		for si, sb := range b.Succs {
			if si < 2 && !allow[si] {
				continue
			}
			ne := env
			pi := -1
			for k, pr := range sb.Preds {
				if pr == b {
					pi = k
				}
			}
			copied := false
			for _, in := range sb.Instrs {
				ph, isPhi := in.(*ssa.Phi)
				if !isPhi {
					break
				}
				if pi < 0 || pi >= len(ph.Edges) {
					continue
				}
				if !copied {
					c2 := phiEnv{}
					for k, v := range ne {
						c2[k] = v
					}
					ne, copied = c2, true
				}
				v := ph.Edges[pi]
				if p2, isP := v.(*ssa.Phi); isP {
					if r, has := env[p2]; has {
						v = r
					}
				}
				ne[ph] = v
			}
			r := fromBlock(sb, 0, ne)
			if !r.ok {
				continue
			}
			if !out.ok {
				out = res{r.min + n, r.max + n, true}
			} else {
				if r.min+n < out.min {
					out.min = r.min + n
				}
				if r.max+n > out.max {
					out.max = r.max + n
				}
			}
		}
		if idx == 0 {
			memo[key] = out
		}
		return out
	}
	var r res
	if start == nil {
		r = fromBlock(fn.Blocks[0], 0, nil)
	} else {
		r = fromBlock(start.Block(), idxIn(start)+1, nil)
	}
	if overflow {
		return 0, 0, 0, false
	}
	if !r.ok {
		return -1, -1, 0, true
	}
	return r.min, r.max, len(endSeen), true
}

func countPathsPlain(fn *ssa.Function, start ssa.Instruction, isEnd, isM func(ssa.Instruction) bool) (min, max, ends int) {
	type res struct {
		min, max int
		ok       bool
	}
	memo := map[*ssa.BasicBlock]res{}
	onStack := map[*ssa.BasicBlock]bool{}
	endSeen := map[ssa.Instruction]bool{}
	var fromBlock func(b *ssa.BasicBlock, idx int) res
	fromBlock = func(b *ssa.BasicBlock, idx int) res {
		if idx == 0 {
			if r, ok := memo[b]; ok {
				return r
			}
			if onStack[b] {
				return res{}
			}
			onStack[b] = true
			defer func() { onStack[b] = false }()
		}
		n := 0
		for i := idx; i < len(b.Instrs); i++ {
			in := b.Instrs[i]
			if isEnd(in) {
				endSeen[in] = true
				r := res{n, n, true}
				if idx == 0 {
					memo[b] = r
				}
				return r
			}
			if isM(in) {
				n++
			}
		}
		out := res{}
		for _, s := range b.Succs {
			r := fromBlock(s, 0)
			if !r.ok {
				continue
			}
			if !out.ok {
				out = res{r.min + n, r.max + n, true}
			} else {
				if r.min+n < out.min {
					out.min = r.min + n
				}
				if r.max+n > out.max {
					out.max = r.max + n
				}
			}
		}
		if idx == 0 {
			memo[b] = out
		}
		return out
	}
	var r res
	if start == nil {
		r = fromBlock(fn.Blocks[0], 0)
	} else {
		// treat as partial block
		b := start.Block()
		n := 0
		done := false
		for i := idxIn(start) + 1; i < len(b.Instrs) && !done; i++ {
			in := b.Instrs[i]
			if isEnd(in) {
				endSeen[in] = true
				r = res{n, n, true}
				done = true
				break
			}
			if isM(in) {
				n++
			}
		}
		if !done {
			for _, s := range b.Succs {
				x := fromBlock(s, 0)
				if !x.ok {
					continue
				}
				if !r.ok {
					r = res{x.min + n, x.max + n, true}
				} else {
					if x.min+n < r.min {
						r.min = x.min + n
					}
					if x.max+n > r.max {
						r.max = x.max + n
					}
				}
			}
		}
	}
	if !r.ok {
		return -1, -1, 0
	}
	return r.min, r.max, len(endSeen)
}

// rangeLoopOf returns the loop (head, body entry) of a `for x := range ch` over the
// channel value ch in fn: the head block holds the `<-ch,ok` receive.
func rangeChanLoops(fn *ssa.Function) []*loop {
	var out []*loop
	for _, l := range loopsOf(fn) {
		for _, in := range l.head.Instrs {
			u, ok := in.(*ssa.UnOp)
			if !ok || u.Op != token.ARROW || !u.CommaOk {
				continue
			}
			// the channel must be the same in every iteration (`for x := range ch`, or the equivalent
			// `for { x, ok := <-ch; if !ok { break } … }`), not a cursor that moves from channel to channel
			if ph, isPhi := u.X.(*ssa.Phi); isPhi && l.blocks[ph.Block()] {
				continue
			}
			if ui, isLoad := u.X.(*ssa.UnOp); isLoad {
				if a, isA := ui.X.(*ssa.Alloc); isA {
					moved := false
					for _, st := range storesTo(fn, a) {
						if l.blocks[st.Block()] {
							moved = true
						}
					}
					if moved {
						continue
					}
				}
			}
			out = append(out, l)
		}
	}
	return out
}

// loopEarlyExit reports whether the loop can be left other than through its head
// (edges into blocks that end in a panic do not count).
func loopEarlyExit(l *loop) bool {
	for b := range l.blocks {
		if b == l.head {
			continue
		}
		for _, s := range b.Succs {
			if l.blocks[s] {
				continue
			}
			if _, isPanic := s.Instrs[len(s.Instrs)-1].(*ssa.Panic); isPanic {
				continue
			}
			return true
		}
	}
	return false
}

func isLoopHeadStart(l *loop) func(ssa.Instruction) bool {
	return func(in ssa.Instruction) bool { return in.Block() == l.head && idxIn(in) == 0 }
}

// reachingStores returns the stores to the local variable a that may reach the load
// (stores made by closures are always included; stores in the loading function are
// filtered by reaching definitions).
func reachingStores(load *ssa.UnOp, a *ssa.Alloc) []*ssa.Store {
	all := storesTo(a.Parent(), a)
	fn := load.Parent()
	var out []*ssa.Store
	for _, s := range all {
		if s.Parent() != fn {
			out = append(out, s)
			continue
		}
		reaches := reachAvoiding(fn, s, func(in ssa.Instruction) bool { return in == ssa.Instruction(load) }, func(in ssa.Instruction) bool {
			if o, ok := in.(*ssa.Store); ok && o != s && o.Addr == s.Addr {
				return true
			}
			return false
		})
		if reaches {
			out = append(out, s)
		}
	}
	return out
}

// calleesAt resolves the callees of a call site with the VTA call graph.
func (p *Program) calleesAt(site ssa.CallInstruction) []*ssa.Function {
	g := p.VTA()
	n := g.Nodes[site.Parent()]
	if n == nil {
		return nil
	}
	var out []*ssa.Function
	for _, e := range n.Out {
		if e.Site == site && e.Callee.Func != nil {
			out = append(out, e.Callee.Func)
		}
	}
	return out
}

func newPtr(t types.Type) types.Type { return types.NewPointer(t) }

// countLoopIter counts instructions satisfying isM on every path of one iteration of
// loop l: from the loop head's in-loop successors back to the head, staying inside the
// loop (paths that leave the loop are ignored).
func countLoopIter(l *loop, isM func(ssa.Instruction) bool) (min, max int, ok bool) {
	type res struct {
		min, max int
		ok       bool
	}
	memo := map[*ssa.BasicBlock]res{}
	on := map[*ssa.BasicBlock]bool{}
	var walk func(b *ssa.BasicBlock) res
	walk = func(b *ssa.BasicBlock) res {
		if b == l.head {
			return res{0, 0, true}
		}
		if !l.blocks[b] {
			return res{}
		}
		if r, ok := memo[b]; ok {
			return r
		}
		if on[b] {
			return res{}
		}
		on[b] = true
		defer func() { on[b] = false }()
		n := 0
		for _, in := range b.Instrs {
			if isM(in) {
				n++
			}
		}
		out := res{}
		for _, s := range b.Succs {
			r := walk(s)
			if !r.ok {
				continue
			}
			if !out.ok {
				out = res{r.min + n, r.max + n, true}
			} else {
				if r.min+n < out.min {
					out.min = r.min + n
				}
				if r.max+n > out.max {
					out.max = r.max + n
				}
			}
		}
		memo[b] = out
		return out
	}
	nh := 0
	for _, in := range l.head.Instrs {
		if isM(in) {
			nh++
		}
	}
	out := res{}
	for _, s := range l.head.Succs {
		if !l.blocks[s] || s == l.head {
			continue
		}
		r := walk(s)
		if !r.ok {
			continue
		}
		if !out.ok {
			out = r
		} else {
			if r.min < out.min {
				out.min = r.min
			}
			if r.max > out.max {
				out.max = r.max
			}
		}
	}
	return out.min + nh, out.max + nh, out.ok
}

// edgeConds returns the branch conditions known to hold when control is in block b, having entered it
// from pred (pred may be nil): every If whose taken successor dominates b with that successor entered
// only from the If, plus the If at the end of pred.
func edgeConds(b, pred *ssa.BasicBlock) map[ssa.Value]bool {
	out := map[ssa.Value]bool{}
	addEdge := func(from, to *ssa.BasicBlock) {
		if from == nil || len(from.Instrs) == 0 {
			return
		}
		iff, ok := from.Instrs[len(from.Instrs)-1].(*ssa.If)
		if !ok || from.Succs[0] == from.Succs[1] {
			return
		}
		if from.Succs[0] == to {
			out[iff.Cond] = true
		} else if from.Succs[1] == to {
			out[iff.Cond] = false
		}
	}
	var walk func(x *ssa.BasicBlock)
	walk = func(x *ssa.BasicBlock) {
		for x != nil {
			d := x.Idom()
			if d != nil && len(x.Preds) == 1 && x.Preds[0] == d {
				addEdge(d, x)
			}
			x = d
		}
	}
	if pred != nil {
		addEdge(pred, b)
		// conditions that held in pred itself
		if len(pred.Preds) == 1 {
			addEdge(pred.Preds[0], pred)
		}
		walk(pred)
	} else {
		walk(b)
	}
	return out
}

// retLeaf is one possible result of a function: the value, and the edge it is selected on.
type retLeaf struct {
	v     ssa.Value
	block *ssa.BasicBlock // block in which v is selected (the phi's block, or the return's)
	pred  *ssa.BasicBlock // incoming edge for phi operands, nil otherwise
}

// returnLeaves expands result i of every return of fn through phis (one level of nesting per phi, cycles cut).
func returnLeaves(fn *ssa.Function, i int) []retLeaf { return returnLeavesX(fn, i, false) }

// returnLeavesDeep also looks through locals kept in memory on the way (a result handed through a second variable
// that a closure captures): the leaf is then the value stored, selected in the block of the store.
func returnLeavesDeep(fn *ssa.Function, i int) []retLeaf { return returnLeavesX(fn, i, true) }

func returnLeavesX(fn *ssa.Function, i int, deep bool) []retLeaf {
	var out []retLeaf
	seen := map[ssa.Value]bool{}
	var expand func(v ssa.Value, b, pred *ssa.BasicBlock)
	expand = func(v ssa.Value, b, pred *ssa.BasicBlock) {
		if ph, ok := v.(*ssa.Phi); ok {
			if seen[ph] {
				return
			}
			seen[ph] = true
			for k, e := range ph.Edges {
				expand(e, ph.Block(), ph.Block().Preds[k])
			}
			return
		}
		// a local kept in memory (captured, or a result spilled for a defer): what the stores that reach this load put there
		if u, ok := v.(*ssa.UnOp); ok && deep && u.Op == token.MUL && !seen[v] {
			if a, ok := u.X.(*ssa.Alloc); ok && a.Parent() == fn {
				seen[v] = true
				sts := reachingStores(u, a)
				inFn := true
				for _, st := range sts {
					if st.Parent() != fn {
						inFn = false
					}
				}
				if len(sts) > 0 && inFn {
					for _, st := range sts {
						expand(st.Val, st.Block(), nil)
					}
					return
				}
			}
		}
		out = append(out, retLeaf{v, b, pred})
	}
	eachInstr(fn, func(in ssa.Instruction) {
		if r, ok := in.(*ssa.Return); ok && isReturn(in) && i < len(r.Results) {
			v := r.Results[i]
			// defer-spilled or address-taken results: follow the reaching stores
			if u, ok := v.(*ssa.UnOp); ok && u.Op == token.MUL {
				if a, ok := u.X.(*ssa.Alloc); ok {
					for _, st := range reachingStores(u, a) {
						expand(st.Val, st.Block(), nil)
					}
					return
				}
			}
			expand(v, r.Block(), nil)
		}
	})
	return out
}

// nilTest is one branch on `v == nil` / `v != nil` (either operand order): the successors on which v is non-nil and nil.
type nilTest struct {
	iff           *ssa.If
	nonNil, isNil *ssa.BasicBlock
}

// seedFacts, when set, is what the next search knows at its starting point (consumed by that search).
var seedFacts pathFacts

// reachFromNilSide searches from the side of a nil test on which the tested value is non-nil (or nil), knowing that.
func reachFromNilSide(t nilTest, nonNil bool, target, barrier func(ssa.Instruction) bool) bool {
	cmp, _ := t.iff.Cond.(*ssa.BinOp)
	start, cls := t.isNil, clsNil
	if nonNil {
		start, cls = t.nonNil, clsNonNil
	}
	if cmp == nil {
		return reachCore(start, 0, target, barrier)
	}
	v := cmp.X
	if isNilConst(v) {
		v = cmp.Y
	}
	// start at the branch itself, so that the phis of the side entered are bound by the edge taken; the fact decides
	// the branch
	seedFacts = pathFacts{v: cls}
	b := t.iff.Block()
	return reachCore(b, len(b.Instrs)-1, func(in ssa.Instruction) bool { return in != ssa.Instruction(t.iff) && target(in) }, barrier)
}

// nilTests lists the branches that test v against nil, whichever way the comparison is written.
func nilTests(v ssa.Value) []nilTest {
	var out []nilTest
	refs := v.Referrers()
	if refs == nil {
		return nil
	}
	for _, r := range *refs {
		b, ok := r.(*ssa.BinOp)
		if !ok || (b.Op != token.NEQ && b.Op != token.EQL) || !(isNilConst(b.X) || isNilConst(b.Y)) {
			continue
		}
		for _, rr := range *b.Referrers() {
			iff, ok := rr.(*ssa.If)
			if !ok || len(iff.Block().Succs) != 2 {
				continue
			}
			t := nilTest{iff: iff, nonNil: iff.Block().Succs[0], isNil: iff.Block().Succs[1]}
			if b.Op == token.EQL {
				t.nonNil, t.isNil = t.isNil, t.nonNil
			}
			out = append(out, t)
		}
	}
	return out
}

// chanOrigins: the make(chan) instructions whose result can be the channel value v, looking through local variables
// (also captured ones), fields of local struct variables and copies of such structs.  nil when some way v gets its
// value is not understood (a call result, a parameter, a field of something that is not a local variable).
func chanOrigins(v ssa.Value) (out []*ssa.MakeChan, ok bool) {
	seen := map[string]bool{}
	set := map[*ssa.MakeChan]bool{}
	ok = true
	resolve := func(a ssa.Value) ssa.Value {
		for {
			if fv, isFV := a.(*ssa.FreeVar); isFV {
				a = resolveFreeVar(fv)
				continue
			}
			return a
		}
	}
	var val func(v ssa.Value, d int)
	var field func(base ssa.Value, path []int, d int)
	// all functions that can see a local of fn: fn and the closures nested in it
	var family func(fn *ssa.Function, visit func(*ssa.Function))
	family = func(fn *ssa.Function, visit func(*ssa.Function)) {
		visit(fn)
		for _, a := range fn.AnonFuncs {
			family(a, visit)
		}
	}
	// fieldPathOf: addr = &(&(*base).f1).f2 … with base an allocation
	fieldPathOf := func(addr ssa.Value) (ssa.Value, []int) {
		var path []int
		for {
			fa, isFA := addr.(*ssa.FieldAddr)
			if !isFA {
				break
			}
			path = append([]int{fa.Field}, path...)
			addr = fa.X
		}
		return resolve(addr), path
	}
	samePath := func(a, b []int) bool {
		if len(a) != len(b) {
			return false
		}
		for i := range a {
			if a[i] != b[i] {
				return false
			}
		}
		return true
	}
	field = func(base ssa.Value, path []int, d int) {
		al, isAlloc := base.(*ssa.Alloc)
		if !isAlloc || d > 8 {
			ok = false
			return
		}
		key := fmt.Sprintf("%p%v", al, path)
		if seen[key] {
			return
		}
		seen[key] = true
		found := false
		family(al.Parent(), func(f *ssa.Function) {
			eachInstr(f, func(in ssa.Instruction) {
				st, isSt := in.(*ssa.Store)
				if !isSt {
					return
				}
				b, p := fieldPathOf(st.Addr)
				if b != ssa.Value(al) {
					return
				}
				switch {
				case samePath(p, path):
					found = true
					val(st.Val, d+1)
				case len(p) < len(path) && samePath(p, path[:len(p)]):
					// a store of a whole (sub)struct that contains the field: follow the value it copies
					rest := path[len(p):]
					found = true
					switch x := st.Val.(type) {
					case *ssa.UnOp:
						if x.Op == token.MUL {
							b2, p2 := fieldPathOf(x.X)
							field(b2, append(append([]int{}, p2...), rest...), d+1)
							return
						}
					case *ssa.Const:
						return // the zero struct: a nil channel
					}
					ok = false
				}
			})
		})
		if !found && len(path) > 0 {
			// never stored: the zero value
		}
	}
	val = func(v ssa.Value, d int) {
		if d > 8 {
			ok = false
			return
		}
		switch x := v.(type) {
		case *ssa.MakeChan:
			set[x] = true
		case *ssa.ChangeType:
			val(x.X, d+1)
		case *ssa.Const:
			// nil channel
		case *ssa.Phi:
			key := fmt.Sprintf("%p", x)
			if seen[key] {
				return
			}
			seen[key] = true
			for _, e := range x.Edges {
				val(e, d+1)
			}
		case *ssa.UnOp:
			if x.Op != token.MUL {
				ok = false
				return
			}
			b, p := fieldPathOf(x.X)
			field(b, p, d+1)
		case *ssa.Field:
			// a field of a struct value: the struct value must be a load of a local
			if u, isU := x.X.(*ssa.UnOp); isU && u.Op == token.MUL {
				b, p := fieldPathOf(u.X)
				field(b, append(append([]int{}, p...), x.Field), d+1)
				return
			}
			ok = false
		default:
			ok = false
		}
	}
	val(v, 0)
	for m := range set {
		out = append(out, m)
	}
	sort.Slice(out, func(i, j int) bool { return out[i].Pos() < out[j].Pos() })
	return out, ok
}

// variadicElems: the elements of the slice literal a variadic call is given (f(a, b, c) builds [3]T{a, b, c}[:]), in
// order; nil when the argument is not such a literal.
func variadicElems(arg ssa.Value) []ssa.Value {
	sl, ok := arg.(*ssa.Slice)
	if !ok {
		return nil
	}
	al, ok := sl.X.(*ssa.Alloc)
	if !ok {
		return nil
	}
	arr, ok := derefType(al.Type()).Underlying().(*types.Array)
	if !ok {
		return nil
	}
	out := make([]ssa.Value, arr.Len())
	for _, r := range *al.Referrers() {
		ia, ok := r.(*ssa.IndexAddr)
		if !ok {
			continue
		}
		k, ok := constInt(ia.Index)
		if !ok || k < 0 || k >= int64(len(out)) {
			continue
		}
		for _, r2 := range *ia.Referrers() {
			if st, ok := r2.(*ssa.Store); ok && st.Addr == ssa.Value(ia) {
				out[k] = st.Val
			}
		}
	}
	for _, v := range out {
		if v == nil {
			return nil
		}
	}
	return out
}

// behindEmptyTableTest: the instruction lies on the side of a test `len(x.<field>) == 0` (or != 0) on which the table is
// empty, and that test comes after `after` — an early exit that has nothing to sweep.
func behindEmptyTableTest(fn *ssa.Function, in ssa.Instruction, field string, after ssa.Instruction) bool {
	for _, b := range fn.Blocks {
		iff, ok := b.Instrs[len(b.Instrs)-1].(*ssa.If)
		if !ok {
			continue
		}
		cmp, ok := iff.Cond.(*ssa.BinOp)
		if !ok || (cmp.Op != token.EQL && cmp.Op != token.NEQ) {
			continue
		}
		if k, isK := constInt(cmp.Y); !isK || k != 0 {
			continue
		}
		lc, ok := stripConv(cmp.X).(*ssa.Call)
		if !ok || builtinName(&lc.Call) != "len" {
			continue
		}
		isTable := false
		for _, l := range leavesOf(lc.Call.Args[0]) {
			if l.Kind == leafFieldLoad && l.Field == field {
				isTable = true
			}
		}
		if !isTable {
			continue
		}
		empty := b.Succs[0]
		if cmp.Op == token.NEQ {
			empty = b.Succs[1]
		}
		if !edgeOnly(b, empty) || !(empty == in.Block() || empty.Dominates(in.Block())) {
			continue
		}
		if after != nil && !dominates(after, iff) {
			continue
		}
		return true
	}
	return false
}

// reachWithFlags is the set of blocks reachable from start (start included) when boolean flags are followed: a
// phi that receives a constant on the edge taken is known from there on, and a branch on a known flag (or its
// negation) is followed on the matching side only.  This is what makes `ok := f(); if !ok { return }` with f
// inlined — the arm sets a flag, a join, then a test of the flag — as exact as the early return it stands for.
func reachWithFlags(start *ssa.BasicBlock) map[*ssa.BasicBlock]bool {
	return reachWithFlagsX(start, nil)
}

// reachWithFlagsX: the same, with a hook that decides further branch conditions (a value known for this search).
func reachWithFlagsX(start *ssa.BasicBlock, decide func(cond ssa.Value) (taken, known bool)) map[*ssa.BasicBlock]bool {
	seen := map[*ssa.BasicBlock]bool{}
	visited := map[string]bool{}
	var walk func(b *ssa.BasicBlock, env map[ssa.Value]bool)
	walk = func(b *ssa.BasicBlock, env map[ssa.Value]bool) {
		var ks []string
		for k, v := range env {
			ks = append(ks, fmt.Sprintf("%s=%v", k.Name(), v))
		}
		sort.Strings(ks)
		sig := fmt.Sprintf("%d|%s", b.Index, strings.Join(ks, ","))
		if visited[sig] || len(visited) > 4000 {
			return
		}
		visited[sig] = true
		seen[b] = true
		val := func(v ssa.Value) (bool, bool) {
			neg := false
			for {
				if u, ok := v.(*ssa.UnOp); ok && u.Op == token.NOT {
					v, neg = u.X, !neg
					continue
				}
				break
			}
			if k, ok := v.(*ssa.Const); ok && k.Value != nil && k.Value.Kind() == constant.Bool {
				return constant.BoolVal(k.Value) != neg, true
			}
			if x, ok := env[v]; ok {
				return x != neg, true
			}
			if decide != nil {
				if x, ok := decide(v); ok {
					return x != neg, true
				}
			}
			return false, false
		}
		succs := b.Succs
		if iff, ok := b.Instrs[len(b.Instrs)-1].(*ssa.If); ok && len(b.Succs) == 2 {
			if x, known := val(iff.Cond); known {
				if x {
					succs = b.Succs[:1]
				} else {
					succs = b.Succs[1:]
				}
			}
		}
		for _, s := range succs {
			e2 := map[ssa.Value]bool{}
			for k, v := range env {
				e2[k] = v
			}
			idx := -1
			for i, p := range s.Preds {
				if p == b {
					idx = i
				}
			}
			for _, in := range s.Instrs {
				phi, ok := in.(*ssa.Phi)
				if !ok {
					break
				}
				delete(e2, phi)
				if idx >= 0 {
					if x, known := val(phi.Edges[idx]); known {
						e2[phi] = x
					}
				}
			}
			walk(s, e2)
		}
	}
	walk(start, map[ssa.Value]bool{})
	return seen
}
