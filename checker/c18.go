package main

import (
	"fmt"
	"go/token"
	"go/types"
	"os"
	"sort"
	"strings"

	"golang.org/x/tools/go/ssa"
)

func init() {
	register("C18", &propSpec{
		level:       "other",
		explanation: "Ownership discipline of the server page allocator, necessary for 'a page is never lent twice nor reused before its response is written': the page that receives a packet is tagged with the order id that packet will get (getNextOrderID == the value newOrderID issues next, exactly one newOrderedRequest per received packet); a READ's data page is tagged with the request's own order id in all three sibling sites and comes from the same allocator as the connection's; pages are released only by maybeSendPackets, after the matching send, under the head's order id; allocator state only under its mutex; a lent page leaves the free list and enters the used table, a release empties the used entry; Free only in Serve's deferred function; page slicing bounded by the page length. Byte-identity of response streams is not decided.",
		run:         runC18,
	})
	register("C16", &propSpec{
		level:       "other",
		explanation: "Listing cursor discipline decided on SSA: the request server reads the cursor, calls ListAt with a MaxFilelist buffer at that cursor, advances the cursor by ListAt's own count exactly once on every path, emits one entry per element of finfo[:n], and answers STATUS exactly when err != nil && (err != EOF || n == 0); READDIR is dispatched to the sequential worker; the os server emits one entry per dirent; the client loop decodes all three parts of every entry on every path (so a skipped '.'/'..' cannot desynchronise the packet), appends each other entry once, ends only on STATUS or a send error and maps EOF to success.",
		run:         runC16,
		assumptions: []string{"listers honour the ListerAt contract", "the directory is not modified during the listing"},
	})
}

func runC18(c *Ctx) {
	p := c.P
	pos := func(in ssa.Instruction) string { return p.Pos(in.Pos()) }

	checkPageTagging(c, "R1")
	checkNoSliceExtension(c, "R8")
	// R11 (shared with C01.R3): a DATA reply carries buf[:n] — with the whole buffer the bytes behind n are whatever the
	// page held before (another request's data), and the reply differs from the one made without the allocator
	c.withOnly("R3", "R11", func() { runC01Server(c) })
	checkNoPageRetained(c, "R10")
	checkAllocatorLeavesPagesAlone(c, "R12")

	// ---------- R2 READ data page tagged with the request's order id ----------
	{
		var okOID func(v ssa.Value, depth int) (bool, string)
		okOID = func(v ssa.Value, depth int) (bool, string) {
			if depth > 5 {
				return false, "too deep"
			}
			for _, l := range leavesOf(v) {
				switch l.Kind {
				case leafCallResult:
					if calleeName(l.Call) == "orderID" {
						if r := recvOf(l.Call); r != nil && typeName(r.Type()) == "orderedRequest" {
							continue
						}
					}
					return false, "result of " + calleeName(l.Call)
				case leafParam:
					ok, und := p.closedOverCallers(l.Param, func(arg ssa.Value, _ ssa.Instruction) bool {
						g, _ := okOID(arg, depth+1)
						return g
					})
					if und || !ok {
						return false, "parameter " + l.Param.Name() + " of " + fnName(l.Param.Parent()) + " is not the request's order id at every call site"
					}
				case leafFieldLoad:
					// a field of a struct that was passed in by value (parameters grouped into a struct): follow it to
					// the value stored into that field where the struct was built, at every call site
					if prm := paramBehind(l.Base); prm != nil && derefStruct(prm.Type()) != nil {
						field := l.Field
						var viaParam func(prm *ssa.Parameter, d int) bool
						viaParam = func(prm *ssa.Parameter, d int) bool {
							if d > 5 {
								return false
							}
							ok, und := p.closedOverCallers(prm, func(arg ssa.Value, _ ssa.Instruction) bool {
								if pb := paramBehind(arg); pb != nil {
									return viaParam(pb, d+1) // handed on unchanged
								}
								fv := structFieldValue(arg, field)
								if fv == nil {
									return false
								}
								g, _ := okOID(fv, depth+1)
								return g
							})
							return ok && !und
						}
						if !viaParam(prm, depth) {
							return false, "field " + field + " of parameter " + prm.Name() + " of " + fnName(prm.Parent()) + " is not the request's order id at every call site"
						}
						continue
					}
					return false, "field " + l.Field
				default:
					return false, l.V.String()
				}
			}
			return true, ""
		}
		gds := p.Func("(*sshFxpReadPacket).getDataSlice")
		n := 0
		if gds == nil {
			c.missing("R2", "(*sshFxpReadPacket).getDataSlice")
		} else {
			for _, site := range p.callersOfStatic(gds) {
				n++
				args := argsOf(callOf(site))
				ok, why := okOID(args[1], 0)
				c.check(ok, "R2", "data page tag in "+fnName(site.Parent()), pos(site), "tagged with the request's own order id", "the READ data page is filed under something other than the request's order id ("+why+"): it is released with another request's response, or never")
				// the allocator argument is the packet manager's
				allocOK := false
				for _, l := range leavesOf(args[0]) {
					if l.Kind == leafFieldLoad && l.Field == "alloc" {
						allocOK = true
					}
					if l.Kind == leafParam {
						allocOK = true
					}
				}
				c.check(allocOK, "R2", "data page allocator in "+fnName(site.Parent()), pos(site), "the packet manager's allocator", "the data slice is not taken from the packet manager's allocator")
			}
			c.check(n >= 2, "R2", "getDataSlice sites", "?", fmt.Sprintf("%d sites", n), fmt.Sprintf("only %d getDataSlice call sites (one per server expected)", n))
			// inside getDataSlice the page is requested under that order id
			for _, gp := range callsWhere(gds, func(cc *ssa.CallCommon) bool { return calleeName(cc) == "GetPage" }) {
				a := argsOf(callOf(gp))[0]
				pr, isParam := a.(*ssa.Parameter)
				c.check(isParam && pr.Name() == gds.Params[2].Name(), "R2", "getDataSlice GetPage tag", pos(gp), "GetPage(orderID)", "getDataSlice asks for a page under a different id than it was given")
			}
		}
		if rp := p.Func("recvPacket"); rp != nil {
			for _, gp := range callsWhere(rp, func(cc *ssa.CallCommon) bool { return calleeName(cc) == "GetPage" }) {
				a := argsOf(callOf(gp))[0]
				pr, isParam := a.(*ssa.Parameter)
				c.check(isParam && pr == rp.Params[2], "R2", "recvPacket GetPage tag", pos(gp), "GetPage(orderID)", "recvPacket asks for a page under a different id than it was given")
			}
		} else {
			c.missing("R2", "recvPacket")
		}
	}

	// ---------- R3 release only after the matching send ----------
	maybe := p.Func("(*packetManager).maybeSendPackets")
	rel := p.Func("(*allocator).ReleasePages")
	if maybe == nil || rel == nil {
		c.missing("R3", "maybeSendPackets / ReleasePages")
	} else {
		sites := p.callersOfStatic(rel)
		c.check(len(sites) == 1, "R3", "ReleasePages call sites", p.Pos(rel.Pos()), "one site", fmt.Sprintf("%d call sites", len(sites)))
		var send ssa.Instruction
		eachInstr(maybe, func(in ssa.Instruction) {
			if cc := callOf(in); cc != nil && cc.IsInvoke() && cc.Method.Name() == "sendPacket" {
				send = in
			}
		})
		for _, s := range sites {
			if s.Parent() != maybe {
				c.bad("R3", "ReleasePages in "+fnName(s.Parent()), pos(s), "pages are released outside maybeSendPackets, i.e. not tied to the moment the response was written")
				continue
			}
			_, plain := s.(*ssa.Call)
			c.check(plain && send != nil && dominates(send, s), "R3", "release after send", pos(s), "ReleasePages follows sender.sendPacket on the same path", "pages are released before the response that refers to them has been written: the receive loop can overwrite a page the writer is still copying from")
			// the id released is the head's order id
			okArg := false
			for _, l := range leavesOf(argsOf(callOf(s))[0]) {
				if l.Kind == leafCallResult && calleeName(l.Call) == "orderID" {
					okArg = true
				}
			}
			c.check(okArg, "R3", "release by order id", pos(s), "ReleasePages(in.orderID())", "pages are released under something other than the order id of the request just answered")
		}
	}

	// ---------- R4 allocator state ----------
	checkLockTable(c, "R4", "allocator")
	if gp := p.Func("(*allocator).GetPage"); gp == nil {
		c.missing("R4", "(*allocator).GetPage")
	} else {
		c.looked(fnName(gp))
		// the page taken from available: available is truncated on that path
		var take *ssa.UnOp // load of a.available[idx]
		eachInstr(gp, func(in ssa.Instruction) {
			if u, ok := in.(*ssa.UnOp); ok && u.Op == token.MUL {
				if ia, ok := u.X.(*ssa.IndexAddr); ok {
					if _, path := accessPath(ia.X); path == "available" {
						take = u
					}
				}
			}
		})
		if take == nil {
			c.und("R4", "GetPage reuse path", p.Pos(gp.Pos()), "no read of a.available[i]")
		} else {
			idx := affineOf(take.X.(*ssa.IndexAddr).Index)
			trunc := false
			eachInstr(gp, func(in ssa.Instruction) {
				st, ok := in.(*ssa.Store)
				if !ok || !dominates(take, in) {
					return
				}
				if fa, ok := st.Addr.(*ssa.FieldAddr); ok {
					if _, n, _, _ := fieldOf(fa); n == "available" {
						if s, ok := st.Val.(*ssa.Slice); ok && s.Low == nil && s.High != nil && affineOf(s.High).equal(idx) {
							trunc = true
						}
					}
				}
			})
			c.check(trunc, "R4", "GetPage removes the lent page from the free list", pos(take), "available = available[:i] after taking available[i]", "a page handed out stays on the free list: the next GetPage lends the same page to a second request")
		}
		used := false
		eachInstr(gp, func(in ssa.Instruction) {
			if mu, ok := in.(*ssa.MapUpdate); ok {
				if _, path := accessPath(mu.Map); path == "used" {
					if pr, ok := mu.Key.(*ssa.Parameter); ok && pr == gp.Params[1] {
						used = true
					}
				}
			}
		})
		c.check(used, "R4", "GetPage records the loan", p.Pos(gp.Pos()), "used[id] = append(used[id], page)", "a lent page is not recorded under the requester's id: it can never be released")
		// fresh pages have the frame size
		fresh := false
		eachInstr(gp, func(in ssa.Instruction) {
			if m, ok := in.(*ssa.MakeSlice); ok {
				if k, ok := constInt(m.Len); ok && k == 256*1024 {
					fresh = true
				}
			}
			// make with a constant size is an array allocation that is sliced
			if a, ok := in.(*ssa.Alloc); ok {
				if arr, ok := derefType(a.Type()).Underlying().(*types.Array); ok && arr.Len() == 256*1024 {
					fresh = true
				}
			}
		})
		c.check(fresh, "R4", "fresh pages are maxMsgLength long", p.Pos(gp.Pos()), "make([]byte, maxMsgLength)", "fresh pages are not maxMsgLength bytes: a maximal frame no longer fits")
	}
	if rel != nil {
		del, app := false, false
		eachInstr(rel, func(in ssa.Instruction) {
			cc := callOf(in)
			if cc == nil {
				return
			}
			if builtinName(cc) == "delete" {
				if _, path := accessPath(cc.Args[0]); path == "used" && cc.Args[1] == ssa.Value(rel.Params[1]) {
					del = true
				}
			}
			if builtinName(cc) == "append" {
				if _, path := accessPath(cc.Args[0]); path == "available" {
					app = true
				}
			}
		})
		c.check(del && app, "R4", "ReleasePages returns pages and clears the entry", p.Pos(rel.Pos()), "available += used[id]; delete(used, id)", "ReleasePages does not both return the pages to the free list and delete the used entry")
	}

	// ---------- R6 Free only at the end of Serve ----------
	if fr := p.Func("(*allocator).Free"); fr == nil {
		c.missing("R6", "(*allocator).Free")
	} else {
		for _, s := range p.callersOfStatic(fr) {
			f := s.Parent()
			okSite := f.Parent() != nil && (fnName(f.Parent()) == "(*Server).Serve" || fnName(f.Parent()) == "(*RequestServer).Serve")
			if okSite {
				okSite = false
				eachInstr(f.Parent(), func(in ssa.Instruction) {
					if d, ok := in.(*ssa.Defer); ok {
						if mc, ok := d.Call.Value.(*ssa.MakeClosure); ok && mc.Fn == f {
							okSite = true
						}
					}
				})
			}
			c.check(okSite, "R6", "Free in "+fnName(f), pos(s), "Free runs in Serve's deferred function", "the allocator is freed while requests may still be in flight")
		}
	}

	// R7 (prover): every slice of an allocator page in getDataSlice and recvPacket is within the page
	{
		w := newZWorld(p)
		ord := map[string]int{}
		lifted := map[*ssa.Function][]zreq{}
		for _, name := range []string{"(*sshFxpReadPacket).getDataSlice", "recvPacket"} {
			fn := p.Func(name)
			if fn == nil {
				continue
			}
			z := w.get(fn)
			for _, o := range z.obligationsOf() {
				if o.Kind != "slice" && o.Kind != "index" {
					continue
				}
				decideObl(c, w, z, o, "R7", oblKey(o, fn, ord), lifted)
			}
		}
		checkPageInvariant(c, "R7")
	}
	// ---------- R9 the READ buffer has the same length with and without the allocator ----------
	// (the slicing of the page itself is proved within bounds by R7 above; a clamp to the page length would be safe
	// but makes a READ longer than a page come back shorter than without the allocator)
	if gds := p.Func("(*sshFxpReadPacket).getDataSlice"); gds != nil {
		var lens []ssa.Value
		var where []ssa.Instruction
		for _, rl := range returnLeaves(gds, 0) {
			switch x := rl.v.(type) {
			case *ssa.Slice:
				if x.High != nil {
					lens = append(lens, stripConv(x.High))
					where = append(where, x)
				}
			case *ssa.MakeSlice:
				lens = append(lens, stripConv(x.Len))
				where = append(where, x)
			}
		}
		same := len(lens) >= 2
		for i, l := range lens {
			if l != lens[0] {
				// two expressions: the same number on the page's path (the make side is a pure function of the
				// request and the limit, so it can be evaluated there)
				z := newZWorld(p).get(gds)
				_, mk := where[i].(*ssa.MakeSlice)
				_, mk0 := where[0].(*ssa.MakeSlice)
				switch {
				case mk && !mk0 && z.sameOnThisPath(where[0], lens[0], l):
				case mk0 && !mk && z.sameOnThisPath(where[i], l, lens[0]):
				default:
					same = false
				}
			}
		}
		posS := p.Pos(gds.Pos())
		if len(where) > 0 {
			posS = pos(where[0])
		}
		c.check(same, "R9", "getDataSlice length is allocator independent", posS, "page[:n] and make([]byte, n) use the same n",
			"the buffer for a READ has another length with the allocator than without it (the page path clamps or computes its own length): the same READ is answered with fewer bytes, and this package's client takes a short DATA for end of file")
	} else {
		c.missing("R9", "(*sshFxpReadPacket).getDataSlice")
	}
}

// ---------------------------------------------------------------------------

func runC16(c *Ctx) {
	p := c.P
	pos := func(in ssa.Instruction) string { return p.Pos(in.Pos()) }

	// ---------- R5 an entry's attribute block is framed by its flags word alone (shared with C06.R2) ----------
	// a listing is a sequence of (name, longname, attrs) with no per-entry length: a block whose presence does not
	// follow the flags desynchronises every later entry of the batch
	checkAttrLadders(c, "R5", true)

	checkNameReplyComplete(c, "R7")
	checkMemFSNameIndex(c, "R8")
	checkMemFSListsByResolvedName(c, "R11")
	// R10: the client ends a listing on a STATUS only when that STATUS is a failure or EOF (shared with C20.Z6): an
	// SSH_FX_OK answer to READDIR read as success ends the listing early with a nil error
	c.withRule("R10", func() { checkStatusCaseNextToDataCase(c, "Z6", false) })

	// ---------- R6 a batch of the request server fits the frame the client accepts ----------
	// one NAME reply holds every entry ListAt delivered; its size is entries x (two copies of the name + attributes)
	// and the client drops the connection on a frame above 256 KiB.  Bounded only if the batch size is a small
	// constant (and names are bounded, as on the os server) or the reply is split by encoded size.
	if fl := p.Func("filelist"); fl != nil {
		bounded := false
		desc := "?"
		eachInstr(fl, func(in ssa.Instruction) {
			ms, ok := in.(*ssa.MakeSlice)
			if !ok {
				return
			}
			if k, ok := constInt(ms.Len); ok {
				bounded = k > 0 && k <= 256
				desc = fmt.Sprintf("constant %d", k)
				return
			}
			for _, l := range leavesOf(ms.Len) {
				if l.Kind == leafGlobal {
					desc = "package variable " + l.V.Name()
				}
			}
		})
		c.check(bounded, "R6", "request server batch fits one frame", p.Pos(fl.Pos()), "batch size is a small constant or the reply is split by size",
			"filelist puts a whole ListAt batch ("+desc+" entries, names of any length) into one NAME packet without looking at its encoded size: above 256 KiB the client refuses the frame, the listing fails with a lost connection and the session is dead")
	} else {
		c.missing("R6", "filelist")
	}

	// ---------- R1 request server cursor ----------
	checkListingCursor(c)

	// ---------- R2 READDIR is sequential ----------
	if d := getDispatcher(c, "R2"); d != nil && d.pktVal != nil {
		rd := p.NamedType(p.Sftp, "sshFxpReaddirPacket")
		if rd == nil {
			c.missing("R2", "sshFxpReaddirPacket")
		} else {
			head := switchHead(d.disp, d.pktVal)
			body, _, ta := simulate(head, newPtr(rd))
			isRW := ta != nil && (isPtrToNamed(ta.AssertedType, "sshFxpReadPacket") || isPtrToNamed(ta.AssertedType, "sshFxpWritePacket"))
			// the same arm as READ (a case that lists several types has one assertion per type and one body)
			if rt := p.NamedType(p.Sftp, "sshFxpReadPacket"); rt != nil && body != nil {
				if bodyR, _, taR := simulate(head, newPtr(rt)); taR != nil && bodyR == body {
					isRW = true
				}
			}
			c.check(!isRW, "R2", "READDIR goes to the sequential worker", p.Pos(d.disp.Pos()), "not a READ/WRITE for the dispatcher", "READDIR is dispatched to the parallel workers: two batches of one handle can read the same cursor")
		}
	}

	// ---------- R3 os server ----------
	rr := p.Func("(*sshFxpReaddirPacket).respond")
	if rr == nil {
		// moved to another receiver or name: the os server's READDIR code is the function of package sftp that calls
		// Readdir on the open file (there is one)
		var hosts []*ssa.Function
		for _, fn := range p.LibFuncs() {
			if fn.Pkg != p.Sftp || isClientSide(fn) {
				continue
			}
			if len(callsWhere(fn, func(cc *ssa.CallCommon) bool { return cc.IsInvoke() && cc.Method.Name() == "Readdir" })) > 0 {
				hosts = append(hosts, fn)
			}
		}
		if len(hosts) == 1 {
			rr = hosts[0]
		}
	}
	if rr == nil {
		c.missing("R3", "(*sshFxpReaddirPacket).respond")
	} else {
		c.looked(fnName(rr))
		rds := callsWhere(rr, func(cc *ssa.CallCommon) bool { return cc.IsInvoke() && cc.Method.Name() == "Readdir" })
		c.check(len(rds) == 1, "R3", "Readdir call", p.Pos(rr.Pos()), "one Readdir per request", fmt.Sprintf("%d Readdir calls", len(rds)))
		for _, rd := range rds {
			k, ok := constInt(callOf(rd).Args[0])
			why := "Readdir is called with a non-positive count: the end of the directory is never reported as an error and the client loops forever"
			if !ok {
				why = "Readdir's batch size is not a constant (" + affineOf(callOf(rd).Args[0]).String() + "): a configuration can make it non-positive (the end of the directory is then never reported and the client loops forever) or so large that one NAME reply exceeds the 256 KiB frame the client accepts (the listing fails with a lost connection)"
			}
			// 1024 entries x (2 x 255-byte names + attributes) stay below the client's frame limit only for small batches
			c.check(ok && k > 0 && k <= 256, "R3", "Readdir batch size", pos(rd), "small positive constant batch size (n<=0 would return everything and never EOF)", why)
		}
		var lp *loop
		for _, l := range loopsOf(rr) {
			lp = l
		}
		if lp == nil {
			// the loop over the entries in a literal called on the spot (a helper folded into a composite literal)
			for _, af := range rr.AnonFuncs {
				for _, l := range loopsOf(af) {
					lp = l
				}
			}
		}
		if lp == nil {
			c.bad("R3", "one entry per dirent", p.Pos(rr.Pos()), "no loop over the directory entries")
		} else {
			mn, mx, okc := countLoopIter(lp, func(in ssa.Instruction) bool {
				cc := callOf(in)
				return cc != nil && builtinName(cc) == "append"
			})
			c.check(okc && mn == 1 && mx == 1, "R3", "one entry per dirent", p.Pos(lp.head.Instrs[0].Pos()), "each dirent appended once", "a directory entry can be skipped or appended twice")
		}
		// error => status
		if len(rds) == 1 {
			call := rds[0].(*ssa.Call)
			tested := false
			for _, r := range *call.Referrers() {
				if ex, ok := r.(*ssa.Extract); ok && ex.Index == 1 {
					for _, rr2 := range *ex.Referrers() {
						if b, ok := rr2.(*ssa.BinOp); ok && b.Op == token.NEQ {
							tested = true
						}
						if phi, ok := rr2.(*ssa.Phi); ok {
							for _, r3 := range *phi.Referrers() {
								if b, ok := r3.(*ssa.BinOp); ok && (b.Op == token.NEQ || b.Op == token.EQL) {
									tested = true
								}
							}
						}
					}
				}
			}
			// and the test leads somewhere: knowing the error is not nil, the NAME reply is not reachable
			if tested {
				for _, r := range *call.Referrers() {
					ex, ok := r.(*ssa.Extract)
					if !ok || ex.Index != 1 {
						continue
					}
					// the error is tested itself, or through the join it reaches the test by (the lookup's own
					// failure joins in when the lookup and the read are one inlined stage)
					tests := nilTests(ex)
					for _, r2 := range *ex.Referrers() {
						if phi, ok := r2.(*ssa.Phi); ok {
							tests = append(tests, nilTests(phi)...)
						}
					}
					if len(tests) == 0 {
						tested = false // compared, but nothing branches on the comparison
					}
					for _, t := range tests {
						if reachFromNilSide(t, true, func(in ssa.Instruction) bool {
							// the NAME reply is not begun once the error is known
							a, ok := in.(*ssa.Alloc)
							return ok && a.Heap && typeName(a.Type()) == "sshFxpNamePacket"
						}, func(ssa.Instruction) bool { return false }) {
							tested = false
						}
					}
				}
			}
			c.check(tested, "R3", "Readdir error ends the listing", pos(call), "err != nil => STATUS (EOF ends the client's loop)", "the error of Readdir is ignored: the client never sees EOF")
		}
	}

	// ---------- R12 the listing's decoders thread their cursor ----------
	// entries carry no length of their own: a decoder below ReadDir that drops the rest of one field (a shadowed buffer
	// in the loop over extended attributes) reads every later entry of the batch from a stale position
	if rd := p.Func("(*Client).ReadDirContext"); rd != nil {
		n := checkCursorThreading(c, "R12", p.cone(rd))
		c.check(n >= 1, "R12", "last-decode sites below ReadDir", p.Pos(rd.Pos()), fmt.Sprintf("%d sites", n), "no decode site found below ReadDirContext")
	}

	checkDecodedFlagsReachTheLadder(c, "R13")
	checkStartDirectoryIsTheBase(c, "R15")
	// R16 (shared with C17.R1): "with the attributes the server reported" — the mode word of an entry is converted by
	// toFileMode, whose table is checked there
	c.withOnly("R1", "R16", func() { runC17(c) })
	// R17 (shared with C11.R1): an OPENDIR handle issued twice makes a running listing continue on another directory's lister
	c.withOnly("R1", "R17", func() { runC11(c) })
	// R18 / R19 (shared with C17.R2, C17.R8): the owner and the times of a listed entry
	c.withOnly("R2", "R18", func() { runC17(c) })
	checkTimesAreUnsigned32(c, "R19")
	// R20 (shared with C08.O3): a NAME batch that fills a frame to exactly the limit is a legal reply
	c.withRule("R20", func() { checkFrameLimits(c, newZWorld(p)) })
	checkOpendirOpensDirectories(c, "R21")
	// R22 (= C06.R21): entry names go on the wire as the lister gave them
	checkStringsEncodedVerbatim(c, "R22")
	checkOnlyEOFEndsListing(c, "R23")
	checkRepliesHoldNoPooledMemory(c, "R24")
	// R14 (shared with C05.R3/C10.R5): a lister's end of directory — io.EOF, bare or wrapped the way filelist itself
	// accepts it — is answered with SSH_FX_EOF, which is what ends the client's loop successfully
	c.withRule("R14", func() { checkErrorShapes(c, "R3") })

	// ---------- R4 client loop ----------
	if rd := p.Func("(*Client).ReadDirContext"); rd == nil {
		c.missing("R4", "(*Client).ReadDirContext")
	} else {
		c.looked(fnName(rd))
		loops := loopsOf(rd)
		// inner per-entry loop: the one containing unmarshalAttrs
		var attrs ssa.Instruction
		eachInstr(rd, func(in ssa.Instruction) {
			if cc := callOf(in); cc != nil && calleeName(cc) == "unmarshalAttrs" {
				attrs = in
			}
		})
		if attrs == nil {
			c.bad("R4", "entry decoding", p.Pos(rd.Pos()), "entries' attributes are not decoded")
		} else {
			inner := innermostLoop(loops, attrs.Block())
			if inner == nil {
				c.bad("R4", "entry loop", pos(attrs), "attributes decoded outside a per-entry loop")
			} else {
				isDecode := func(in ssa.Instruction) bool {
					cc := callOf(in)
					if cc == nil {
						return false
					}
					switch calleeName(cc) {
					case "unmarshalStringSafe", "unmarshalString", "unmarshalAttrs":
						return true
					}
					return false
				}
				mn, mx, okc := countLoopIter(inner, isDecode)
				c.check(okc && mn == 3 && mx == 3, "R4", "every entry is decoded completely", pos(attrs), "filename, longname and attrs are consumed on every path to the next entry",
					fmt.Sprintf("an iteration consumes between %d and %d of the three parts of an entry before continuing: a skipped '.'/'..' leaves its bytes in the buffer and the rest of the packet is mis-parsed", mn, mx))
				// append at most once per entry; skipped only for "." and ".."
				isApp := func(in ssa.Instruction) bool {
					cc := callOf(in)
					return cc != nil && builtinName(cc) == "append"
				}
				_, mxA, _ := countLoopIter(inner, isApp)
				c.check(mxA == 1, "R4", "each entry appended at most once", pos(attrs), "one append per entry", "an entry can be appended twice")
				// the names compared with (by == or by !=), and: on the side where the name equals one of them the entry
				// is not appended
				var consts []string
				skipsOnEqual := true
				for b := range inner.blocks {
					if iff, ok := b.Instrs[len(b.Instrs)-1].(*ssa.If); ok {
						if cmp, ok := iff.Cond.(*ssa.BinOp); ok && (cmp.Op == token.EQL || cmp.Op == token.NEQ) {
							if s, ok := constString(cmp.Y); ok {
								consts = append(consts, s)
								eqSide := 0
								if cmp.Op == token.NEQ {
									eqSide = 1
								}
								if reachFromBlock(b.Succs[eqSide], isApp, isLoopHeadStart(inner)) {
									skipsOnEqual = false
								}
							}
						}
					}
				}
				sort.Strings(consts)
				okSkip := len(consts) == 2 && consts[0] == "." && consts[1] == ".." && skipsOnEqual
				c.check(okSkip, "R4", "only '.' and '..' are skipped", pos(attrs), "skip list is exactly {\".\", \"..\"}", fmt.Sprintf("the entry loop compares names with %q: other entries are dropped or dot entries kept", consts))
				// the entry count comes from the packet and bounds the loop
			}
			// outer loop: ends only on status / send error
			outer := innermostLoop(loops, attrs.Block())
			for _, l := range loops {
				if l.blocks[attrs.Block()] && len(l.blocks) > len(outer.blocks) {
					outer = l
				}
			}
			// after a NAME packet was processed (inner loop exit) the outer loop continues: `done` stays false
			sendSites := callsWhere(rd, func(cc *ssa.CallCommon) bool { return calleeName(cc) == "sendPacket" })
			c.check(len(sendSites) == 1 && outer.blocks[sendSites[0].Block()], "R4", "one READDIR per iteration", p.Pos(outer.head.Instrs[0].Pos()), "the loop re-requests until told to stop", "READDIR is not re-sent in the loop")
			// stores/phis of `done`: true only in status and error arms
			nameDone := false
			for b := range outer.blocks {
				_ = b
			}
			// find the phi of done at the outer head: edges from inside the loop that are `true` must come from blocks
			// dominated by the status case or the error branch, never from the inner loop's exit
			for _, in := range outer.head.Instrs {
				ph, ok := in.(*ssa.Phi)
				if !ok || ph.Comment != "done" {
					continue
				}
				for i, e := range ph.Edges {
					pred := ph.Block().Preds[i]
					if k, ok := e.(*ssa.Const); ok && k.Value != nil && k.Value.String() == "true" {
						if inner := innermostLoop(loops, attrs.Block()); inner != nil && (inner.blocks[pred] || pred == inner.head) {
							nameDone = true
						}
					}
				}
			}
			c.check(!nameDone, "R4", "listing continues after a NAME batch", p.Pos(outer.head.Instrs[0].Pos()), "done is set only by STATUS or a send error", "the listing stops after the first NAME batch: directories larger than one batch are truncated")
		}
		// EOF -> nil after the loop
		eofNil := false
		for _, b := range rd.Blocks {
			iff, ok := b.Instrs[len(b.Instrs)-1].(*ssa.If)
			if !ok {
				continue
			}
			if cmp, ok := iff.Cond.(*ssa.BinOp); ok && cmp.Op == token.EQL {
				for _, l := range leavesOf(cmp.Y) {
					if l.Kind == leafGlobal && l.V.Name() == "EOF" && !inLoop(iff) {
						eofNil = true
					}
				}
			}
		}
		c.check(eofNil, "R4", "EOF ends the listing successfully", p.Pos(rd.Pos()), "err == io.EOF => nil", "EOF is no longer the successful end of a listing")
	}
}

// checkEOFCondition verifies that STATUS is returned exactly under err != nil && (err != io.EOF || n == 0)
// for the call `call` (whose results are n, err) in fn.
func checkEOFCondition(c *Ctx, fn *ssa.Function, call *ssa.Call, rule, name string) {
	checkEOFConditionX(c, fn, call, rule, name, false, "answers the entries", "the entries")
}

// checkEOFConditionX: with viaErrVar the site does not return at once but selects the error for a later common reply
// (`if cond { err = _err }`): "answers STATUS" is then "the call's error is what flows on into the join".
func checkEOFConditionX(c *Ctx, fn *ssa.Function, call *ssa.Call, rule, name string, viaErrVar bool, okText, okNoun string) {
	p := c.P
	var errEx, nEx *ssa.Extract
	for _, r := range *call.Referrers() {
		if ex, ok := r.(*ssa.Extract); ok {
			if ex.Index == 0 {
				nEx = ex
			} else {
				errEx = ex
			}
		}
	}
	if errEx == nil || nEx == nil {
		c.bad(rule, name+" examines n and err", p.Pos(call.Pos()), "the count or the error of ListAt is ignored")
		return
	}
	// collect the three tests in SSA: err != nil ; err != io.EOF ; n == 0 and evaluate the branch structure
	type testKind int
	const (
		tErrNil testKind = iota
		tErrEOF
		tNZero
	)
	kindOf := func(cmp *ssa.BinOp) (testKind, bool, bool) { // kind, sense (true means "cond true <=> err!=nil / err!=EOF / n==0"), ok
		if cmp.X == ssa.Value(errEx) || stripConv(cmp.X) == ssa.Value(errEx) {
			if isNilConst(cmp.Y) {
				return tErrNil, cmp.Op == token.NEQ, cmp.Op == token.NEQ || cmp.Op == token.EQL
			}
			for _, l := range leavesOf(cmp.Y) {
				if l.Kind == leafGlobal && l.V.Name() == "EOF" {
					return tErrEOF, cmp.Op == token.NEQ, cmp.Op == token.NEQ || cmp.Op == token.EQL
				}
			}
		}
		isCount := stripConv(cmp.X) == ssa.Value(nEx)
		// len(buf[:n]) is n
		if lc, ok := cmp.X.(*ssa.Call); ok && builtinName(&lc.Call) == "len" && len(lc.Call.Args) == 1 {
			if sl, ok := lc.Call.Args[0].(*ssa.Slice); ok && sl.Low == nil && sl.High != nil && stripConv(sl.High) == ssa.Value(nEx) {
				isCount = true
			}
		}
		if isCount {
			if k, ok := constInt(cmp.Y); ok && k == 0 {
				return tNZero, cmp.Op == token.EQL, cmp.Op == token.EQL || cmp.Op == token.NEQ
			}
		}
		return 0, false, false
	}
	// symbolic walk: from the block after the call, follow Ifs on the three tests for each of the 6 worlds
	start := call.Block()
	type world struct {
		errNil, errEOF, nZero bool
	}
	var worlds []world
	for _, w := range []world{{true, false, true}, {true, false, false}, {false, true, true}, {false, true, false}, {false, false, true}, {false, false, false}} {
		worlds = append(worlds, w)
	}
	for _, w := range worlds {
		b := start
		steps := 0
		status := -1
		var prev *ssa.BasicBlock
		for steps < 50 {
			steps++
			if viaErrVar && prev != nil {
				// the edge taken selects the call's error for the join: that is the STATUS answer
				sel := false
				for k, pb := range b.Preds {
					if pb != prev {
						continue
					}
					for _, in := range b.Instrs {
						ph, ok := in.(*ssa.Phi)
						if !ok {
							break
						}
						if k < len(ph.Edges) && (ph.Edges[k] == ssa.Value(errEx) || stripConv(ph.Edges[k]) == ssa.Value(errEx)) {
							sel = true
						}
					}
				}
				if sel {
					status = 1
					break
				}
			}
			if viaErrVar && b != start {
				// … or the arm builds the STATUS reply from the call's error on the spot
				made := false
				for _, in := range b.Instrs {
					if cc := callOf(in); cc != nil && calleeName(cc) == "statusFromError" {
						for _, a := range cc.Args {
							if a == ssa.Value(errEx) || stripConv(a) == ssa.Value(errEx) {
								made = true
							}
						}
					}
				}
				if made {
					status = 1
					break
				}
			}
			prev = b
			last := b.Instrs[len(b.Instrs)-1]
			// does this block return a status?
			if r, ok := last.(*ssa.Return); ok {
				ts, _ := p.valueRespTypes(r.Results[0], 0, map[*ssa.Function]bool{})
				if ts["sshFxpStatusPacket"] && len(ts) == 1 {
					status = 1
				} else {
					status = 0
				}
				break
			}
			if _, ok := last.(*ssa.RunDefers); ok {
				break
			}
			iff, ok := last.(*ssa.If)
			if !ok {
				if len(b.Succs) == 1 {
					b = b.Succs[0]
					continue
				}
				break
			}
			// errors.Is(err, io.EOF), possibly negated, is the err-is-EOF test as well
			condV, neg := iff.Cond, false
			if u, isU := condV.(*ssa.UnOp); isU && u.Op == token.NOT {
				condV, neg = u.X, true
			}
			if call, isCall := condV.(*ssa.Call); isCall && callIs(&call.Call, "errors.Is") && len(call.Call.Args) == 2 {
				isErr := call.Call.Args[0] == ssa.Value(errEx) || stripConv(call.Call.Args[0]) == ssa.Value(errEx)
				isEOF := false
				for _, l := range leavesOf(call.Call.Args[1]) {
					if l.Kind == leafGlobal && l.V.Name() == "EOF" {
						isEOF = true
					}
				}
				if isErr && isEOF {
					fact := w.errEOF // the call is true exactly when err is EOF
					if neg {
						fact = !fact
					}
					if fact {
						b = b.Succs[0]
					} else {
						b = b.Succs[1]
					}
					continue
				}
			}
			cmp, ok := iff.Cond.(*ssa.BinOp)
			if !ok {
				// not one of our tests (e.g. the Method switch): take the "List" path — unknown, stop
				status = 0
				break
			}
			k, sense, ok := kindOf(cmp)
			if !ok {
				// another test (method string etc.): follow the true edge once for `r.Method == "List"`
				if s, isS := constString(cmp.Y); isS && s == "List" && (cmp.Op == token.EQL || cmp.Op == token.NEQ) {
					if cmp.Op == token.EQL {
						b = b.Succs[0]
					} else {
						b = b.Succs[1]
					}
					continue
				}
				status = 0
				break
			}
			var fact bool
			switch k {
			case tErrNil:
				fact = !w.errNil
			case tErrEOF:
				fact = !w.errEOF
			case tNZero:
				fact = w.nZero
			}
			if !sense {
				fact = !fact
			}
			if fact {
				b = b.Succs[0]
			} else {
				b = b.Succs[1]
			}
		}
		want := 0
		if !w.errNil && (!w.errEOF || w.nZero) {
			want = 1
		}
		desc := fmt.Sprintf("err=%s n%s", map[bool]string{true: "nil", false: map[bool]string{true: "EOF", false: "other"}[w.errEOF]}[w.errNil], map[bool]string{true: "=0", false: ">0"}[w.nZero])
		c.check(status == want, rule, name+" status iff error without entries ("+desc+")", p.Pos(call.Pos()),
			map[int]string{1: "answers STATUS", 0: okText}[want], fmt.Sprintf("for %s the reply is %s; expected %s", desc, map[int]string{1: "a STATUS", 0: "not a STATUS", -1: "undetermined"}[status], map[int]string{1: "a STATUS", 0: okNoun}[want]))
	}
}

// isEntryStore: a store of a NAME entry into an element of a slice (`nameAttrs[i] = &sshFxpNameAttr{…}`).
func isEntryStore(in ssa.Instruction) bool {
	st, ok := in.(*ssa.Store)
	if !ok {
		return false
	}
	ia, ok := st.Addr.(*ssa.IndexAddr)
	if !ok {
		return false
	}
	if _, isArr := ia.X.(*ssa.Alloc); isArr {
		return false // the one-element array behind append(x, e)
	}
	return typeName(st.Val.Type()) == "sshFxpNameAttr"
}

// checkPageTagging: the page that receives a packet is filed under the order id that packet will get (shared by C01 and C18).
func checkPageTagging(c *Ctx, rule string) {
	p := c.P
	pos := func(in ssa.Instruction) string { return p.Pos(in.Pos()) }
	// ---------- R1 receive page tagged with the order id the packet will get ----------
	w := p.oid()
	{
		// the id the next request will get: the value an advance stores (all advances agree)
		var issuedT term
		okIssued := len(w.advances) > 0
		for i, st := range w.advances {
			t := affineOf(st.Val)
			if i > 0 && !t.byField().equal(issuedT.byField()) {
				okIssued = false
			}
			issuedT = t
		}
		// what the value of a call is, as an affine term over the callee's own state (one level of module calls)
		termOf := func(v ssa.Value) (term, bool) {
			for _, l := range leavesOf(v) {
				if l.Kind == leafCallResult {
					if f := l.Call.StaticCallee(); f != nil && inModule(f) && f.Blocks != nil {
						rls := returnLeaves(f, l.Idx)
						if len(rls) == 1 {
							return affineOf(rls[0].v), true
						}
					}
					return term{}, false
				}
			}
			return affineOf(v), true
		}
		for _, name := range []string{"(*Server).Serve", "(*RequestServer).serveLoop"} {
			fn := p.Func(name)
			if fn == nil {
				c.missing(rule, name)
				continue
			}
			c.looked(name)
			recvs := callsWhere(fn, func(cc *ssa.CallCommon) bool { return calleeName(cc) == "recvPacket" })
			if len(recvs) != 1 {
				c.und(rule, name+" recvPacket", p.Pos(fn.Pos()), fmt.Sprintf("%d recvPacket calls", len(recvs)))
				continue
			}
			rc := recvs[0]
			// the order id argument: the method form takes it alone, the function form after the reader and the allocator
			var arg ssa.Value
			for _, a := range argsOf(callOf(rc)) {
				if isBasicKind(types.Uint32)(a.Type()) {
					arg = a
				}
			}
			if arg == nil {
				c.und(rule, name+" recvPacket", p.Pos(fn.Pos()), "no order id argument")
				continue
			}
			nextT, okNext := termOf(arg)
			c.check(okNext && okIssued && nextT.byField().equal(issuedT.byField()), rule, name+" receive page tag predicts the order id", pos(rc),
				"the page is filed under packetCount+1, which is what the next advance stores", fmt.Sprintf("the receive buffer is filed under %s but the next order id issued is %s: the page that holds a received packet is filed under another request's order id and released while still in use", nextT, issuedT))
			// … and the id travels unchanged down to the allocator: whatever a function on the way hands on of its
			// order id parameter is the parameter itself
			var follow func(f *ssa.Function, d int)
			seenF := map[*ssa.Function]bool{}
			follow = func(f *ssa.Function, d int) {
				if f == nil || f.Blocks == nil || !inModule(f) || d > 3 || seenF[f] {
					return
				}
				seenF[f] = true
				var prm *ssa.Parameter
				for _, q := range f.Params {
					if isBasicKind(types.Uint32)(q.Type()) {
						prm = q
					}
				}
				if prm == nil {
					return
				}
				eachInstr(f, func(in ssa.Instruction) {
					cc := callOf(in)
					if cc == nil {
						return
					}
					for _, a := range argsOf(cc) {
						if !isBasicKind(types.Uint32)(a.Type()) {
							continue
						}
						from := false
						for _, l := range leavesOf(a) {
							if l.V == ssa.Value(prm) {
								from = true
							}
						}
						if bo, ok := a.(*ssa.BinOp); ok && (bo.X == ssa.Value(prm) || bo.Y == ssa.Value(prm)) {
							from = true
						}
						if !from {
							continue
						}
						c.check(a == ssa.Value(prm), rule, fmt.Sprintf("%s hands the order id on unchanged to %s", fnName(f), calleeName(cc)), pos(in), "the parameter itself",
							"the order id is changed on its way to the allocator ("+affineOf(a).String()+"): the page that holds a received packet is filed under another request's order id and released while still in use")
						follow(cc.StaticCallee(), d+1)
					}
				})
			}
			follow(callOf(rc).StaticCallee(), 0)
			l := innermostLoop(loopsOf(fn), rc.Block())
			if l == nil {
				c.bad(rule, name+" receive loop", pos(rc), "recvPacket is not in a loop")
				continue
			}
			_, mx, n := countPaths(fn, rc, isLoopHeadStart(l), w.isIssue)
			c.check(n == 0 || mx <= 1, rule, name+" one order id per received packet", pos(rc), "at most one order id is issued between two receives", "more than one order id can be issued per received packet: the prediction used to tag the page is off")
		}
		// the connection and the packet manager share one allocator
		for _, name := range []string{"WithAllocator$1", "WithRSAllocator$1"} {
			// the body of the option: the function value the option constructor returns (a literal, a named function,
			// a method value) — and, when that only forwards, the helper it calls
			fn := p.optionBody(strings.TrimSuffix(name, "$1"))
			if fn == nil {
				c.missing(rule, name)
				continue
			}
			var vals []ssa.Value
			collect := func(f *ssa.Function) {
				eachInstr(f, func(in ssa.Instruction) {
					if s, ok := in.(*ssa.Store); ok {
						if fa, ok := s.Addr.(*ssa.FieldAddr); ok {
							if _, n, _, _ := fieldOf(fa); n == "alloc" {
								vals = append(vals, s.Val)
							}
						}
					}
				})
			}
			collect(fn)
			if len(vals) == 0 {
				for _, callee := range staticCallees(fn) {
					if callee.Blocks != nil && inModule(callee) && callee.Pkg == p.Sftp {
						collect(callee)
					}
				}
			}
			c.check(len(vals) == 2 && vals[0] == vals[1], rule, name+" one allocator", p.Pos(fn.Pos()), "conn and packet manager get the same allocator", "the connection and the packet manager do not share one allocator: pages taken at receive are never released")
		}
	}

}

// checkNoSliceExtension: a page from the allocator is 256 KiB long whatever the frame length, while the buffer
// recvPacket makes without the allocator has cap == len.  A decoder that reslices a byte slice beyond its length
// (b[:n] with len(b) < n <= cap(b)) therefore reads stale page contents with the allocator and fails without it.
// Every b[lo:hi] on a byte slice in the decode cone must have hi <= len(b), proved by the linear prover.
func checkNoSliceExtension(c *Ctx, rule string) {
	p := c.P
	w := newZWorld(p)
	n := 0
	ord := map[string]int{}
	for _, fn := range decodeCone(p) {
		// package sftp only: the allocator's pages carry its frames; filexfer's readPacket grows a caller-supplied
		// scratch buffer up to its capacity on purpose and is not connected to the allocator
		if fn.Pkg != p.Sftp {
			continue
		}
		var z *zfn
		eachInstr(fn, func(in ssa.Instruction) {
			s, ok := in.(*ssa.Slice)
			if !ok || s.High == nil {
				return
			}
			sl, isSl := s.X.Type().Underlying().(*types.Slice)
			if !isSl {
				return
			}
			if b, ok := sl.Elem().Underlying().(*types.Basic); !ok || b.Kind() != types.Byte {
				return
			}
			if z == nil {
				z = w.get(fn)
			}
			k := fnName(fn) + ": reslice"
			ord[k]++
			key := fmt.Sprintf("%s #%d", k, ord[k])
			n++
			goal := leq(z.term(s.High), z.lenOf(s.X, 0), 0)
			if ok, _ := z.prove(in, []lin{goal}); ok {
				c.ok(rule, key, p.Pos(in.Pos()), "high bound <= len: the decoder stays inside the frame")
				return
			}
			if os.Getenv("ZDEBUG") != "" && strings.Contains(key, os.Getenv("ZDEBUG")) {
				fmt.Printf("ZDEBUG %s goal %s\n", key, goal)
				for _, f := range z.factsAt(in) {
					fmt.Printf("    %s\n", f)
				}
			}
			c.bad(rule, key, p.Pos(in.Pos()), "a decoder reslices a byte slice beyond its length (only cap bounds it): with the allocator the bytes beyond the frame are stale contents of the page, without it the slice expression fails — the two configurations answer differently")
		})
	}
	c.check(n >= 7, rule, "reslice sites in the decode cone", "?", fmt.Sprintf("%d sites", n), fmt.Sprintf("only %d reslice sites found in the decode cone", n))
}

// checkNoPageRetained (C18.R10): the receive page of a request is released when its response has been written.  A
// Request that stays in the handle table after that (OPEN, OPENDIR) must not keep a byte slice that points into the
// page — the attribute bytes of OPEN are the only candidate — or a later packet overwrites it.  In requestFromPacket,
// under the cases of the packet types that packetWorker enters into the table, every []byte stored into the Request
// is a fresh copy (append to nil / make), not the decoder's sub-slice of the input.
func checkNoPageRetained(c *Ctx, rule string) {
	p := c.P
	rfp := p.Func("requestFromPacket")
	worker := p.Func("(*RequestServer).packetWorker")
	if rfp == nil || worker == nil {
		c.missing(rule, "requestFromPacket / packetWorker")
		return
	}
	// packet types whose Request is entered into the handle table
	tabled := map[string]bool{}
	eachInstr(worker, func(in ssa.Instruction) {
		cc := callOf(in)
		reqArg := p.publishesRequest(cc)
		if reqArg == nil {
			return
		}
		for _, l := range leavesOf(reqArg) {
			if l.Kind == leafCallResult && calleeName(l.Call) == "requestFromPacket" {
				for _, a := range l.Call.Args {
					v := a
					for i := 0; i < 4; i++ {
						switch x := v.(type) {
						case *ssa.MakeInterface:
							v = x.X
						case *ssa.ChangeInterface:
							v = x.X
						case *ssa.Extract:
							v = x.Tuple
						case *ssa.TypeAssert:
							if _, isIface := x.AssertedType.Underlying().(*types.Interface); !isIface {
								tabled[typeName(x.AssertedType)] = true
							}
							i = 4
						}
					}
				}
			}
		}
	})
	c.check(len(tabled) >= 2, rule, "requests entered into the handle table", p.Pos(worker.Pos()), fmt.Sprintf("%d packet types", len(tabled)), fmt.Sprintf("only %d packet types found whose Request is entered into the handle table (OPEN and OPENDIR expected)", len(tabled)))
	var names []string
	for t := range tabled {
		names = append(names, t)
	}
	sort.Strings(names)
	// by running requestFromPacket on a packet of each such type (fields as tokens): a byte slice field of the Request
	// that holds a packet field's token itself, not a copy of it, is the decoder's sub-slice
	{
		evaluated := len(names) > 0
		res := map[string]map[string]string{}
		for _, tn := range names {
			f, ok := p.requestFieldsOf(tn)
			if !ok {
				evaluated = false
				break
			}
			res[tn] = f
		}
		if evaluated {
			req := p.NamedType(p.Sftp, "Request")
			for _, tn := range names {
				kept := ""
				if st, ok := req.Underlying().(*types.Struct); ok {
					for i := 0; i < st.NumFields(); i++ {
						f := st.Field(i)
						if sl, ok := f.Type().Underlying().(*types.Slice); ok && isByteType(sl.Elem()) {
							if l := res[tn][f.Name()]; l != "" && !strings.HasPrefix(l, "copy:") {
								kept = f.Name()
							}
						}
					}
				}
				c.check(kept == "", rule, tn+": no byte slice kept", p.Pos(rfp.Pos()), "byte slices stored in the long-lived Request are copies",
					"Request."+kept+" of a request that stays in the handle table is the decoder's sub-slice of the receive buffer: with the allocator that page is recycled once the response has been sent, and a later packet overwrites what the open file's Request still points at")
			}
			return
		}
	}
	var sw ssa.Value
	eachInstr(rfp, func(in ssa.Instruction) {
		if ta, ok := in.(*ssa.TypeAssert); ok && ta.CommaOk && sw == nil {
			sw = ta.X
		}
	})
	if sw == nil {
		c.und(rule, "requestFromPacket switch", p.Pos(rfp.Pos()), "no type switch")
		return
	}
	head := switchHead(rfp, sw)
	for _, tn := range names {
		nt := p.NamedType(p.Sftp, tn)
		if nt == nil {
			continue
		}
		body, def, _ := simulate(head, types.NewPointer(nt))
		if def || body == nil {
			c.ok(rule, tn+": no byte slice kept", p.Pos(rfp.Pos()), "no case: nothing of the packet is stored")
			continue
		}
		kept := ""
		for b := range regionOf(rfp, body) {
			for _, in := range b.Instrs {
				st, ok := in.(*ssa.Store)
				if !ok {
					continue
				}
				t, fname, _, ok := fieldOf(st.Addr)
				if !ok || typeName(t) != "Request" {
					continue
				}
				if sl, ok := st.Val.Type().Underlying().(*types.Slice); !ok || !isByteType(sl.Elem()) {
					continue
				}
				fresh := false
				switch v := st.Val.(type) {
				case *ssa.Call:
					if builtinName(&v.Call) == "append" && isNilConst(v.Call.Args[0]) {
						fresh = true
					}
				case *ssa.MakeSlice:
					fresh = true
				}
				if !fresh {
					kept = fname
				}
			}
		}
		c.check(kept == "", rule, tn+": no byte slice kept", p.Pos(body.Instrs[0].Pos()), "byte slices stored in the long-lived Request are copies",
			"Request."+kept+" of a request that stays in the handle table is the decoder's sub-slice of the receive buffer: with the allocator that page is recycled once the HANDLE reply is out, and the bytes change under the open handle")
	}
}

// checkNameReplyComplete (C16.R7): the directory cursor has already moved past every entry handed to the NAME reply
// (lsInc / Readdir), so the encoder must put all of them on the wire: the count it writes is len(NameAttrs), and the
// loop over NameAttrs encodes each entry exactly once and is left early only with an error.
func checkNameReplyComplete(c *Ctx, rule string) {
	p := c.P
	fn := p.Func("(*sshFxpNamePacket).marshalPacket")
	if fn == nil {
		c.missing(rule, "(*sshFxpNamePacket).marshalPacket")
		return
	}
	// the count
	countOK := false
	eachInstr(fn, func(in ssa.Instruction) {
		cc := callOf(in)
		if cc == nil || calleeName(cc) != "marshalUint32" || len(cc.Args) != 2 {
			return
		}
		t := affineOf(cc.Args[1])
		for k, v := range t.coef {
			if v == 1 && t.c == 0 && len(t.coef) == 1 && strings.HasPrefix(k, "len(") && strings.Contains(k, "NameAttrs") {
				countOK = true
			}
		}
	})
	c.check(countOK, rule, "NAME reply announces every entry", p.Pos(fn.Pos()), "count = len(NameAttrs)", "the count written into the NAME reply is not the number of entries the packet was given")
	// the loop
	var l *loop
	for _, cand := range loopsOf(fn) {
		l = cand
	}
	if l == nil {
		c.bad(rule, "NAME reply encodes every entry", p.Pos(fn.Pos()), "no loop over the entries")
		return
	}
	isEnc := func(in ssa.Instruction) bool {
		cc := callOf(in)
		return cc != nil && builtinName(cc) == "append" && len(cc.Args) == 2
	}
	mn, mx, ok := countLoopIter(l, isEnc)
	// leaving the loop other than at its head must be an error return
	early := false
	for b := range l.blocks {
		if b == l.head {
			continue
		}
		for _, s := range b.Succs {
			if l.blocks[s] {
				continue
			}
			// s is outside: every return reachable from s without re-entering must carry a non-nil error
			if reachFromBlock(s, func(in ssa.Instruction) bool {
				r, isR := in.(*ssa.Return)
				return isR && isReturn(in) && isNilConst(r.Results[len(r.Results)-1])
			}, nil) {
				early = true
			}
		}
	}
	c.check(ok && mn == 1 && mx == 1 && !early, rule, "NAME reply encodes every entry", p.Pos(l.head.Instrs[0].Pos()), "each entry appended once; the loop is left early only with an error",
		"the encoder can skip entries or stop before the last one and still report success: the directory cursor has already moved past them, so they are never listed")
}

// checkMemFSNameIndex (C16.R8): the in-package backend lists a directory by comparing each memFile's own name field
// with the directory's, while entries are found by their map key.  Listings are right only while the two agree: every
// time a file object is filed under a key in root.files, the same function sets that object's name to that key.
func checkMemFSNameIndex(c *Ctx, rule string) {
	p := c.P
	n := 0
	for _, fn := range p.LibFuncs() {
		if typeName(recvTypeOf(outermost(fn))) != "root" {
			continue
		}
		ord := 0
		eachInstr(fn, func(in ssa.Instruction) {
			mu, ok := in.(*ssa.MapUpdate)
			if !ok {
				return
			}
			isFiles := false
			for _, l := range leavesOf(mu.Map) {
				if l.Kind == leafFieldLoad && l.Field == "files" {
					isFiles = true
				}
			}
			if !isFiles {
				return
			}
			n++
			ord++
			named := false
			eachInstr(fn, func(x ssa.Instruction) {
				st, ok := x.(*ssa.Store)
				if !ok {
					return
				}
				_, fname, base, ok := fieldOf(st.Addr)
				if !ok || fname != "name" {
					return
				}
				if (base == mu.Value || sameValue(base, mu.Value)) && (st.Val == mu.Key || sameValue(st.Val, mu.Key)) {
					named = true
				}
			})
			c.check(named, rule, fmt.Sprintf("%s: entry #%d is filed under its own name", fnName(fn), ord), p.Pos(in.Pos()), "files[k] = f goes with f.name = k",
				"a file object is filed under a key without its name field being set to that key (or another object's name is set instead): listings of its directory, which go by the name field, no longer show it")
		})
	}
	c.check(n >= 3, rule, "in-memory backend: entries filed", "?", fmt.Sprintf("%d sites", n), fmt.Sprintf("only %d sites found", n))
}

// checkListingCursor (C16.R1, shared with C10 as R9): the request server reads the cursor, calls ListAt at it, advances
// it by ListAt's own count exactly once, emits finfo[:n] and answers STATUS exactly when there is nothing to deliver.
func checkListingCursor(c *Ctx) {
	p := c.P
	directOK := map[*ssa.Store]bool{}
	pos := func(in ssa.Instruction) string { return p.Pos(in.Pos()) }
	_ = pos
	// ---------- R1 request server cursor ----------
	if fl := p.Func("filelist"); fl == nil {
		c.missing("R1", "filelist")
	} else {
		c.looked("filelist")
		lsNext := callsWhere(fl, func(cc *ssa.CallCommon) bool { return calleeName(cc) == "lsNext" })
		listAt := callsWhere(fl, func(cc *ssa.CallCommon) bool { return cc.IsInvoke() && cc.Method.Name() == "ListAt" })
		lsInc := callsWhere(fl, func(cc *ssa.CallCommon) bool { return calleeName(cc) == "lsInc" })
		// the cursor is read through lsNext or, when that accessor has been folded into filelist, straight from the field;
		// likewise it is advanced through lsInc or by a store of cursor + amount
		isCursorField := func(addr ssa.Value) bool {
			t, n, _, ok := fieldOf(addr)
			return ok && n == "lsoffset" && typeName(t) == "state"
		}
		var directReads []ssa.Instruction
		var directIncs []*ssa.Store
		eachInstr(fl, func(in ssa.Instruction) {
			switch x := in.(type) {
			case *ssa.UnOp:
				if x.Op == token.MUL && isCursorField(x.X) {
					directReads = append(directReads, x)
				}
			case *ssa.Store:
				if isCursorField(x.Addr) {
					directIncs = append(directIncs, x)
				}
			}
		})
		if len(listAt) != 1 || (len(lsNext) != 1 && !(len(lsNext) == 0 && len(directReads) > 0)) {
			c.bad("R1", "filelist shape", p.Pos(fl.Pos()), fmt.Sprintf("%d lsNext and %d ListAt calls (expected 1 and 1)", len(lsNext), len(listAt)))
		} else {
			la := listAt[0].(*ssa.Call)
			// offset argument is the cursor just read
			okOff := false
			for _, l := range leavesOf(la.Call.Args[1]) {
				if l.Kind == leafCallResult && len(lsNext) == 1 && l.CallIn == lsNext[0] {
					okOff = true
				}
				if l.Kind == leafFieldLoad && l.Field == "lsoffset" && len(lsNext) == 0 {
					// read before the call, and not advanced in between
					if ld, isLd := l.V.(ssa.Instruction); isLd && dominates(ld, la) {
						adv := false
						for _, st := range directIncs {
							if reachAvoiding(fl, ld, func(in ssa.Instruction) bool { return in == ssa.Instruction(st) }, func(in ssa.Instruction) bool { return in == ssa.Instruction(la) }) {
								adv = true
							}
						}
						okOff = !adv
					}
				}
			}
			c.check(okOff && len(leavesOf(la.Call.Args[1])) == 1, "R1", "ListAt at the cursor", pos(la), "ListAt(buf, r.lsNext())", "ListAt is not called at the handle's current cursor: entries are repeated or skipped")
			// buffer of MaxFilelist entries
			okBuf := false
			for _, l := range leavesOfIface(la.Call.Args[0]) {
				if m, ok := l.(*ssa.MakeSlice); ok {
					for _, lf := range leavesOf(m.Len) {
						if lf.Kind == leafGlobal && lf.V.Name() == "MaxFilelist" {
							okBuf = true
						}
					}
				}
			}
			c.check(okBuf, "R1", "ListAt buffer", pos(la), "make([]os.FileInfo, MaxFilelist)", "the ListAt buffer is not a fresh MaxFilelist-sized slice")
			// lsInc exactly once after ListAt on every path, with ListAt's own count
			nKey := fmt.Sprintf("%s#0", valKey(la))
			isInc := func(in ssa.Instruction) bool {
				if st, isSt := in.(*ssa.Store); isSt && isCursorField(st.Addr) {
					return true
				}
				cc := callOf(in)
				_, plain := in.(*ssa.Call)
				return plain && cc != nil && calleeName(cc) == "lsInc"
			}
			mn, mx, n := countPaths(fl, la, isReturn, isInc)
			c.check(n > 0 && mn == 1 && mx == 1, "R1", "cursor advanced exactly once per batch", pos(la), "one lsInc on every path after ListAt", fmt.Sprintf("the cursor is advanced between %d and %d times after a ListAt: entries are skipped or served twice", mn, mx))
			for _, inc := range lsInc {
				t := affineOf(argsOf(callOf(inc))[0])
				c.check(len(t.coef) == 1 && t.coef[nKey] == 1 && t.c == 0, "R1", "cursor advanced by ListAt's count", pos(inc), "lsInc(int64(n))", "the cursor advances by "+t.String()+", not by the number of entries ListAt returned: a lister that returns a short batch loses or repeats entries")
			}
			for _, st := range directIncs {
				// cursor = cursor + n: the stored value is the cursor's own load plus ListAt's count
				t := affineOf(st.Val)
				own := 0
				for a, k := range t.coef {
					if ld, isLd := t.atoms[a].(*ssa.UnOp); isLd && ld.Op == token.MUL && isCursorField(ld.X) && k == 1 && sameValue(ld.X.(*ssa.FieldAddr).X, st.Addr.(*ssa.FieldAddr).X) {
						own++
					}
				}
				c.check(len(t.coef) == 2 && own == 1 && t.coef[nKey] == 1 && t.c == 0, "R1", "cursor advanced by ListAt's count", pos(st), "lsoffset += int64(n)", "the cursor becomes "+t.String()+", not itself plus the number of entries ListAt returned: a lister that returns a short batch loses or repeats entries")
				directOK[st] = true
			}
			// entries: range over finfo[:n]
			okRange := false
			var appendLoop *loop
			for _, l := range loopsOf(fl) {
				for _, in := range l.head.Instrs {
					_ = in
				}
				// a loop whose bound is len(finfo[:n])
				for b := range l.blocks {
					for _, in := range b.Instrs {
						if cc := callOf(in); cc != nil && builtinName(cc) == "append" {
							appendLoop = l
						}
						// … or fills a reply slice made to measure, element by element
						if isEntryStore(in) {
							appendLoop = l
						}
					}
				}
			}
			if appendLoop != nil {
				// the ranged slice is Slice(buf, High=n)
				for _, b := range fl.Blocks {
					for _, in := range b.Instrs {
						if cc := callOf(in); cc != nil && builtinName(cc) == "len" {
							for _, l := range leavesOfIface(cc.Args[0]) {
								if s, ok := l.(*ssa.Slice); ok && s.Low == nil && s.High != nil {
									h := affineOf(s.High)
									if len(h.coef) == 1 && h.coef[nKey] == 1 && h.c == 0 {
										okRange = true
									}
								}
							}
						}
					}
				}
				mnA, mxA, okA := countLoopIter(appendLoop, func(in ssa.Instruction) bool {
					cc := callOf(in)
					return (cc != nil && builtinName(cc) == "append") || isEntryStore(in)
				})
				c.check(okA && mnA == 1 && mxA == 1, "R1", "one reply entry per listed entry", p.Pos(appendLoop.head.Instrs[0].Pos()), "one append per element", "an element of the batch is appended more than once (or the loop does not append)")
			}
			c.check(okRange, "R1", "reply built from finfo[:n]", pos(la), "entries = finfo[:n]", "the reply is not built from exactly the first n entries ListAt filled in")
			// status condition: truth table over err {nil, EOF, other} x n {0, >0}
			checkEOFCondition(c, fl, la, "R1", "filelist")
		}
	}
	// lsoffset written only by lsInc as += param
	for _, a := range p.accessesOf("state", "lsoffset") {
		if !a.Write || isFreshRoot(a.Root) {
			continue
		}
		good := fnName(a.Fn) == "(*state).lsInc"
		if !good {
			// filelist's own advance, checked above
			for _, r := range *a.In.(ssa.Value).Referrers() {
				if st, ok := r.(*ssa.Store); ok && directOK[st] {
					good = true
				}
			}
			if good {
				c.ok("R1", "write of lsoffset in "+fnName(a.Fn), pos(a.In), "filelist advances the cursor itself, by ListAt's count")
				continue
			}
		}
		if good {
			for _, r := range *a.In.(ssa.Value).Referrers() {
				if st, ok := r.(*ssa.Store); ok {
					t := affineOf(st.Val)
					good = len(t.coef) == 2 && t.c == 0 && t.coef["param:offset"] == 1
				}
			}
		}
		c.check(good, "R1", "write of lsoffset in "+fnName(a.Fn), pos(a.In), "only lsInc advances the cursor, by its argument", "the listing cursor is modified outside lsInc or not by += argument")
	}

}

// checkMemFSListsByResolvedName (C16.R11): the in-memory backend finds the entries of a directory by comparing
// path.Dir(key) with the directory's name.  The directory was reached through fetch, which follows symbolic links, so
// the name to compare with is the name field of the object fetch returned — not the name the client asked for: listing
// "/current" where that is a link to "/data" must list the children of "/data".
func checkMemFSListsByResolvedName(c *Ctx, rule string) {
	p := c.P
	// wherever the listing is built: a method of the in-memory root (readdir, or Filelist once readdir is folded in)
	// with a loop that compares path.Dir(key) and appends
	var hosts []*ssa.Function
	for _, fn := range p.LibFuncs() {
		if r := fn.Signature.Recv(); r != nil && typeName(r.Type()) == "root" && fn.Pkg == p.Sftp {
			hosts = append(hosts, fn)
		}
	}
	sort.Slice(hosts, func(i, j int) bool { return hosts[i].String() < hosts[j].String() })
	n := 0
	for _, rd := range hosts {
		rd := rd
		loops := loopsOf(rd)
		eachInstr(rd, func(in ssa.Instruction) {
			bo, ok := in.(*ssa.BinOp)
			if !ok || (bo.Op != token.EQL && bo.Op != token.NEQ) {
				return
			}
			l := innermostLoop(loops, in.Block())
			if l == nil {
				return
			}
			appends := false
			for b := range l.blocks {
				for _, x := range b.Instrs {
					if cc := callOf(x); cc != nil && builtinName(cc) == "append" {
						appends = true
					}
				}
			}
			if !appends {
				return
			}
			isDirOfKey := func(v ssa.Value) bool {
				call, ok := v.(*ssa.Call)
				return ok && callIs(&call.Call, "path.Dir")
			}
			var other ssa.Value
			switch {
			case isDirOfKey(bo.X):
				other = bo.Y
			case isDirOfKey(bo.Y):
				other = bo.X
			default:
				return
			}
			n++
			good := true
			what := ""
			for _, l := range leavesOf(other) {
				if l.Kind == leafFieldLoad && l.Field == "name" && typeName(l.Base.Type()) == "memFile" {
					continue
				}
				good = false
				switch l.Kind {
				case leafParam:
					what = "the parameter " + l.Param.Name()
				default:
					what = "something other than the fetched directory's name"
				}
			}
			c.check(good, rule, "the in-memory listing selects children by the fetched directory's own name", p.Pos(in.Pos()), "path.Dir(key) == dir.name",
				"the children are selected by "+what+": a directory listed through a symbolic link (or by a non-canonical name) comes back empty although it has entries")
		})
	}
	c.check(n >= 1, rule, "the in-memory listing compares path.Dir(key)", "?", fmt.Sprintf("%d comparisons", n), "no method of the in-memory root selects the children of a directory by path.Dir(key) any more")
}

// optionBody: the function that an option constructor (WithAllocator, WithStartDirectory, ...) returns — a literal, a
// named function or a method value.
func (p *Program) optionBody(name string) *ssa.Function {
	ctor := p.Func(name)
	if ctor == nil {
		return p.Func(name + "$1")
	}
	for _, rl := range returnLeaves(ctor, 0) {
		switch x := rl.v.(type) {
		case *ssa.MakeClosure:
			if f, ok := x.Fn.(*ssa.Function); ok {
				// a bound method value: the wrapper calls the method
				if f.Synthetic != "" {
					for _, callee := range staticCallees(f) {
						if callee.Blocks != nil && inModule(callee) {
							return callee
						}
					}
				}
				return f
			}
		case *ssa.Function:
			return x
		case *ssa.ChangeType:
			if f, ok := x.X.(*ssa.Function); ok {
				return f
			}
			if mc, ok := x.X.(*ssa.MakeClosure); ok {
				if f, ok := mc.Fn.(*ssa.Function); ok {
					return f
				}
			}
		}
	}
	return p.Func(name + "$1")
}

// checkOpendirOpensDirectories (C16.R21): the os-backed server's OPENDIR looks at what the path names before it
// opens it: a directory is opened, anything else is answered with ENOTDIR.  On the side of the IsDir test where the
// answer is "yes" the open must be reached, on the other side it must not — the test the wrong way round refuses
// every directory and hands out handles for plain files.
func checkOpendirOpensDirectories(c *Ctx, rule string) {
	p := c.P
	hp := p.Func("handlePacket")
	open := p.Func("(*Server).openfile")
	if hp == nil || open == nil {
		c.missing(rule, "handlePacket / (*Server).openfile")
		return
	}
	opens := func(region map[*ssa.BasicBlock]bool) bool {
		found := false
		for _, f := range p.moduleCalleesIn(hp, region) {
			if f == open || p.cone(f)[open] {
				found = true
			}
		}
		return found
	}
	n := 0
	eachInstr(hp, func(in ssa.Instruction) {
		call, ok := in.(*ssa.Call)
		if !ok || !call.Call.IsInvoke() || call.Call.Method.Name() != "IsDir" {
			return
		}
		for _, r := range *call.Referrers() {
			var iff *ssa.If
			neg := false
			switch x := r.(type) {
			case *ssa.If:
				iff = x
			case *ssa.UnOp:
				if x.Op == token.NOT {
					for _, r2 := range *x.Referrers() {
						if i2, ok := r2.(*ssa.If); ok {
							iff, neg = i2, true
						}
					}
				}
			}
			if iff == nil || len(iff.Block().Succs) != 2 {
				continue
			}
			yes, no := iff.Block().Succs[0], iff.Block().Succs[1]
			if neg {
				yes, no = no, yes
			}
			if len(yes.Preds) != 1 || len(no.Preds) != 1 {
				continue
			}
			oy, on := opens(regionOf(hp, yes)), opens(regionOf(hp, no))
			if !oy && !on {
				continue // not the test that guards an open
			}
			n++
			c.check(oy && !on, rule, "OPENDIR opens what IsDir says is a directory", p.Pos(call.Pos()), "directory: opened; anything else: not opened",
				"the open is on the side of the IsDir test where the path is not a directory: every directory is refused with ENOTDIR and a plain file gets a directory handle")
		}
	})
	c.okT(rule, "IsDir tests guarding an open", "?", fmt.Sprintf("%d", n))
}
