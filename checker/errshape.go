package main

import (
	"strconv"
	"fmt"
	"go/constant"
	"go/token"
	"go/types"
	"strings"

	"golang.org/x/tools/go/ssa"
)

// Error translation, evaluated over a finite set of standard error shapes.
// What package os / errors do to each shape is library semantics (axioms below);
// what statusFromError, translateSyscallError and translateErrno do is read from
// their SSA: the evaluator walks their CFG and answers each branch from the axioms.

type errShape struct {
	Name  string
	Outer string // nil | ErrNotExist | ErrPermission | EOF | Errno | PathError | LinkError | SyscallError | fxerr | opaque
	Inner string // for wrappers: ErrNotExist | ErrPermission | EOF | ENOENT | EACCES | EPERM | EIO | opaque
	Errno string // for Outer==Errno: ENOENT | EACCES | EPERM | EIO
	Code  int64  // for fxerr
	Want  int64  // expected SFTP status code
}

func stdErrShapes() []errShape {
	var out []errShape
	out = append(out, errShape{Name: "nil", Outer: "nil", Want: 0})
	out = append(out, errShape{Name: "os.ErrNotExist", Outer: "ErrNotExist", Want: 2})
	out = append(out, errShape{Name: "os.ErrPermission", Outer: "ErrPermission", Want: 3})
	out = append(out, errShape{Name: "io.EOF", Outer: "EOF", Want: 1})
	for _, e := range []struct {
		n string
		w int64
	}{{"ENOENT", 2}, {"EACCES", 3}, {"EPERM", 3}, {"EIO", 4}} {
		out = append(out, errShape{Name: "syscall." + e.n, Outer: "Errno", Errno: e.n, Want: e.w})
	}
	for _, w := range []string{"PathError", "LinkError", "SyscallError"} {
		for _, in := range []struct {
			n string
			w int64
		}{{"ErrNotExist", 2}, {"ErrPermission", 3}, {"EOF", 1}, {"ENOENT", 2}, {"EACCES", 3}, {"EPERM", 3}, {"EIO", 4}, {"opaque", 4}} {
			out = append(out, errShape{Name: "*os." + w + "{" + in.n + "}", Outer: w, Inner: in.n, Want: in.w})
		}
	}
	for _, k := range []int64{1, 2, 3, 4, 5, 8} {
		out = append(out, errShape{Name: fmt.Sprintf("fxerr(%d)", k), Outer: "fxerr", Code: k, Want: k})
	}
	out = append(out, errShape{Name: "errors.New(…)", Outer: "opaque", Want: 4})
	return out
}

// base: the error after os's own one-level unwrapping (underlyingError).
func (s errShape) base() string {
	switch s.Outer {
	case "PathError", "LinkError", "SyscallError":
		return s.Inner
	case "Errno":
		return s.Errno
	}
	return s.Outer
}

func (s errShape) isNotExist() bool { b := s.base(); return b == "ErrNotExist" || b == "ENOENT" }
func (s errShape) isPermission() bool {
	b := s.base()
	return b == "ErrPermission" || b == "EACCES" || b == "EPERM"
}
func (s errShape) isEOFDeep() bool   { return s.base() == "EOF" } // errors.Is unwraps os's wrappers
func (s errShape) isFxerrDeep() bool { return s.Outer == "fxerr" }

type errEval struct {
	p      *Program
	errno  map[string]int64
	notes  []string
	failed string
}

// evalTranslate runs translateSyscallError on a concrete value of the shape with the SSA interpreter and returns
// (code, ok): it does not matter whether the errno table is a function of its own, a switch inside
// translateSyscallError or a map.
func (e *errEval) evalTranslate(s errShape) (int64, bool) {
	fn := e.p.Func("translateSyscallError")
	if fn == nil {
		e.failed = "translateSyscallError not found"
		return 0, false
	}
	arg, why := e.p.errValueOf(s)
	if why != "" {
		e.failed = why
		return 0, false
	}
	ev := newEvaluator(e.p)
	st := ev.run(fn, []evVal{arg}, 0)
	if st.kind != "return" || len(st.vals) != 2 {
		e.failed = "translateSyscallError could not be evaluated for " + s.Name + ": " + st.kind + " " + st.why
		return 0, false
	}
	okv := st.vals[1]
	if okv.k != evConst || okv.c.Kind() != constant.Bool {
		e.failed = "translateSyscallError returns an ok the evaluator does not know for " + s.Name
		return 0, false
	}
	if !constant.BoolVal(okv.c) {
		return 0, false
	}
	cv := st.vals[0]
	if cv.k != evConst || cv.c.Kind() != constant.Int {
		e.failed = "translateSyscallError returns a code the evaluator does not know for " + s.Name
		return 0, false
	}
	k, _ := constant.Int64Val(cv.c)
	return k, true
}

// errValueOf builds the interpreter's value for an error shape, as far as translateSyscallError can tell shapes apart
// (it looks at dynamic types and at errno values only).
func (p *Program) errValueOf(s errShape) (evVal, string) {
	sys := p.SSA.ImportedPackage("syscall")
	osp := p.SSA.ImportedPackage("os")
	if sys == nil || osp == nil {
		return evVal{}, "packages syscall and os are not loaded"
	}
	errnoT := sys.Pkg.Scope().Lookup("Errno")
	if errnoT == nil {
		// plan9: ErrorString
		return evVal{}, "syscall.Errno does not exist in this configuration"
	}
	opaqueT := types.NewNamed(types.NewTypeName(token.NoPos, nil, "opaqueError", nil), types.NewStruct(nil, nil), nil)
	opaque := evVal{k: evIface, t: types.NewPointer(opaqueT), inner: &evVal{k: evObject, obj: &evObj{typ: opaqueT, fields: map[string]evVal{}}}}
	errno := func(name string) (evVal, string) {
		var k constant.Value
		if name == "0" {
			k = constant.MakeInt64(0)
		} else if strings.HasPrefix(name, "#") {
			n, _ := strconv.ParseInt(name[1:], 10, 64)
			k = constant.MakeInt64(n)
		} else {
			c, _ := sys.Pkg.Scope().Lookup(name).(*types.Const)
			if c == nil {
				return evVal{}, "syscall." + name + " is not a constant in this configuration"
			}
			k = c.Val()
		}
		return evVal{k: evIface, t: errnoT.Type(), inner: &evVal{k: evConst, c: k, t: errnoT.Type()}}, ""
	}
	inner := func(n string) (evVal, string) {
		switch n {
		case "ENOENT", "EACCES", "EPERM", "EIO", "0":
			return errno(n)
		}
		return opaque, ""
	}
	switch s.Outer {
	case "nil":
		return evVal{k: evNil}, ""
	case "Errno":
		return errno(s.Errno)
	case "PathError", "LinkError", "SyscallError":
		tn := osp.Pkg.Scope().Lookup(s.Outer)
		if tn == nil {
			return evVal{}, "os." + s.Outer + " not found"
		}
		in, why := inner(s.Inner)
		if why != "" {
			return evVal{}, why
		}
		obj := &evObj{typ: tn.Type(), fields: map[string]evVal{"Err": in}}
		return evVal{k: evIface, t: types.NewPointer(tn.Type()), inner: &evVal{k: evObject, obj: obj}}, ""
	}
	return opaque, ""
}

// evalStatus walks statusFromError for the shape and returns the status code.
func (e *errEval) evalStatus(s errShape) (int64, bool) {
	fn := e.p.Func("statusFromError")
	if fn == nil {
		e.failed = "statusFromError not found"
		return 0, false
	}
	errParam := fn.Params[1]
	cur := int64(-1)
	curKind := "const"
	b := fn.Blocks[0]
	var prev *ssa.BasicBlock
	env := map[*ssa.Phi]ssa.Value{} // the joins met on the way, by the edge taken (the code kept in a local until the end)
	resolve := func(v ssa.Value) ssa.Value {
		for i := 0; i < 8; i++ {
			v = stripConv(v)
			ph, ok := v.(*ssa.Phi)
			if !ok {
				return v
			}
			nv, ok := env[ph]
			if !ok {
				return v
			}
			v = nv
		}
		return v
	}
	for steps := 0; steps < 128; steps++ {
		if prev != nil {
			for k, pb := range b.Preds {
				if pb != prev {
					continue
				}
				for _, in := range b.Instrs {
					ph, ok := in.(*ssa.Phi)
					if !ok {
						break
					}
					if k < len(ph.Edges) {
						env[ph] = resolve(ph.Edges[k])
					}
				}
			}
		}
		prev = b
		for _, in := range b.Instrs {
			st, ok := in.(*ssa.Store)
			if !ok {
				continue
			}
			fa, ok := st.Addr.(*ssa.FieldAddr)
			if !ok {
				continue
			}
			if _, n, _, _ := fieldOf(fa); n != "Code" {
				continue
			}
			val := resolve(st.Val)
			if k, ok := constInt(val); ok {
				cur, curKind = k, "const"
				continue
			}
			st = &ssa.Store{Addr: st.Addr, Val: val}
			curKind = "?"
			for _, l := range leavesOf(st.Val) {
				if l.Kind == leafCallResult && calleeName(l.Call) == "translateSyscallError" {
					curKind = "translate"
				}
			}
			if curKind == "?" && typeName(stripConv(st.Val).Type()) == "fxerr" {
				curKind = "fxerr"
			}
			if curKind == "?" {
				e.failed = "statusFromError stores a code the evaluator does not understand"
				return 0, false
			}
		}
		last := b.Instrs[len(b.Instrs)-1]
		switch x := last.(type) {
		case *ssa.Return:
			switch curKind {
			case "translate":
				v, _ := e.evalTranslate(s)
				return v, true
			case "fxerr":
				return s.Code, true
			}
			return cur, true
		case *ssa.Jump:
			b = b.Succs[0]
		case *ssa.If:
			truth, ok := e.cond(x.Cond, s, errParam)
			if !ok {
				return 0, false
			}
			if truth {
				b = b.Succs[0]
			} else {
				b = b.Succs[1]
			}
		default:
			e.failed = "statusFromError has a shape the evaluator does not understand"
			return 0, false
		}
	}
	e.failed = "statusFromError evaluation did not terminate"
	return 0, false
}

func (e *errEval) cond(v ssa.Value, s errShape, errParam *ssa.Parameter) (bool, bool) {
	switch x := v.(type) {
	case *ssa.BinOp:
		if x.X == ssa.Value(errParam) && isNilConst(x.Y) {
			if x.Op == token.EQL {
				return s.Outer == "nil", true
			}
			if x.Op == token.NEQ {
				return s.Outer != "nil", true
			}
		}
		if x.X == ssa.Value(errParam) {
			for _, l := range leavesOf(x.Y) {
				if l.Kind == leafGlobal && l.V.Name() == "EOF" {
					// identity comparison: only the bare sentinel
					if x.Op == token.EQL {
						return s.Outer == "EOF", true
					}
					return s.Outer != "EOF", true
				}
			}
		}
	case *ssa.Call:
		cc := &x.Call
		switch {
		case callIs(cc, "os.IsNotExist"):
			return s.isNotExist(), true
		case callIs(cc, "os.IsPermission"):
			return s.isPermission(), true
		case callIs(cc, "errors.Is"):
			for _, l := range leavesOf(cc.Args[1]) {
				if l.Kind == leafGlobal {
					switch l.V.Name() {
					case "EOF":
						return s.isEOFDeep(), true
					case "ErrNotExist":
						return s.isNotExist(), true
					case "ErrPermission":
						return s.isPermission(), true
					}
				}
			}
		case callIs(cc, "errors.As"):
			return s.isFxerrDeep(), true
		}
	case *ssa.Extract:
		if call, ok := x.Tuple.(*ssa.Call); ok && calleeName(&call.Call) == "translateSyscallError" && x.Index == 1 {
			_, ok := e.evalTranslate(s)
			return ok, e.failed == ""
		}
		if ta, ok := x.Tuple.(*ssa.TypeAssert); ok && x.Index == 1 && typeName(ta.AssertedType) == "fxerr" {
			return s.Outer == "fxerr", true
		}
	}
	e.failed = "statusFromError branches on a condition the evaluator does not understand: " + v.String()
	return false, false
}

// checkErrorShapes runs the shape table and reports one obligation per shape.
func checkErrorShapes(c *Ctx, rule string) {
	p := c.P
	tbl, msg := extractErrnoTable(p)
	if tbl == nil {
		c.und(rule, "translateErrno table", "?", msg)
		return
	}
	c.check(tbl["ENOENT"] == 2 && tbl["EACCES"] == 3 && tbl["EPERM"] == 3 && tbl["default"] == 4 && tbl["0"] == 0, rule, "translateErrno table", "errno_posix.go",
		"ENOENT→NO_SUCH_FILE, EACCES|EPERM→PERMISSION_DENIED, 0→OK, else FAILURE", fmt.Sprintf("translateErrno table is %v", tbl))
	// every other errno value is a plain failure: the whole range is run, bare and inside *os.PathError (ELOOP, ENOTDIR,
	// EEXIST… reported as "no such file" or "permission denied" change what the client's os.IsNotExist/IsPermission say)
	if sys := p.SSA.ImportedPackage("syscall"); sys != nil {
		val := func(name string) int64 {
			if cst, ok := sys.Pkg.Scope().Lookup(name).(*types.Const); ok {
				if k, ok := constant.Int64Val(constant.ToInt(cst.Val())); ok {
					return k
				}
			}
			return -1
		}
		enoent, eacces, eperm := val("ENOENT"), val("EACCES"), val("EPERM")
		sweep := &errEval{p: p}
		wrong, und := "", ""
		for k := int64(1); k < 256 && wrong == "" && und == ""; k++ {
			want := int64(4)
			switch k {
			case enoent:
				want = 2
			case eacces, eperm:
				want = 3
			}
			got, ok := sweep.evalTranslate(errShape{Name: fmt.Sprintf("syscall.Errno(%d)", k), Outer: "Errno", Errno: fmt.Sprintf("#%d", k)})
			if sweep.failed != "" || !ok {
				und = sweep.failed
				if und == "" {
					und = fmt.Sprintf("errno %d is not translated", k)
				}
				break
			}
			if got != want {
				wrong = fmt.Sprintf("syscall.Errno(%d) is answered with status code %d, expected %d", k, got, want)
			}
		}
		if und != "" {
			c.und(rule, "translateErrno over all errno values", "errno_posix.go", und)
		} else {
			c.check(wrong == "", rule, "translateErrno over all errno values", "errno_posix.go", "1..255: ENOENT→2, EACCES|EPERM→3, everything else→4", wrong+": an error of another kind reaches the client as not-exist or permission")
		}
	}
	ev := &errEval{p: p, errno: tbl}
	for _, s := range stdErrShapes() {
		got, ok := ev.evalStatus(s)
		if !ok || ev.failed != "" {
			c.und(rule, "status of "+s.Name, "server.go", ev.failed)
			ev.failed = ""
			continue
		}
		c.check(got == s.Want, rule, "status of "+s.Name, "server.go", fmt.Sprintf("→ code %d", got), fmt.Sprintf("%s is answered with status code %d, expected %d: its category (not-exist / permission / EOF / failure) is lost", s.Name, got, s.Want))
	}
	// the message: err.Error() for every non-nil error
	if fn := p.Func("statusFromError"); fn != nil {
		msgOK := false
		eachInstr(fn, func(in ssa.Instruction) {
			if st, ok := in.(*ssa.Store); ok {
				if fa, ok := st.Addr.(*ssa.FieldAddr); ok {
					if _, n, _, _ := fieldOf(fa); n == "msg" {
						for _, l := range leavesOf(st.Val) {
							if l.Kind == leafCallResult && l.Call.IsInvoke() && l.Call.Method.Name() == "Error" {
								msgOK = true
							}
						}
					}
				}
			}
		})
		c.check(msgOK, rule, "status message is the error text", p.Pos(fn.Pos()), "msg = err.Error()", "the status message is no longer the error's text")
	} else {
		c.missing(rule, "statusFromError")
	}
	// client side: normaliseError
	if ne := p.Func("normaliseError"); ne == nil {
		c.missing(rule, "normaliseError")
	} else {
		want := map[int64]string{1: "EOF", 2: "ErrNotExist", 3: "ErrPermission", 0: "nil"}
		got := map[int64]string{}
		for _, b := range ne.Blocks {
			iff, ok := b.Instrs[len(b.Instrs)-1].(*ssa.If)
			if !ok {
				continue
			}
			cmp, ok := iff.Cond.(*ssa.BinOp)
			if !ok || cmp.Op != token.EQL {
				continue
			}
			k, ok := constInt(cmp.Y)
			if !ok {
				continue
			}
			isCode := false
			for _, l := range leavesOf(cmp.X) {
				if l.Kind == leafFieldLoad && l.Field == "Code" {
					isCode = true
				}
			}
			if !isCode {
				continue
			}
			for _, in := range b.Succs[0].Instrs {
				if r, ok := in.(*ssa.Return); ok {
					if isNilConst(r.Results[0]) {
						got[k] = "nil"
					}
					for _, l := range leavesOf(r.Results[0]) {
						if l.Kind == leafGlobal {
							got[k] = l.V.Name()
						}
					}
				}
			}
		}
		var bad []string
		for k, w := range want {
			if got[k] != w {
				bad = append(bad, fmt.Sprintf("code %d → %q (want %s)", k, got[k], w))
			}
		}
		for k, g := range got {
			if _, ok := want[k]; !ok {
				bad = append(bad, fmt.Sprintf("code %d → %s (should stay a *StatusError)", k, g))
			}
		}
		c.check(len(bad) == 0, rule, "normaliseError table", p.Pos(ne.Pos()), "EOF/NO_SUCH_FILE/PERMISSION_DENIED/OK ↔ io.EOF/os.ErrNotExist/os.ErrPermission/nil", "client-side mapping wrong: "+strings.Join(bad, "; "))
	}
}
