package main

import (
	"fmt"
	"go/token"
	"go/types"
	"sort"
	"strings"

	"golang.org/x/tools/go/ssa"
)

// Affine terms over SSA atoms: Σ coef·atom + c. Used to compare cursor/offset/length
// expressions symbolically (same atoms up to integer conversions).

type term struct {
	coef map[string]int64
	c    int64
	// narrowing records conversions that may lose bits on the way (uint64->uint32 …)
	atoms map[string]ssa.Value
}

func newTerm() term { return term{coef: map[string]int64{}, atoms: map[string]ssa.Value{}} }

func (t term) add(o term, k int64) term {
	r := newTerm()
	for a, v := range t.coef {
		r.coef[a] = v
		r.atoms[a] = t.atoms[a]
	}
	for a, v := range o.coef {
		r.coef[a] += k * v
		r.atoms[a] = o.atoms[a]
		if r.coef[a] == 0 {
			delete(r.coef, a)
			delete(r.atoms, a)
		}
	}
	r.c = t.c + k*o.c
	return r
}

func (t term) String() string {
	var ks []string
	for a := range t.coef {
		ks = append(ks, a)
	}
	sort.Strings(ks)
	var parts []string
	for _, a := range ks {
		if t.coef[a] == 1 {
			parts = append(parts, a)
		} else {
			parts = append(parts, fmt.Sprintf("%d*%s", t.coef[a], a))
		}
	}
	if t.c != 0 || len(parts) == 0 {
		parts = append(parts, fmt.Sprintf("%d", t.c))
	}
	return strings.Join(parts, " + ")
}

func (t term) equal(o term) bool {
	if t.c != o.c || len(t.coef) != len(o.coef) {
		return false
	}
	for a, v := range t.coef {
		if o.coef[a] != v {
			return false
		}
	}
	return true
}

func (t term) isConst() (int64, bool) { return t.c, len(t.coef) == 0 }

func atomTerm(key string, v ssa.Value) term {
	t := newTerm()
	t.coef[key] = 1
	t.atoms[key] = v
	return t
}

// valKey canonicalises a (non-integer) value such as a slice so that two occurrences of
// `len(x)` on the same x get the same atom (go/ssa performs no CSE).
func valKey(v ssa.Value) string {
	switch x := v.(type) {
	case *ssa.Parameter:
		return "param:" + x.Name()
	case *ssa.FreeVar:
		if r := resolveFreeVar(x); r != nil {
			return valKey(r)
		}
		return "free:" + x.Name()
	case *ssa.Alloc:
		return "var:" + allocName(x)
	case *ssa.Phi:
		return "phi:" + x.Comment + "@" + x.Name()
	case *ssa.UnOp:
		if x.Op == token.MUL {
			switch a := x.X.(type) {
			case *ssa.Alloc:
				sts := reachingStores(x, a)
				if len(sts) == 1 && sts[0].Parent() == x.Parent() {
					return valKey(sts[0].Val)
				}
				return "var:" + allocName(a)
			case *ssa.FreeVar:
				r := resolveFreeVar(a)
				if al, ok := r.(*ssa.Alloc); ok {
					sts := storesTo(al.Parent(), al)
					if len(sts) == 1 {
						return valKey(sts[0].Val)
					}
					return "var:" + allocName(al)
				}
				return "free:" + a.Name()
			case *ssa.FieldAddr:
				root, path := accessPath(a)
				return "fld:" + valKey(root) + "." + path
			}
		}
	case *ssa.Field:
		root, path := accessPath(x)
		return "fld:" + valKey(root) + "." + path
	case *ssa.Convert:
		return valKey(x.X)
	case *ssa.ChangeType:
		return valKey(x.X)
	case *ssa.Extract:
		return fmt.Sprintf("%s#%d", valKey(x.Tuple), x.Index)
	case *ssa.Slice:
		lo, hi := "", ""
		if x.Low != nil {
			lo = affineOf(x.Low).String()
		}
		if x.High != nil {
			hi = affineOf(x.High).String()
		}
		return fmt.Sprintf("%s[%s:%s]", valKey(x.X), lo, hi)
	case *ssa.Const:
		return "const:" + x.String()
	}
	if in, ok := v.(ssa.Instruction); ok {
		return fmt.Sprintf("%s@%s", v.Name(), fnName(in.Parent()))
	}
	return v.Name()
}

func allocName(a *ssa.Alloc) string {
	if a.Comment != "" && a.Comment != "complit" {
		return a.Comment + "@" + fnName(a.Parent())
	}
	return a.Name() + "@" + fnName(a.Parent())
}

func isIntType(t types.Type) bool {
	b, ok := t.Underlying().(*types.Basic)
	return ok && b.Info()&types.IsInteger != 0
}

// affineOf computes the affine form of an integer SSA value.
func affineOf(v ssa.Value) term { return affineDepth(v, 0) }

func affineDepth(v ssa.Value, d int) term {
	if d > 12 {
		return atomTerm(valKey(v), v)
	}
	switch x := v.(type) {
	case *ssa.Const:
		if k, ok := constInt(x); ok {
			t := newTerm()
			t.c = k
			return t
		}
	case *ssa.Convert:
		if isIntType(x.Type()) && isIntType(x.X.Type()) {
			return affineDepth(x.X, d+1)
		}
	case *ssa.ChangeType:
		return affineDepth(x.X, d+1)
	case *ssa.BinOp:
		switch x.Op {
		case token.ADD:
			return affineDepth(x.X, d+1).add(affineDepth(x.Y, d+1), 1)
		case token.SUB:
			return affineDepth(x.X, d+1).add(affineDepth(x.Y, d+1), -1)
		case token.MUL:
			if k, ok := constInt(x.Y); ok {
				return newTerm().add(affineDepth(x.X, d+1), k)
			}
			if k, ok := constInt(x.X); ok {
				return newTerm().add(affineDepth(x.Y, d+1), k)
			}
		}
	case *ssa.UnOp:
		if x.Op == token.SUB {
			return newTerm().add(affineDepth(x.X, d+1), -1)
		}
		if x.Op == token.MUL {
			switch a := x.X.(type) {
			case *ssa.Alloc:
				sts := reachingStores(x, a)
				if len(sts) == 1 && sts[0].Parent() == x.Parent() {
					return affineDepth(sts[0].Val, d+1)
				}
			case *ssa.FreeVar:
				r := resolveFreeVar(a)
				if al, ok := r.(*ssa.Alloc); ok {
					sts := storesTo(al.Parent(), al)
					if len(sts) == 1 {
						return affineDepth(sts[0].Val, d+1)
					}
				}
			}
		}
	case *ssa.Call:
		if b := builtinName(&x.Call); b == "len" || b == "cap" {
			// len(x[l:h]) is h - l
			if sl, ok := x.Call.Args[0].(*ssa.Slice); ok && b == "len" && sl.High != nil {
				t := affineDepth(sl.High, d+1)
				if sl.Low != nil {
					t = t.add(affineDepth(sl.Low, d+1), -1)
				}
				return t
			}
			// len(x[l:]) is len(x) - l (x a slice or a string: the bound is its length)
			if sl, ok := x.Call.Args[0].(*ssa.Slice); ok && b == "len" && sl.High == nil && sl.Low != nil {
				if _, isPtr := sl.X.Type().Underlying().(*types.Pointer); !isPtr {
					t := atomTerm("len("+valKey(sl.X)+")", x)
					return t.add(affineDepth(sl.Low, d+1), -1)
				}
			}
			return atomTerm(b+"("+valKey(x.Call.Args[0])+")", x)
		}
	}
	return atomTerm(valKey(v), v)
}

// phiStep: for a loop-carried phi φ = [init, next], returns affine(next) − φ for each
// back edge (edges whose predecessor is inside the loop), and the init terms.
func phiSteps(phi *ssa.Phi) (inits, steps []term) {
	l := innermostLoop(loopsOf(phi.Parent()), phi.Block())
	self := atomTerm(valKey(phi), phi)
	for i, e := range phi.Edges {
		pred := phi.Block().Preds[i]
		if l != nil && l.head == phi.Block() && l.blocks[pred] {
			steps = append(steps, affineOf(e).add(self, -1))
		} else {
			inits = append(inits, affineOf(e))
		}
	}
	return
}

// litField returns the value stored into field `name` of a composite literal allocation
// (the initialising store: the one in the allocation's own block, else any store).
func litField(a *ssa.Alloc, name string) ssa.Value {
	var out, init ssa.Value
	for _, r := range *a.Referrers() {
		if fa, ok := r.(*ssa.FieldAddr); ok {
			if _, n, _, _ := fieldOf(fa); n == name {
				for _, rr := range *fa.Referrers() {
					if st, ok := rr.(*ssa.Store); ok {
						out = st.Val
						if st.Block() == a.Block() && init == nil {
							init = st.Val
						}
					}
				}
			}
		}
	}
	if init != nil {
		return init
	}
	return out
}

// literalsOf finds composite literals (heap or stack allocations) of the named struct type in fn.
func literalsOf(fn *ssa.Function, typ string) []*ssa.Alloc {
	var out []*ssa.Alloc
	eachInstr(fn, func(in ssa.Instruction) {
		if a, ok := in.(*ssa.Alloc); ok {
			if n := namedOf(a.Type()); n != nil && n.Obj().Name() == typ {
				if _, isStruct := derefType(a.Type()).Underlying().(*types.Struct); isStruct {
					out = append(out, a)
				}
			}
		}
	})
	return out
}

// structFieldValue: v is a struct value (the load of a local composite literal, or a parameter passed on); the value
// stored into its field `name` where it was built, nil when that cannot be told.
func structFieldValue(v ssa.Value, name string) ssa.Value {
	switch x := v.(type) {
	case *ssa.UnOp:
		if x.Op == token.MUL {
			if a, ok := x.X.(*ssa.Alloc); ok {
				return litField(a, name)
			}
		}
	case *ssa.Parameter:
		// passed straight on: the field of the caller's parameter
		st, _ := x.Type().Underlying().(*types.Struct)
		if st == nil {
			return nil
		}
		for _, r := range *x.Referrers() {
			if f, ok := r.(*ssa.Field); ok && st.Field(f.Field).Name() == name {
				return f
			}
		}
	}
	return nil
}

// paramBehind: v is a parameter, or the local cell a by-value struct parameter is spilled to (go/ssa stores such a
// parameter into an Alloc when its fields are selected).
func paramBehind(v ssa.Value) *ssa.Parameter {
	switch x := v.(type) {
	case *ssa.Parameter:
		return x
	case *ssa.UnOp:
		if x.Op == token.MUL {
			return paramBehind(x.X)
		}
	case *ssa.Alloc:
		var prm *ssa.Parameter
		n := 0
		for _, r := range *x.Referrers() {
			if st, ok := r.(*ssa.Store); ok && st.Addr == x {
				n++
				prm, _ = st.Val.(*ssa.Parameter)
			}
		}
		if n == 1 {
			return prm
		}
	}
	return nil
}

// structFieldLeaves: the values the field `name` of struct value v can hold, following v through phis, copies through
// local variables and loads of composite literals (a literal that does not set the field contributes nil = the zero
// value).  ok is false when v cannot be followed.
func structFieldLeaves(v ssa.Value, name string, depth int) (out []ssa.Value, ok bool) {
	if depth > 6 {
		return nil, false
	}
	switch x := v.(type) {
	case *ssa.Phi:
		for _, e := range x.Edges {
			if e == ssa.Value(x) {
				continue
			}
			o, ok := structFieldLeaves(e, name, depth+1)
			if !ok {
				return nil, false
			}
			out = append(out, o...)
		}
		return out, true
	case *ssa.UnOp:
		if x.Op != token.MUL {
			return nil, false
		}
		a, isAlloc := x.X.(*ssa.Alloc)
		if !isAlloc {
			return nil, false
		}
		// whole-struct stores into the cell (a variable that receives copies), else a literal built in place
		whole := false
		for _, r := range *a.Referrers() {
			if st, isStore := r.(*ssa.Store); isStore && st.Addr == ssa.Value(a) {
				whole = true
				o, ok := structFieldLeaves(st.Val, name, depth+1)
				if !ok {
					return nil, false
				}
				out = append(out, o...)
			}
		}
		if whole {
			return out, true
		}
		return []ssa.Value{litField(a, name)}, true
	case *ssa.Const:
		return []ssa.Value{nil}, true
	}
	return nil, false
}

// byField re-keys the atoms of t that are loads of a struct field by the field itself (owner type and
// name), dropping the access path that leads to the struct: `rs.pktMgr.packetCount` in one function and
// `s.packetCount` in a method of the packet manager are then the same atom.  Only for comparisons where the
// struct is known to exist once per session (the packet manager's counter).
func (t term) byField() term {
	r := newTerm()
	r.c = t.c
	for a, k := range t.coef {
		key := a
		v := t.atoms[a]
		for {
			switch x := v.(type) {
			case *ssa.Convert:
				v = x.X
				continue
			case *ssa.ChangeType:
				v = x.X
				continue
			}
			break
		}
		switch x := v.(type) {
		case *ssa.UnOp:
			if fa, ok := x.X.(*ssa.FieldAddr); ok && x.Op == token.MUL {
				owner, n, _, _ := fieldOf(fa)
				key = "field:" + typeName(owner) + "." + n
			}
		case *ssa.Field:
			st, _ := x.X.Type().Underlying().(*types.Struct)
			if st != nil {
				key = "field:" + typeName(x.X.Type()) + "." + st.Field(x.Field).Name()
			}
		}
		r.coef[key] += k
		r.atoms[key] = t.atoms[a]
	}
	return r
}
