package main

import (
	"fmt"
	"go/ast"
	"go/constant"
	"go/token"
	"sort"
	"strings"

	"golang.org/x/tools/go/ssa"
)

func init() {
	register("C19", &propSpec{
		level:       "other",
		explanation: "Negotiation decided structurally: a Client is returned only on paths where recvVersion returned nil, and recvVersion returns nil only after the type==VERSION and version==3 tests on checked decodes, with the writer closed on every failure path; Client.ext is written only from the decoded VERSION packet and fsync is sent only under HasExtension; both servers answer INIT with version 3 and the configured extension list; the list is replaced only by one store in SetSFTPExtensions that no error return follows, from a freshly built slice whose elements come from the supported table; advertised names ⊆ names decoded by the extended-packet switch, client encoder names ⊆ the same set; an unknown extended name keeps the session open and is answered op-unsupported by both servers.",
		quickExtra:  []BuildConfig{cfg386},
		run:         runC19,
		assumptions: []string{"third-party peers are out of scope"},
	})
}

// stringTable extracts the string constants of the first field of each element of a
// package-level composite literal variable.
func stringTable(p *Program, varName string) ([]string, bool) {
	pk := p.byPath[pkgSftp]
	for _, f := range pk.Syntax {
		for _, d := range f.Decls {
			gd, ok := d.(*ast.GenDecl)
			if !ok {
				continue
			}
			for _, sp := range gd.Specs {
				vs, ok := sp.(*ast.ValueSpec)
				if !ok {
					continue
				}
				for i, n := range vs.Names {
					if n.Name != varName || i >= len(vs.Values) {
						continue
					}
					cl, ok := vs.Values[i].(*ast.CompositeLit)
					if !ok {
						return nil, false
					}
					var out []string
					for _, el := range cl.Elts {
						ecl, ok := el.(*ast.CompositeLit)
						if !ok || len(ecl.Elts) == 0 {
							return nil, false
						}
						first := ecl.Elts[0]
						if kv, ok := first.(*ast.KeyValueExpr); ok {
							first = kv.Value
						}
						tv := pk.TypesInfo.Types[first]
						if tv.Value == nil || tv.Value.Kind() != constant.String {
							return nil, false
						}
						out = append(out, constant.StringVal(tv.Value))
					}
					return out, true
				}
			}
		}
	}
	return nil, false
}

func runC19(c *Ctx) {
	p := c.P
	pos := func(in ssa.Instruction) string { return p.Pos(in.Pos()) }
	ncp := p.Func("newClientPipe")
	rv := p.Func("(*Client).recvVersion")
	if ncp == nil || rv == nil {
		c.missing("R1", "newClientPipe / recvVersion")
		return
	}
	c.looked("newClientPipe")
	c.looked("(*Client).recvVersion")

	// ---------- R1 ----------
	{
		calls := callsWhere(ncp, func(cc *ssa.CallCommon) bool { return cc.StaticCallee() == rv })
		if len(calls) != 1 {
			c.bad("R1", "newClientPipe calls recvVersion", p.Pos(ncp.Pos()), fmt.Sprintf("%d calls to recvVersion", len(calls)))
		} else {
			call := calls[0].(*ssa.Call)
			var okEdge *ssa.BasicBlock
			var failEdge *ssa.BasicBlock
			for _, nt := range nilTests(call) {
				failEdge, okEdge = nt.nonNil, nt.isNil
			}
			tests := nilTests(call)
			for _, r := range findInstrs(ncp, isReturn) {
				ret := r.(*ssa.Return)
				if isNilConst(ret.Results[0]) {
					continue
				}
				// on paths: no way to this return around the version exchange, and none from the side of its test on
				// which it failed (what the path knows — the error it carries is not nil — is kept, so the shape after
				// the handshake has been put into a helper and inlined back decides the same way)
				isR := func(in ssa.Instruction) bool { return in == r }
				good := okEdge != nil && len(tests) > 0 && !reachAvoiding(ncp, nil, isR, func(in ssa.Instruction) bool { return in == ssa.Instruction(call) })
				for _, nt := range tests {
					if reachFromNilSide(nt, true, isR, nil) {
						good = false
					}
				}
				c.check(good, "R1", "client returned only after a good handshake", pos(r), "reached only through recvVersion() == nil", "a Client can be returned although the version exchange failed or was skipped")
			}
			if failEdge != nil {
				closes := !reachFromBlock(failEdge, isReturn, func(in ssa.Instruction) bool {
					cc := callOf(in)
					return cc != nil && cc.IsInvoke() && cc.Method.Name() == "Close"
				})
				c.check(closes, "R1", "failed handshake closes the writer", p.Pos(failEdge.Instrs[0].Pos()), "wr.Close() before returning the error", "a failed handshake leaves the transport open")
			}
		}
		// recvVersion: nil return only after both tests
		var typIf, verIf *ssa.If
		verChecked := false
		for _, b := range rv.Blocks {
			iff, ok := b.Instrs[len(b.Instrs)-1].(*ssa.If)
			if !ok {
				continue
			}
			cmp, ok := iff.Cond.(*ssa.BinOp)
			if !ok || cmp.Op != token.NEQ {
				continue
			}
			k, isK := constInt(cmp.Y)
			if !isK {
				continue
			}
			for _, l := range leavesOf(cmp.X) {
				if l.Kind == leafCallResult && calleeName(l.Call) == "recvPacket" && l.Idx == 0 && k == 2 {
					typIf = iff
				}
				if l.Kind == leafCallResult && calleeName(l.Call) == "unmarshalUint32Safe" && l.Idx == 0 && k == 3 {
					verIf = iff
					verChecked = true
				}
				if l.Kind == leafCallResult && calleeName(l.Call) == "unmarshalUint32" && k == 3 {
					verIf = iff
				}
			}
		}
		// a return that may deliver nil is reached only through the "is a VERSION packet" and the "version is 3" edges
		// (path form: holds across the join that inlined or restructured code returns through)
		mayReturnNil := func(in ssa.Instruction) bool {
			r, ok := in.(*ssa.Return)
			return ok && isReturn(in) && len(r.Results) == 1 && mayBeNilHere(r.Results[0])
		}
		{
			okT := typIf != nil && onlyViaEdge(rv, typIf.Block(), 1, mayReturnNil)
			okV := verIf != nil && onlyViaEdge(rv, verIf.Block(), 1, mayReturnNil)
			c.check(okT, "R1", "version reply must be a VERSION packet", p.Pos(rv.Pos()), "nil only after typ == SSH_FXP_VERSION", "recvVersion can succeed on a packet that is not SSH_FXP_VERSION")
			c.check(okV, "R1", "version must be 3", p.Pos(rv.Pos()), "nil only after version == 3", "recvVersion can succeed with a protocol version other than 3")
		}
		c.check(verChecked, "R1", "version decoded with the checked primitive", p.Pos(rv.Pos()), "unmarshalUint32Safe", "the version number is decoded without a length check")
		// the true edges return errors
		for name, iff := range map[string]*ssa.If{"type": typIf, "version": verIf} {
			if iff == nil {
				continue
			}
			bad := false
			for _, in := range iff.Block().Succs[0].Instrs {
				if r, ok := in.(*ssa.Return); ok && isNilConst(r.Results[0]) {
					bad = true
				}
			}
			c.check(!bad, "R1", "wrong "+name+" is an error", pos(iff), "returns an error", "the mismatch branch returns nil")
		}
	}

	// ---------- R2 ----------
	{
		n := 0
		for _, a := range p.accessesOf("Client", "ext") {
			if isFreshRoot(a.Root) {
				continue
			}
			if a.Write {
				n++
				c.check(a.Fn == rv, "R2", "write of Client.ext in "+fnName(a.Fn), pos(a.In), "extensions recorded only from the VERSION packet", "the client's extension table is modified outside recvVersion")
			}
		}
		// the values written are the decoded pair
		eachInstr(rv, func(in ssa.Instruction) {
			mu, ok := in.(*ssa.MapUpdate)
			if !ok {
				return
			}
			okK, okV := false, false
			for _, l := range leavesOf(mu.Key) {
				if l.Kind == leafFieldLoad && l.Field == "Name" {
					okK = true
				}
			}
			for _, l := range leavesOf(mu.Value) {
				if l.Kind == leafFieldLoad && l.Field == "Data" {
					okV = true
				}
			}
			if !okK || !okV {
				// the pair decoded in place: the key is the first string decoded, the value the second, and the second
				// decode continues where the first stopped
				var kc, vc ssa.Instruction
				for _, l := range leavesOf(mu.Key) {
					if l.Kind == leafCallResult && l.Idx == 0 && calleeName(l.Call) == "unmarshalStringSafe" {
						kc = l.CallIn
					}
				}
				for _, l := range leavesOf(mu.Value) {
					if l.Kind == leafCallResult && l.Idx == 0 && calleeName(l.Call) == "unmarshalStringSafe" {
						vc = l.CallIn
					}
				}
				if kc != nil && vc != nil && kc != vc && dominates(kc, vc) {
					for _, l := range leavesOf(callOf(vc).Args[0]) {
						if l.Kind == leafCallResult && l.CallIn == kc && l.Idx == 1 {
							okK, okV = true, true
						}
					}
				}
			}
			c.check(okK && okV, "R2", "ext[name] = data of the decoded pair", pos(in), "c.ext[ext.Name] = ext.Data", "the extension table is filled with something other than the advertised name/data pair")
		})
		if n == 0 {
			// the table handed to recvVersion as an argument: an update of a map parameter, where every caller passes
			// the Client's ext field in that position
			eachInstr(rv, func(in ssa.Instruction) {
				mu, ok := in.(*ssa.MapUpdate)
				if !ok {
					return
				}
				prm, ok := mu.Map.(*ssa.Parameter)
				if !ok {
					return
				}
				idx := -1
				for i, q := range rv.Params {
					if q == prm {
						idx = i
					}
				}
				sites := p.callersOfStatic(rv)
				all := idx >= 0 && len(sites) > 0
				for _, site := range sites {
					args := callOf(site).Args
					isExt := false
					if idx < len(args) {
						for _, l := range leavesOf(args[idx]) {
							if l.Kind == leafFieldLoad && l.Field == "ext" {
								isExt = true
							}
						}
					}
					if !isExt {
						all = false
					}
				}
				if all {
					n++
				}
			})
		}
		c.check(n >= 1, "R2", "extensions are recorded", p.Pos(rv.Pos()), "one update site", "recvVersion no longer records the advertised extensions")
		if hx := p.Func("(*Client).HasExtension"); hx == nil {
			c.missing("R2", "(*Client).HasExtension")
		} else {
			lk := false
			eachInstr(hx, func(in ssa.Instruction) {
				if l, ok := in.(*ssa.Lookup); ok && l.CommaOk {
					if _, path := accessPath(l.X); path == "ext" {
						if pr, ok := l.Index.(*ssa.Parameter); ok && pr == hx.Params[1] {
							lk = true
						}
					}
				}
			})
			c.check(lk, "R2", "HasExtension reports the table", p.Pos(hx.Pos()), "c.ext[name]", "HasExtension does not report the recorded table entry")
		}
		if sy := p.Func("(*File).Sync"); sy == nil {
			c.missing("R2", "(*File).Sync")
		} else {
			sends := callsWhere(sy, func(cc *ssa.CallCommon) bool { return calleeName(cc) == "sendPacket" })
			hxs := callsWhere(sy, func(cc *ssa.CallCommon) bool { return calleeName(cc) == "HasExtension" })
			good := len(sends) == 1 && len(hxs) == 1 && dominates(hxs[0], sends[0])
			if good {
				// the send lies on the edge where ok && data == "1"
				good = false
				for _, b := range sy.Blocks {
					iff, ok := b.Instrs[len(b.Instrs)-1].(*ssa.If)
					if !ok {
						continue
					}
					if cmp, ok := iff.Cond.(*ssa.BinOp); ok && cmp.Op == token.NEQ {
						if s, ok := constString(cmp.Y); ok && s == "1" && b.Succs[1].Dominates(sends[0].Block()) && edgeOnly(b, b.Succs[1]) {
							good = true
						}
					}
				}
				// … and where ok is true: the extension was advertised at all
				okSide := false
				for _, r := range *hxs[0].(*ssa.Call).Referrers() {
					ex, isEx := r.(*ssa.Extract)
					if !isEx || ex.Index != 1 || ex.Referrers() == nil {
						continue
					}
					for _, rr := range *ex.Referrers() {
						var iff *ssa.If
						neg := false
						switch x := rr.(type) {
						case *ssa.If:
							iff = x
						case *ssa.UnOp:
							if x.Op == token.NOT && x.Referrers() != nil {
								for _, r3 := range *x.Referrers() {
									if i2, ok := r3.(*ssa.If); ok {
										iff, neg = i2, true
									}
								}
							}
						}
						if iff == nil {
							continue
						}
						side := iff.Block().Succs[0]
						if neg {
							side = iff.Block().Succs[1]
						}
						if edgeOnly(iff.Block(), side) && (side == sends[0].Block() || side.Dominates(sends[0].Block())) {
							okSide = true
						}
					}
				}
				good = good && okSide
			}
			c.check(good, "R2", "fsync only when advertised", p.Pos(sy.Pos()), "sent only under HasExtension(fsync) == \"1\"", "Sync sends fsync@openssh.com without the server having advertised it")
		}
	}

	// ---------- R3 ----------
	for _, name := range []string{"handlePacket", "(*RequestServer).packetWorker"} {
		fn := p.Func(name)
		if fn == nil {
			c.missing("R3", name)
			continue
		}
		lits := literalsOf(fn, "sshFxVersionPacket")
		c.check(len(lits) == 1, "R3", name+" answers INIT", p.Pos(fn.Pos()), "one VERSION literal", fmt.Sprintf("%d VERSION literals", len(lits)))
		for _, a := range lits {
			v, _ := constInt(litField(a, "Version"))
			extOK := false
			if e := litField(a, "Extensions"); e != nil {
				for _, l := range leavesOf(e) {
					if l.Kind == leafGlobal && l.V.Name() == "sftpExtensions" {
						extOK = true
					}
				}
			}
			c.check(v == 3, "R3", name+" advertises version 3", pos(a), "Version: 3", fmt.Sprintf("the server advertises version %d", v))
			c.check(extOK, "R3", name+" advertises the configured extensions", pos(a), "Extensions: sftpExtensions", "the server does not advertise the configured extension list")
		}
	}

	// ---------- R4 ----------
	{
		set := p.Func("SetSFTPExtensions")
		lookup := p.Func("getSupportedExtensionByName")
		if set == nil || lookup == nil {
			c.missing("R4", "SetSFTPExtensions / getSupportedExtensionByName")
		} else {
			c.looked("SetSFTPExtensions")
			for _, gname := range []string{"sftpExtensions", "supportedSFTPExtensions"} {
				for _, fn := range p.LibFuncs() {
					eachInstr(fn, func(in ssa.Instruction) {
						st, ok := in.(*ssa.Store)
						if !ok {
							return
						}
						g, ok := st.Addr.(*ssa.Global)
						if !ok || g.Name() != gname {
							return
						}
						if fn.Name() == "init" {
							return
						}
						if gname == "supportedSFTPExtensions" {
							c.bad("R4", "write of supportedSFTPExtensions in "+fnName(fn), pos(in), "the table of supported extensions is modified at run time")
							return
						}
						if fn != set {
							c.bad("R4", "write of sftpExtensions in "+fnName(fn), pos(in), "the advertised list is written outside SetSFTPExtensions")
							return
						}
						// no error return after the store; not in the loop
						errAfter := reachAvoiding(fn, in, func(x ssa.Instruction) bool {
							r, ok := x.(*ssa.Return)
							return ok && !isNilConst(r.Results[0])
						}, nil)
						c.check(!errAfter && !inLoop(in), "R4", "all-or-nothing swap", pos(in), "the list is replaced once, after validation, with no error return afterwards", "the advertised list is replaced before validation finished: an invalid request changes the configuration")
						// … and no name that failed validation lets the swap happen: from the failing side of every test of the
						// lookup's error no path reaches the store (a `continue` past the bad name, with only the last
						// iteration's error looked at after the loop, swaps the list although the request was invalid)
						store := in
						eachInstr(fn, func(x ssa.Instruction) {
							call, ok := x.(*ssa.Call)
							if !ok || calleeName(&call.Call) != "getSupportedExtensionByName" {
								return
							}
							for _, r := range *call.Referrers() {
								ex, ok := r.(*ssa.Extract)
								if !ok || ex.Index != 1 {
									continue
								}
								tests := nilTests(ex)
								if len(tests) == 0 {
									// the error goes into a variable tested elsewhere: follow it through the joins
									for _, r2 := range *ex.Referrers() {
										if ph, ok := r2.(*ssa.Phi); ok {
											tests = append(tests, nilTests(ph)...)
										}
									}
								}
								reaches := len(tests) == 0
								for _, nt := range tests {
									if reachFromNilSide(nt, true, func(y ssa.Instruction) bool { return y == store }, nil) {
										reaches = true
									}
								}
								c.check(!reaches, "R4", "an invalid name stops the swap", pos(call), "no path from a failed lookup to the replacement of the list", "after a name failed validation the advertised list can still be replaced (the error is only remembered, and overwritten by the next name's): an invalid request changes the configuration")
							}
						})
						// provenance of the new list: fresh base + validated elements
						fresh, validated := true, true
						var visit func(v ssa.Value, depth int)
						seen := map[ssa.Value]bool{}
						visit = func(v ssa.Value, depth int) {
							if v == nil || seen[v] || depth > 10 {
								return
							}
							seen[v] = true
							switch x := v.(type) {
							case *ssa.Phi:
								for _, e := range x.Edges {
									visit(e, depth+1)
								}
							case *ssa.Call:
								if builtinName(&x.Call) == "append" {
									visit(x.Call.Args[0], depth+1)
									// appended elements
									for _, l := range leavesOfIface(x.Call.Args[1]) {
										okEl := false
										if s, ok := l.(*ssa.Slice); ok {
											if a, ok := s.X.(*ssa.Alloc); ok {
												for _, r := range *a.Referrers() {
													if ia, ok := r.(*ssa.IndexAddr); ok {
														for _, rr := range *ia.Referrers() {
															if st2, ok := rr.(*ssa.Store); ok {
																for _, lf := range leavesOf(st2.Val) {
																	if lf.Kind == leafCallResult && lf.Call.StaticCallee() == lookup && lf.Idx == 0 {
																		okEl = true
																	}
																}
															}
														}
													}
												}
											}
										}
										if !okEl {
											validated = false
										}
									}
									return
								}
								fresh = false
							case *ssa.Slice:
								// []T{} is a slice of a fresh array; a reslice of anything else aliases it
								if a, ok := x.X.(*ssa.Alloc); ok && a.Heap {
									return
								}
								fresh = false
							case *ssa.Const:
								// nil slice
							case *ssa.MakeSlice:
							default:
								fresh = false
							}
						}
						visit(st.Val, 0)
						c.check(fresh, "R4", "new list is built in a fresh slice", pos(in), "base is a new empty slice", "the new list is built in storage that aliases the live or the supported list: validation writes into the advertised table before it has finished")
						c.check(validated, "R4", "every element comes from the supported table", pos(in), "elements are results of getSupportedExtensionByName", "an element of the new list does not come from getSupportedExtensionByName")
					})
				}
			}
			// the lookup returns only table elements
			okLk := false
			eachInstr(lookup, func(in ssa.Instruction) {
				if r, ok := in.(*ssa.Return); ok && isNilConst(r.Results[1]) {
					for _, l := range leavesOf(r.Results[0]) {
						_ = l
					}
					// value comes from ranging supportedSFTPExtensions
					for _, l := range leavesOfIface(r.Results[0]) {
						if u, ok := l.(*ssa.UnOp); ok {
							if ia, ok := u.X.(*ssa.IndexAddr); ok {
								for _, lf := range leavesOf(ia.X) {
									if lf.Kind == leafGlobal && lf.V.Name() == "supportedSFTPExtensions" {
										okLk = true
									}
								}
							}
						}
					}
				}
			})
			c.check(okLk, "R4", "lookup returns table elements", p.Pos(lookup.Pos()), "success returns an element of supportedSFTPExtensions", "getSupportedExtensionByName can succeed with something that is not in the supported table")
		}
	}

	// ---------- R5 ----------
	{
		advertised, ok := stringTable(p, "supportedSFTPExtensions")
		if !ok || len(advertised) == 0 {
			c.und("R5", "supported extension table", "?", "cannot extract the names from supportedSFTPExtensions")
		}
		ub := p.Func("(*sshFxpExtendedPacket).UnmarshalBinary")
		served := map[string]bool{}
		if ub == nil {
			c.missing("R5", "(*sshFxpExtendedPacket).UnmarshalBinary")
		} else {
			for _, b := range ub.Blocks {
				iff, ok := b.Instrs[len(b.Instrs)-1].(*ssa.If)
				if !ok {
					continue
				}
				cmp, ok := iff.Cond.(*ssa.BinOp)
				if !ok || cmp.Op != token.EQL {
					continue
				}
				s, ok := constString(cmp.Y)
				if !ok {
					continue
				}
				// the true edge stores a SpecificPacket with a respond method
				stores := false
				for _, in := range b.Succs[0].Instrs {
					if st, ok := in.(*ssa.Store); ok {
						if fa, ok := st.Addr.(*ssa.FieldAddr); ok {
							if _, n, _, _ := fieldOf(fa); n == "SpecificPacket" {
								stores = true
							}
						}
					}
				}
				if stores {
					served[s] = true
				}
			}
			for name := range p.extendedDecodeTable() {
				served[name] = true
			}
			// the default arm yields errUnknownExtendedPacket
			unk := false
			eachInstr(ub, func(in ssa.Instruction) {
				if cc := callOf(in); cc != nil && callIs(cc, "fmt.Errorf") {
					eachInstr(ub, func(x ssa.Instruction) {
						if u, ok := x.(*ssa.UnOp); ok {
							if g, ok := u.X.(*ssa.Global); ok && g.Name() == "errUnknownExtendedPacket" {
								unk = true
							}
						}
					})
				}
			})
			c.check(unk, "R5", "unknown name yields errUnknownExtendedPacket", p.Pos(ub.Pos()), "default arm wraps the sentinel", "an unknown extension name is not reported with errUnknownExtendedPacket")
		}
		for _, a := range advertised {
			c.check(served[a], "R5", "advertised extension is served: "+a, "sftp.go", "decoded by the extended-packet switch", "the server advertises "+a+" but the extended-packet switch does not decode it: the request would be answered 'unsupported'")
		}
		// client encoder names
		var clientNames []string
		for _, fn := range p.LibFuncs() {
			if fn.Name() != "MarshalBinary" || outermost(fn).Package() != p.Sftp {
				continue
			}
			isExt := false
			eachInstr(fn, func(in ssa.Instruction) {
				if cc := callOf(in); cc != nil && builtinName(cc) == "append" && len(cc.Args) == 2 {
					for _, l := range leavesOfIface(cc.Args[1]) {
						if s, ok := l.(*ssa.Slice); ok {
							if a, ok := s.X.(*ssa.Alloc); ok {
								for _, r := range *a.Referrers() {
									if ia, ok := r.(*ssa.IndexAddr); ok {
										for _, rr := range *ia.Referrers() {
											if st, ok := rr.(*ssa.Store); ok {
												if k, ok := constInt(st.Val); ok && k == 200 {
													isExt = true
												}
											}
										}
									}
								}
							}
						}
					}
				}
			})
			if !isExt {
				continue
			}
			eachInstr(fn, func(in ssa.Instruction) {
				if cc := callOf(in); cc != nil && calleeName(cc) == "marshalString" {
					if s, ok := constString(cc.Args[1]); ok && strings.Contains(s, "@") {
						clientNames = append(clientNames, s)
					}
				}
			})
		}
		sort.Strings(clientNames)
		for _, n := range clientNames {
			c.check(served[n] || n == "fsync@openssh.com", "R5", "client extension "+n, "packet.go", "name is one the servers decode (fsync is guarded by HasExtension)", "the client encodes "+n+", which no server case decodes")
		}
		c.check(len(clientNames) >= 4, "R5", "client extension encoders", "?", fmt.Sprintf("%d encoders", len(clientNames)), fmt.Sprintf("only %d client extension encoders found", len(clientNames)))

		// unknown extended name keeps the session open in both receive loops
		sentinel := func(v ssa.Value) bool {
			for _, l := range leavesOf(v) {
				if l.Kind == leafGlobal && l.V.Name() == "errUnknownExtendedPacket" {
					return true
				}
			}
			return false
		}
		for _, name := range []string{"(*Server).Serve", "(*RequestServer).serveLoop"} {
			fn := p.Func(name)
			if fn == nil {
				c.missing("R5", name)
				continue
			}
			var isCall *ssa.Call
			eachInstr(fn, func(in ssa.Instruction) {
				if call, ok := in.(*ssa.Call); ok && callIs(&call.Call, "errors.Is") {
					isCall = call
				}
			})
			if isCall == nil {
				c.bad("R5", name+" recognises unknown extensions", p.Pos(fn.Pos()), "the receive loop no longer distinguishes unknown extended requests from malformed packets: they end the session")
				continue
			}
			c.check(sentinel(isCall.Call.Args[1]) && !sentinel(isCall.Call.Args[0]), "R5", name+" errors.Is(err, sentinel)", pos(isCall), "the decoded error is tested against the sentinel", "errors.Is is called with swapped arguments: the wrapped sentinel is never recognised and an unknown extension closes the connection")
			// on the true edge: no Close, loop continues to the dispatch
			var trueEdge *ssa.BasicBlock
			for _, r := range *isCall.Referrers() {
				if iff, ok := r.(*ssa.If); ok {
					trueEdge = iff.Block().Succs[0]
				}
				if u, ok := r.(*ssa.UnOp); ok && u.Op == token.NOT {
					for _, rr := range *u.Referrers() {
						if iff, ok := rr.(*ssa.If); ok {
							trueEdge = iff.Block().Succs[1]
						}
					}
				}
			}
			if trueEdge == nil {
				c.und("R5", name+" unknown-extension branch", pos(isCall), "cannot find the branch on errors.Is")
				continue
			}
			closesOrLeaves := reachFromBlock(trueEdge, func(in ssa.Instruction) bool {
				if isReturn(in) {
					return true
				}
				cc := callOf(in)
				return cc != nil && calleeName(cc) == "Close"
			}, func(in ssa.Instruction) bool { _, ok := in.(*ssa.Send); return ok })
			c.check(!closesOrLeaves, "R5", name+" unknown extension keeps the session", p.Pos(trueEdge.Instrs[0].Pos()), "the packet is dispatched (and answered op-unsupported); the connection stays open", "an unknown extended request closes the connection or ends Serve")
		}
		// both servers answer op-unsupported
		opUnsup := func(fn *ssa.Function) bool {
			found := false
			eachInstr(fn, func(in ssa.Instruction) {
				if cc := callOf(in); cc != nil && calleeName(cc) == "statusFromError" {
					if k, ok := constInt(cc.Args[1]); ok && k == 8 && typeName(stripConv(cc.Args[1]).Type()) == "fxerr" {
						found = true
					}
				}
			})
			return found
		}
		for _, name := range []string{"handlePacket", "(*RequestServer).packetWorker"} {
			if fn := p.Func(name); fn != nil {
				c.check(opUnsup(fn), "R5", name+" answers op-unsupported", p.Pos(fn.Pos()), "statusFromError(id, ErrSSHFxOpUnsupported)", "the server no longer answers unknown requests with SSH_FX_OP_UNSUPPORTED")
			}
		}
	}
	// R6: on the os-backed server the read-only gate runs before handlePacket; an unknown extension must pass it
	checkExtendedReadonly(c, "C19")
	// R7: what is served is what is advertised
	checkDecodedOnlyIfConfigured(c, "R7")
	checkFailedConstructionReleasesSession(c, "R8")
	// R9 (shared with C07.R16): an unknown extended request keeps the session — nobody dereferences its nil specific packet
	checkSpecificPacketGuarded(c, "R9")
	checkHandshakeDecodersTotal(c, "R10")
	// R11 (shared with C02.R2): an advertised extension is served only if its reply reaches the caller — under the request's id
	c.withOnly("R2", "R11", func() { runC02(c) })
	checkAdvertisedDataMatchesOpenSSH(c, "R12")
	checkUnknownExtensionKeepsTheLoop(c, "R13")
	// R14 (shared with C06.R9): the extension pairs a decoder collects are distinct objects (not n pointers to one variable)
	checkFreshElements(c, "R14")
	// R15 (shared with C05.R1): an advertised extension is served by the file-system call it stands for
	// R16 (shared with C06.R1): the VERSION and INIT packets carry (name, data) pairs — what HasExtension reports
	c.withOnlyKeys("R1", "R16", []string{"sshFxVersionPacket", "sshFxInitPacket"}, func() { runC06(c) })
	// R17 (= C08.O14): the extension list of INIT/VERSION is decoded by a loop that ends on the decoder's error
	c.withOnlyKeys("Z14", "R17", []string{"recvVersion", "sshFxInitPacket", "sshFxVersionPacket"}, func() { runC20(c) })
	// R18 (= C08.O3/O4): a VERSION cut short is an error, not a shorter VERSION
	c.withRule("R18", func() { checkFrameLimits(c, newZWorld(c.P)) })
	// R19/R20 (= C09.R1/R5 for the extended requests, posix builds): what an unknown or unadvertised extension is
	// answered with does not depend on the read-only option (OP_UNSUPPORTED, not PERMISSION_DENIED)
	if goos := goosOf(c.P.Cfg); goos != "windows" && goos != "plan9" {
		c.withOnlyKeys("R1", "R19", []string{"extended"}, func() { runC09(c) })
		c.withOnlyKeys("R5", "R20", []string{"extended"}, func() { runC09(c) })
	}
	// (C05 compares with package os on the posix builds only: the statvfs stub of the others answers op-unsupported)
	if goos := goosOf(c.P.Cfg); goos != "windows" && goos != "plan9" {
		c.withOnlyKeys("R1", "R15", []string{"sshFxpExtendedPacket"}, func() { runC05(c) })
	}
}

// checkDecodedOnlyIfConfigured (C19.R7): "advertised ⊆ served" is R5; this is the converse.  The extended-request
// decoder must give a request a specific packet only for a name that is in the *configured* list sftpExtensions
// (what VERSION advertises), not merely in the built-in table: every store of a non-nil SpecificPacket is reached only
// after a test — inline or through a bool helper — that compares the request name with the Name of an element of
// sftpExtensions and came out true.
func checkDecodedOnlyIfConfigured(c *Ctx, rule string) {
	p := c.P
	ub := p.Func("(*sshFxpExtendedPacket).UnmarshalBinary")
	if ub == nil {
		c.missing(rule, "(*sshFxpExtendedPacket).UnmarshalBinary")
		return
	}
	// does fn compare a Name field of sftpExtensions' elements?  returns the set of "true" returns' validity
	consults := func(fn *ssa.Function) bool {
		readsList, cmpName := false, false
		eachInstr(fn, func(in ssa.Instruction) {
			if u, ok := in.(*ssa.UnOp); ok && u.Op == token.MUL {
				if g, ok := u.X.(*ssa.Global); ok && g.Name() == "sftpExtensions" {
					readsList = true
				}
			}
			if b, ok := in.(*ssa.BinOp); ok && b.Op == token.EQL {
				for _, side := range []ssa.Value{b.X, b.Y} {
					for _, l := range leavesOf(side) {
						if l.Kind == leafFieldLoad && l.Field == "Name" {
							cmpName = true
						}
					}
				}
			}
		})
		return readsList && cmpName
	}
	// a bool helper is sound when it returns true only under the name comparison
	helperOK := func(fn *ssa.Function) bool {
		if !consults(fn) || fn.Signature.Results().Len() != 1 {
			return false
		}
		for _, rl := range returnLeaves(fn, 0) {
			k, ok := rl.v.(*ssa.Const)
			if !ok {
				return false
			}
			if k.Value != nil && constant.BoolVal(k.Value) {
				under := false
				for cv, truth := range edgeConds(rl.block, rl.pred) {
					if b, ok := cv.(*ssa.BinOp); ok && b.Op == token.EQL && truth {
						under = true
					}
				}
				if !under {
					return false
				}
			}
		}
		return true
	}
	n := 0
	eachInstr(ub, func(in ssa.Instruction) {
		st, ok := in.(*ssa.Store)
		if !ok {
			return
		}
		if _, name, _, ok := fieldOf(st.Addr); !ok || name != "SpecificPacket" {
			return
		}
		if isNilConst(st.Val) {
			return
		}
		n++
		guarded := false
		for cv, truth := range edgeConds(st.Block(), nil) {
			switch x := cv.(type) {
			case *ssa.Call:
				if f := x.Call.StaticCallee(); f != nil && truth && helperOK(f) {
					guarded = true
				}
			case *ssa.UnOp:
				if call, ok := x.X.(*ssa.Call); ok && x.Op == token.NOT && !truth {
					if f := call.Call.StaticCallee(); f != nil && helperOK(f) {
						guarded = true
					}
				}
			case *ssa.Phi:
				// inline flag: set to true only under the name comparison inside this function
				if truth && consults(ub) {
					okPhi := true
					for i, e := range x.Edges {
						if k, ok := e.(*ssa.Const); ok && k.Value != nil && constant.BoolVal(k.Value) {
							under := false
							for cv2, t2 := range edgeConds(x.Block(), x.Block().Preds[i]) {
								if b, ok := cv2.(*ssa.BinOp); ok && b.Op == token.EQL && t2 {
									under = true
								}
							}
							if !under {
								okPhi = false
							}
						}
					}
					if okPhi {
						guarded = true
					}
				}
			}
		}
		what := typeName(st.Val.Type())
		if mi, ok := st.Val.(*ssa.MakeInterface); ok {
			what = typeName(mi.X.Type())
		}
		c.check(guarded, rule, "extended request decoded only if configured: "+what, p.Pos(in.Pos()), "reached only after the name was found in sftpExtensions",
			"the request is given a specific packet (and is then served) for any built-in name, whether or not SetSFTPExtensions left it in the advertised list: a client is told the extension is absent and the server performs it anyway")
	})
	if k := len(p.extendedDecodeTable()); k > n {
		n = k // one store fed from a table of constructors
	}
	c.check(n >= 3, rule, "extended request kinds", p.Pos(ub.Pos()), fmt.Sprintf("%d specific packets", n), fmt.Sprintf("only %d specific packets assigned in the extended decoder", n))
}

// checkFailedConstructionReleasesSession (R8): NewClient opens the ssh session itself and hands back (nil, err) when
// construction fails, so nobody else can close that session: "fails cleanly" needs every return of NewClient on
// which the error may be non-nil — after NewSession succeeded — to lie behind a call of (*ssh.Session).Close on every
// path (or behind a deferred closure that makes that call).  newClientPipe closes only the writer, which for a
// session's stdin is a half-close: the channel and the stderr copier stay until the whole connection goes.
func checkFailedConstructionReleasesSession(c *Ctx, rule string) {
	p := c.P
	fn := p.Func("NewClient")
	if fn == nil {
		c.missing(rule, "NewClient")
		return
	}
	c.looked("NewClient")
	var open *ssa.Call
	eachInstr(fn, func(in ssa.Instruction) {
		if call, ok := in.(*ssa.Call); ok && calleeName(&call.Call) == "NewSession" {
			open = call
		}
	})
	if open == nil {
		c.und(rule, "NewClient opens a session", p.Pos(fn.Pos()), "no call of NewSession found in NewClient")
		return
	}
	var sess, operr ssa.Value
	for _, r := range *open.Referrers() {
		if ex, ok := r.(*ssa.Extract); ok {
			if ex.Index == 0 {
				sess = ex
			} else {
				operr = ex
			}
		}
	}
	isClose := func(in ssa.Instruction) bool {
		cc := callOf(in)
		if cc == nil || calleeName(cc) != "Close" {
			return false
		}
		if _, isDefer := in.(*ssa.Defer); isDefer {
			return false
		}
		r := recvOf(cc)
		return r != nil && sess != nil && stripConv(r) == sess
	}
	// a deferred closure that closes the session covers the returns it dominates
	var deferred []ssa.Instruction
	eachInstr(fn, func(in ssa.Instruction) {
		d, ok := in.(*ssa.Defer)
		if !ok {
			return
		}
		if mc, ok := d.Call.Value.(*ssa.MakeClosure); ok {
			cl := mc.Fn.(*ssa.Function)
			found := false
			eachInstr(cl, func(y ssa.Instruction) {
				if cc := callOf(y); cc != nil && calleeName(cc) == "Close" {
					if fv, ok := stripConv(recvOf(cc)).(*ssa.FreeVar); ok && resolveFreeVar(fv) == sess {
						found = true
					}
				}
			})
			if found {
				deferred = append(deferred, in)
			}
		}
	})
	n := 0
	for _, r := range findInstrs(fn, isReturn) {
		ret := r.(*ssa.Return)
		if len(ret.Results) != 2 {
			continue
		}
		n++
		key := fmt.Sprintf("NewClient return #%d", n)
		// may the error be non-nil here?
		mayFail := false
		openFailed := false
		var walk func(v ssa.Value, b, pred *ssa.BasicBlock, d int)
		walk = func(v ssa.Value, b, pred *ssa.BasicBlock, d int) {
			if ph, ok := v.(*ssa.Phi); ok && d < 6 {
				for k, e := range ph.Edges {
					walk(e, ph.Block(), ph.Block().Preds[k], d+1)
				}
				return
			}
			if isNilConst(v) {
				return
			}
			if v == operr {
				openFailed = true
				return
			}
			mayFail = true
		}
		walk(ret.Results[1], ret.Block(), nil, 0)
		if !mayFail {
			why := "the error is nil here"
			if openFailed {
				why = "NewSession itself failed: there is no session"
			}
			c.okT(rule, key, p.Pos(r.Pos()), why)
			continue
		}
		covered := false
		for _, d := range deferred {
			if dominates(d, r) {
				covered = true
			}
		}
		if !covered {
			covered = !reachAvoiding(fn, open, func(in ssa.Instruction) bool { return in == r }, isClose)
		}
		c.check(covered, rule, key, p.Pos(r.Pos()), "the session is closed on every path to this failing return",
			"NewClient can return an error here without closing the ssh session it opened: the caller gets (nil, err) and no handle, the channel and the stderr copier stay until the whole connection is closed")
	}
	c.check(n >= 5, rule, "returns of NewClient", p.Pos(fn.Pos()), fmt.Sprintf("%d returns", n), fmt.Sprintf("only %d returns found", n))
}

// checkHandshakeDecodersTotal (C19.R10; the prover of C08/C20 on the handshake's cone, also for GOARCH=386): the version
// exchange is the first thing either side decodes from a peer it knows nothing about.  Every slice, index and
// allocation of recvVersion, of the INIT/VERSION decoders and of the unmarshal helpers below them is proved in bounds:
// a length word of 2^31 or more in an extension pair must fail cleanly, not panic NewClientPipe (32-bit int).
func checkHandshakeDecodersTotal(c *Ctx, rule string) {
	p := c.P
	var roots []*ssa.Function
	for _, n := range []string{"(*Client).recvVersion", "(*sshFxInitPacket).UnmarshalBinary", "(*sshFxVersionPacket).UnmarshalBinary"} {
		if f := p.Func(n); f != nil {
			roots = append(roots, f)
		}
	}
	if len(roots) < 2 {
		c.missing(rule, "(*Client).recvVersion / (*sshFxInitPacket).UnmarshalBinary")
		return
	}
	cone := p.cone(roots...)
	w := newZWorld(p)
	ord := map[string]int{}
	lifted := map[*ssa.Function][]zreq{}
	n := 0
	for _, fn := range p.LibFuncs() {
		if !cone[fn] || outermost(fn).Package() != p.Sftp {
			continue
		}
		nm := outermost(fn).Name()
		isRoot := false
		for _, r := range roots {
			if r == fn {
				isRoot = true
			}
		}
		if !isRoot && !strings.HasPrefix(nm, "unmarshal") {
			continue
		}
		z := w.get(fn)
		if isClientSide(fn) {
			z.clientAxioms()
		}
		for _, o := range z.obligationsOf() {
			if o.Kind != "slice" && o.Kind != "index" && o.Kind != "make" && o.Kind != "alloc" {
				continue
			}
			n++
			decideObl(c, w, z, o, rule, oblKey(o, fn, ord), lifted)
		}
	}
	c.check(n >= 2, rule, "bounds obligations in the handshake's decoders", "?", fmt.Sprintf("%d obligations", n), fmt.Sprintf("only %d obligations found in the handshake's decode cone", n))
}

// stringPairTable: name -> data of a package-level []struct{Name, Data string} literal.
func stringPairTable(p *Program, varName string) (map[string]string, bool) {
	pk := p.byPath[pkgSftp]
	for _, f := range pk.Syntax {
		for _, d := range f.Decls {
			gd, ok := d.(*ast.GenDecl)
			if !ok {
				continue
			}
			for _, sp := range gd.Specs {
				vs, ok := sp.(*ast.ValueSpec)
				if !ok {
					continue
				}
				for i, n := range vs.Names {
					if n.Name != varName || i >= len(vs.Values) {
						continue
					}
					cl, ok := vs.Values[i].(*ast.CompositeLit)
					if !ok {
						return nil, false
					}
					out := map[string]string{}
					for _, el := range cl.Elts {
						ecl, ok := el.(*ast.CompositeLit)
						if !ok || len(ecl.Elts) < 2 {
							return nil, false
						}
						vals := map[string]string{}
						for j, e := range ecl.Elts {
							key := []string{"Name", "Data"}[j%2]
							if kv, ok := e.(*ast.KeyValueExpr); ok {
								if id, ok := kv.Key.(*ast.Ident); ok {
									key = id.Name
								}
								e = kv.Value
							}
							tv := pk.TypesInfo.Types[e]
							if tv.Value == nil || tv.Value.Kind() != constant.String {
								return nil, false
							}
							vals[key] = constant.StringVal(tv.Value)
						}
						out[vals["Name"]] = vals["Data"]
					}
					return out, true
				}
			}
		}
	}
	return nil, false
}

// checkAdvertisedDataMatchesOpenSSH (C06.R15 / C19.R12): what the servers put into VERSION for an extension — name and
// data (the extension's revision) — is what the sibling codec's openssh package says for the same name ("2" for
// statvfs@openssh.com, "1" for the others): the two codecs produce the same VERSION bytes, and a client that looks at
// the revision sees the one the server implements.
func checkAdvertisedDataMatchesOpenSSH(c *Ctx, rule string) {
	p := c.P
	adv, ok := stringPairTable(p, "supportedSFTPExtensions")
	if !ok {
		c.und(rule, "advertised extension data", "sftp.go", "cannot read name and data from supportedSFTPExtensions")
		return
	}
	ref := map[string]string{}
	if p.Ossh != nil {
		for name, mem := range p.Ossh.Members {
			fn, isFn := mem.(*ssa.Function)
			if !isFn || !strings.HasPrefix(name, "Extension") || fn.Blocks == nil || len(fn.Params) != 0 {
				continue
			}
			res := newEvaluator(p).run(fn, nil, 0)
			if res.kind != "return" || len(res.vals) != 1 || res.vals[0].k != evObject {
				continue
			}
			n, d := res.vals[0].obj.fields["Name"], res.vals[0].obj.fields["Data"]
			if n.k == evConst && d.k == evConst && n.c.Kind() == constant.String && d.c.Kind() == constant.String {
				ref[constant.StringVal(n.c)] = constant.StringVal(d.c)
			}
		}
	}
	if len(ref) < 3 {
		c.und(rule, "advertised extension data", "sftp.go", fmt.Sprintf("only %d extension pairs could be read from the openssh package", len(ref)))
		return
	}
	var names []string
	for n := range adv {
		names = append(names, n)
	}
	sort.Strings(names)
	for _, n := range names {
		want, known := ref[n]
		if !known {
			continue
		}
		c.check(adv[n] == want, rule, "revision advertised for "+n, "sftp.go", fmt.Sprintf("%q, as in the openssh package", want), fmt.Sprintf("the servers advertise %s with data %q, the openssh package (and the OpenSSH description) say %q", n, adv[n], want))
	}
}

// checkUnknownExtensionKeepsTheLoop (C19.R13): in both receive loops, from the branch that recognises the
// "unknown extended request" error the next thing that can happen is the next recvPacket — no way leads out of the loop
// (to a return, to the close of the request channel) without it.  Followed with what is known on that branch: the
// error variable is not nil there, so a loop condition `for err == nil` that nobody resets ends the session one
// request after the op-unsupported answer.
func checkUnknownExtensionKeepsTheLoop(c *Ctx, rule string) {
	p := c.P
	for _, name := range []string{"(*Server).Serve", "(*RequestServer).serveLoop"} {
		fn := p.Func(name)
		if fn == nil {
			c.missing(rule, name)
			continue
		}
		var isCall *ssa.Call
		eachInstr(fn, func(in ssa.Instruction) {
			call, ok := in.(*ssa.Call)
			if !ok || !callIs(&call.Call, "errors.Is") || len(call.Call.Args) != 2 {
				return
			}
			for _, l := range leavesOf(call.Call.Args[1]) {
				if l.Kind == leafGlobal && l.V.Name() == "errUnknownExtendedPacket" {
					isCall = call
				}
			}
		})
		key := name + " goes on receiving after an unknown extension"
		if isCall == nil {
			c.und(rule, key, p.Pos(fn.Pos()), "cannot find the test for errUnknownExtendedPacket")
			continue
		}
		// the side on which the error is the unknown-extension error
		var side *ssa.BasicBlock
		for _, r := range *isCall.Referrers() {
			switch x := r.(type) {
			case *ssa.If:
				side = x.Block().Succs[0]
			case *ssa.UnOp:
				if x.Op == token.NOT && x.Referrers() != nil {
					for _, r2 := range *x.Referrers() {
						if iff, ok := r2.(*ssa.If); ok {
							side = iff.Block().Succs[1]
						}
					}
				}
			}
		}
		if side == nil {
			c.und(rule, key, p.Pos(isCall.Pos()), "the result of the test is not branched on")
			continue
		}
		facts := pathFacts{}
		facts[isCall.Call.Args[0]] = clsNonNil
		if u, ok := isCall.Call.Args[0].(*ssa.UnOp); ok && u.Op == token.MUL {
			// the error lives in a variable: every load of it on the way is the same error until it is stored again
			eachInstr(fn, func(in ssa.Instruction) {
				if u2, ok := in.(*ssa.UnOp); ok && u2.Op == token.MUL && u2.X == u.X {
					facts[u2] = clsNonNil
				}
			})
		}
		for _, r := range *isCall.Call.Args[0].Referrers() {
			if ph, ok := r.(*ssa.Phi); ok {
				_ = ph
			}
		}
		seedFacts = facts
		isRecv := func(in ssa.Instruction) bool {
			cc := callOf(in)
			return cc != nil && calleeName(cc) == "recvPacket"
		}
		leaves := reachFromBlock(side, func(in ssa.Instruction) bool {
			if isReturn(in) {
				return true
			}
			if cc := callOf(in); cc != nil && builtinName(cc) == "close" {
				return true
			}
			return false
		}, isRecv)
		c.check(!leaves, rule, key, p.Pos(isCall.Pos()), "the next recvPacket is reached before any exit of the loop", "after a request with an unknown extension name the receive loop can be left without reading the next packet (the remembered error ends it): the session is over although the request was answered op-unsupported")
	}
}
