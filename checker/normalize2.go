package main

// Further source rewrites of the de-extraction normaliser.  Like the others they run in the overlay, between inlining
// rounds, keep the meaning of the program, and exist so that the inliner can go on where it stopped:
//
//   - hoisting: `return f(a, func() T {…}())` becomes `__hN := func() T {…}(); return f(a, __hN)` when nothing that is
//     evaluated before the literal call in the statement is itself a call, a receive or an index/dereference (Go leaves
//     the order of variable reads relative to calls unspecified, so the hoisted call may legally run first); the new
//     statement is in statement position and is flattened in the next round;
//   - static dispatch: `I(x).m(…)` with I an interface type and x of a concrete type is `(x).m(…)`, and a local
//     `var t I = x` whose every use is the receiver of a method call is `var t = x`: what was a dynamic call of a
//     method of a type the reference tree does not know (a strategy object) becomes a static call the inliner reduces.

import (
	"fmt"
	"go/ast"
	"go/token"
	"go/types"
	"strings"

	"golang.org/x/tools/go/packages"
)

type textEdit struct {
	pkg   *packages.Package
	file  *ast.File
	start token.Pos
	end   token.Pos
	// text builds the replacement from the current content of the file
	text func(content []byte, off func(token.Pos) int) []byte
	what string
}

var hoistCounter int

func isSimpleOperand(info *types.Info, e ast.Expr) bool {
	switch x := ast.Unparen(e).(type) {
	case *ast.Ident, *ast.BasicLit:
		return true
	case *ast.SelectorExpr:
		if sel := info.Selections[x]; sel != nil && sel.Kind() != types.FieldVal {
			return false
		}
		return isSimpleOperand(info, x.X)
	case *ast.CallExpr:
		// a conversion of a simple operand
		if tv, ok := info.Types[x.Fun]; ok && tv.IsType() && len(x.Args) == 1 {
			return isSimpleOperand(info, x.Args[0])
		}
	case *ast.UnaryExpr:
		if x.Op == token.SUB || x.Op == token.NOT || x.Op == token.XOR || x.Op == token.ADD {
			return isSimpleOperand(info, x.X)
		}
	case *ast.FuncLit:
		return true // creating a closure evaluates nothing
	}
	return false
}

func nakedIIFE(e ast.Expr) *ast.CallExpr {
	ce, ok := ast.Unparen(e).(*ast.CallExpr)
	if !ok || ce.Ellipsis.IsValid() {
		return nil
	}
	if _, ok := ast.Unparen(ce.Fun).(*ast.FuncLit); !ok {
		return nil
	}
	return ce
}

// nestedIIFE finds an immediately invoked literal below e (not e itself) that is the first thing e evaluates apart
// from simple operands.
func nestedIIFE(info *types.Info, e ast.Expr, top bool) *ast.CallExpr {
	if c := nakedIIFE(e); c != nil {
		if top {
			return nil
		}
		if fl := ast.Unparen(c.Fun).(*ast.FuncLit); fl.Type.Results == nil || fl.Type.Results.NumFields() != 1 {
			return nil
		}
		return c
	}
	// an operand of an arithmetic or comparison operator (never of && / ||, whose right side may not run at all): the
	// left operand first; the right one when the left is a plain operand
	switch x := ast.Unparen(e).(type) {
	case *ast.BinaryExpr:
		if x.Op == token.LAND || x.Op == token.LOR {
			if isSimpleOperand(info, x.X) {
				return nil
			}
			return nestedIIFE(info, x.X, false)
		}
		if !isSimpleOperand(info, x.X) {
			return nestedIIFE(info, x.X, false)
		}
		if isSimpleOperand(info, x.Y) {
			return nil
		}
		return nestedIIFE(info, x.Y, false)
	case *ast.UnaryExpr:
		if x.Op == token.NOT || x.Op == token.SUB || x.Op == token.XOR || x.Op == token.ADD {
			return nestedIIFE(info, x.X, false)
		}
		return nil
	}
	ce, ok := ast.Unparen(e).(*ast.CallExpr)
	if !ok {
		return nil
	}
	// the function operand: a plain function, a conversion, or a method of a simple receiver
	switch f := ast.Unparen(ce.Fun).(type) {
	case *ast.Ident:
	case *ast.SelectorExpr:
		if !isSimpleOperand(info, f.X) {
			if _, isPkg := info.Uses[identOf(f.X)].(*types.PkgName); !isPkg {
				return nil
			}
		}
	default:
		if tv, ok := info.Types[ce.Fun]; !ok || !tv.IsType() {
			return nil
		}
	}
	if ce.Ellipsis.IsValid() {
		return nil
	}
	for _, a := range ce.Args {
		if isSimpleOperand(info, a) {
			continue
		}
		return nestedIIFE(info, a, false)
	}
	return nil
}

func identOf(e ast.Expr) *ast.Ident {
	id, _ := ast.Unparen(e).(*ast.Ident)
	return id
}

// findSmallRewrites lists the edits described at the top of this file.
func findSmallRewrites(pkgs map[string]*packages.Package, fresh []freshFunc) []textEdit {
	var out []textEdit
	for path, pk := range pkgs {
		if !strings.HasPrefix(path, pkgSftp) || strings.Contains(path, "/examples/") || pk.TypesInfo == nil {
			continue
		}
		info := pk.TypesInfo
		for _, f := range pk.Syntax {
			f := f
			// ---- hoisting ----
			visit := func(list []ast.Stmt) {
				for _, st := range list {
					var exprs []ast.Expr
					switch s := st.(type) {
					case *ast.ReturnStmt:
						exprs = s.Results
					case *ast.ExprStmt:
						exprs = []ast.Expr{s.X}
					case *ast.AssignStmt:
						simpleLhs := true
						for _, l := range s.Lhs {
							if !isSimpleOperand(info, l) {
								simpleLhs = false
							}
						}
						if simpleLhs {
							exprs = s.Rhs
						}
					}
					var found ast.Expr
					for _, e := range exprs {
						if isSimpleOperand(info, e) {
							continue
						}
						// an argument that is evaluated before the literal call and is not a plain operand (p.id()) goes
						// into a temporary of its own first: the order of the two calls stays what it was
						if pre := argumentBeforeIIFE(info, e); pre != nil {
							found = pre
							break
						}
						// a literal call that is the whole statement's only expression is the flattener's business; as one
						// of several results or right-hand sides it is hoisted like a nested one
						if c := nestedIIFE(info, e, len(exprs) == 1); c != nil {
							found = c
						}
						break
					}
					if found == nil {
						continue
					}
					st, found := st, found
					hoistCounter++
					name := fmt.Sprintf("__h%d", hoistCounter)
					out = append(out, textEdit{pkg: pk, file: f, start: st.Pos(), end: st.End(), what: "hoist", text: func(content []byte, off func(token.Pos) int) []byte {
						ss, se := off(st.Pos()), off(st.End())
						cs, ce := off(found.Pos()), off(found.End())
						if !(ss <= cs && cs < ce && ce <= se && se <= len(content)) {
							return nil
						}
						var b []byte
						b = append(b, name...)
						b = append(b, " := "...)
						b = append(b, content[cs:ce]...)
						b = append(b, '\n')
						b = append(b, content[ss:cs]...)
						b = append(b, name...)
						b = append(b, content[ce:se]...)
						return b
					}})
				}
			}
			// the condition of an if statement (one that stands in a statement list and has no init statement): a
			// literal call that is the first thing the condition evaluates — the left operand of its && / || chain,
			// under ! or parentheses — runs unconditionally before anything else of the statement, as it does hoisted
			var firstEvaluated func(e ast.Expr) *ast.CallExpr
			firstEvaluated = func(e ast.Expr) *ast.CallExpr {
				switch x := e.(type) {
				case *ast.ParenExpr:
					return firstEvaluated(x.X)
				case *ast.UnaryExpr:
					if x.Op == token.NOT || x.Op == token.SUB || x.Op == token.XOR {
						return firstEvaluated(x.X)
					}
				case *ast.BinaryExpr:
					return firstEvaluated(x.X)
				case *ast.CallExpr:
					if c := nakedIIFE(x); c != nil {
						if fl := ast.Unparen(c.Fun).(*ast.FuncLit); fl.Type.Results != nil && fl.Type.Results.NumFields() == 1 {
							return c
						}
						return nil
					}
					return nestedIIFE(info, x, true)
				}
				return nil
			}
			visitIf := func(list []ast.Stmt) {
				for _, st := range list {
					is, ok := st.(*ast.IfStmt)
					if !ok || is.Init != nil {
						continue
					}
					found := firstEvaluated(is.Cond)
					if found == nil {
						continue
					}
					hoistCounter++
					name := fmt.Sprintf("__h%d", hoistCounter)
					out = append(out, textEdit{pkg: pk, file: f, start: is.Pos(), end: found.End(), what: "hoist", text: func(content []byte, off func(token.Pos) int) []byte {
						ss, cs, ce := off(is.Pos()), off(found.Pos()), off(found.End())
						if !(0 <= ss && ss <= cs && cs < ce && ce <= len(content)) {
							return nil
						}
						var b []byte
						b = append(b, name...)
						b = append(b, " := "...)
						b = append(b, content[cs:ce]...)
						b = append(b, '\n')
						b = append(b, content[ss:cs]...)
						b = append(b, name...)
						return b
					}})
				}
			}
			ast.Inspect(f, func(n ast.Node) bool {
				switch x := n.(type) {
				case *ast.BlockStmt:
					visit(x.List)
					visitIf(x.List)
				case *ast.CaseClause:
					visit(x.Body)
					visitIf(x.Body)
				case *ast.CommClause:
					visit(x.Body)
					visitIf(x.Body)
				}
				return true
			})
			// ---- static dispatch: I(x).m(…) ----
			ast.Inspect(f, func(n ast.Node) bool {
				call, ok := n.(*ast.CallExpr)
				if !ok {
					return true
				}
				sel, ok := ast.Unparen(call.Fun).(*ast.SelectorExpr)
				if !ok {
					return true
				}
				if s := info.Selections[sel]; s == nil || s.Kind() != types.MethodVal {
					return true
				}
				conv, ok := ast.Unparen(sel.X).(*ast.CallExpr)
				if !ok || len(conv.Args) != 1 {
					return true
				}
				tv, ok := info.Types[conv.Fun]
				if !ok || !tv.IsType() || !types.IsInterface(tv.Type) {
					return true
				}
				at, ok := info.Types[conv.Args[0]]
				if !ok || at.Type == nil || types.IsInterface(at.Type) || at.IsNil() {
					return true
				}
				if b, isBasic := at.Type.(*types.Basic); isBasic && b.Info()&types.IsUntyped != 0 {
					return true
				}
				arg := conv.Args[0]
				out = append(out, textEdit{pkg: pk, file: f, start: sel.X.Pos(), end: sel.X.End(), what: "static dispatch", text: func(content []byte, off func(token.Pos) int) []byte {
					as, ae := off(arg.Pos()), off(arg.End())
					if !(0 <= as && as < ae && ae <= len(content)) {
						return nil
					}
					return append(append([]byte("("), content[as:ae]...), ')')
				}})
				return true
			})
			// ---- an interface arm of a type switch that dispatches to a method the reference tree lacks ----
			// `case I: B` gets, in front of it, `case *T: B` for each concrete *T whose method of I's is new: the same
			// statements run for a *T as before (an earlier case that takes *T still takes it), and the call in B is
			// now static, so the next round inlines the method into the switch — where the reference tree has the code.
			ast.Inspect(f, func(n ast.Node) bool {
				ts, ok := n.(*ast.TypeSwitchStmt)
				if !ok {
					return true
				}
				as, ok := ts.Assign.(*ast.AssignStmt)
				if !ok || len(as.Lhs) != 1 {
					return true
				}
				var listed []types.Type
				for _, cl := range ts.Body.List {
					for _, e := range cl.(*ast.CaseClause).List {
						if tv, ok := info.Types[e]; ok && tv.IsType() {
							listed = append(listed, tv.Type)
						}
					}
				}
				for _, cl := range ts.Body.List {
					cc := cl.(*ast.CaseClause)
					if len(cc.List) != 1 || len(cc.Body) == 0 {
						continue
					}
					tv, ok := info.Types[cc.List[0]]
					if !ok || !tv.IsType() {
						continue
					}
					it, ok := tv.Type.Underlying().(*types.Interface)
					if !ok || it.NumMethods() == 0 {
						continue
					}
					hasLabel := false
					for _, st := range cc.Body {
						ast.Inspect(st, func(n ast.Node) bool {
							if _, ok := n.(*ast.LabeledStmt); ok {
								hasLabel = true
							}
							return true
						})
					}
					if hasLabel {
						continue
					}
					var add []types.Type
					for _, ff := range fresh {
						sig, _ := ff.obj.Type().(*types.Signature)
						if sig == nil || sig.Recv() == nil || ff.pkg != pk {
							continue
						}
						rt := sig.Recv().Type()
						inI := false
						for i := 0; i < it.NumMethods(); i++ {
							if it.Method(i).Name() == ff.obj.Name() {
								inI = true
							}
						}
						if !inI || !types.Implements(rt, it) {
							continue
						}
						dup := false
						for _, t := range append(listed, add...) {
							if types.Identical(t, rt) {
								dup = true
							}
						}
						if !dup {
							add = append(add, rt)
						}
					}
					if len(add) == 0 {
						continue
					}
					qual := types.RelativeTo(pk.Types)
					out = append(out, textEdit{pkg: pk, file: f, start: cc.Pos(), end: cc.Pos() + token.Pos(len("case")), what: "concrete cases before an interface arm", text: func(content []byte, off func(token.Pos) int) []byte {
						bs, be := off(cc.Colon)+1, off(cc.End())
						if !(0 <= bs && bs <= be && be <= len(content)) {
							return nil
						}
						var b []byte
						for _, t := range add {
							b = append(b, "case "...)
							b = append(b, types.TypeString(t, qual)...)
							b = append(b, ":\n"...)
							b = append(b, content[bs:be]...)
							b = append(b, '\n')
						}
						b = append(b, "case"...)
						return b
					}})
				}
				return true
			})
			// ---- a called conversion to a function type: F(f)(a…) is f(a…) ----
			ast.Inspect(f, func(n ast.Node) bool {
				call, ok := n.(*ast.CallExpr)
				if !ok {
					return true
				}
				conv, ok := ast.Unparen(call.Fun).(*ast.CallExpr)
				if !ok || len(conv.Args) != 1 {
					return true
				}
				tv, ok := info.Types[conv.Fun]
				if !ok || !tv.IsType() {
					return true
				}
				if _, isSig := tv.Type.Underlying().(*types.Signature); !isSig {
					return true
				}
				at, ok := info.Types[conv.Args[0]]
				if !ok || at.Type == nil || at.IsNil() {
					return true
				}
				if _, isSig := at.Type.Underlying().(*types.Signature); !isSig {
					return true
				}
				arg := conv.Args[0]
				out = append(out, textEdit{pkg: pk, file: f, start: call.Fun.Pos(), end: call.Fun.End(), what: "called conversion", text: func(content []byte, off func(token.Pos) int) []byte {
					as, ae := off(arg.Pos()), off(arg.End())
					if !(0 <= as && as < ae && ae <= len(content)) {
						return nil
					}
					return append(append([]byte("("), content[as:ae]...), ')')
				}})
				return true
			})
			// ---- a called method expression: (*T).m(x, a…) is x.m(a…) ----
			ast.Inspect(f, func(n ast.Node) bool {
				call, ok := n.(*ast.CallExpr)
				if !ok || len(call.Args) == 0 || call.Ellipsis.IsValid() {
					return true
				}
				sel, ok := ast.Unparen(call.Fun).(*ast.SelectorExpr)
				if !ok {
					return true
				}
				sl := info.Selections[sel]
				if sl == nil || sl.Kind() != types.MethodExpr || types.IsInterface(sl.Recv()) {
					return true
				}
				recv := call.Args[0]
				if tv, ok := info.Types[recv]; !ok || tv.Type == nil || !types.Identical(tv.Type, sl.Recv()) {
					return true
				}
				name := sel.Sel.Name
				end := call.Args[0].End()
				if len(call.Args) > 1 {
					end = call.Args[1].Pos()
				}
				out = append(out, textEdit{pkg: pk, file: f, start: call.Fun.Pos(), end: end, what: "method expression call", text: func(content []byte, off func(token.Pos) int) []byte {
					rs, re := off(recv.Pos()), off(recv.End())
					if !(0 <= rs && rs < re && re <= len(content)) {
						return nil
					}
					b := append([]byte("("), content[rs:re]...)
					b = append(b, ")."...)
					b = append(b, name...)
					b = append(b, '(')
					return b
				}})
				return true
			})
			// ---- static dispatch: var t I = x, t used as a method receiver only ----
			uses := map[types.Object][]*ast.Ident{}
			recvUse := map[*ast.Ident]bool{}
			ast.Inspect(f, func(n ast.Node) bool {
				switch x := n.(type) {
				case *ast.Ident:
					if o := info.Uses[x]; o != nil {
						uses[o] = append(uses[o], x)
					}
				case *ast.CallExpr:
					if sel, ok := ast.Unparen(x.Fun).(*ast.SelectorExpr); ok {
						if s := info.Selections[sel]; s != nil && s.Kind() == types.MethodVal {
							if id, ok := sel.X.(*ast.Ident); ok {
								recvUse[id] = true
							}
						}
					}
				}
				return true
			})
			ast.Inspect(f, func(n ast.Node) bool {
				ds, ok := n.(*ast.DeclStmt)
				if !ok {
					return true
				}
				gd, ok := ds.Decl.(*ast.GenDecl)
				if !ok || gd.Tok != token.VAR {
					return true
				}
				for _, sp := range gd.Specs {
					vs, ok := sp.(*ast.ValueSpec)
					if !ok || vs.Type == nil || len(vs.Names) != 1 || len(vs.Values) != 1 || vs.Names[0].Name == "_" {
						continue
					}
					tv, ok := info.Types[vs.Type]
					if !ok || !tv.IsType() || !types.IsInterface(tv.Type) {
						continue
					}
					vt, ok := info.Types[vs.Values[0]]
					if !ok || vt.Type == nil || types.IsInterface(vt.Type) || vt.IsNil() {
						continue
					}
					if b, isBasic := vt.Type.(*types.Basic); isBasic && b.Info()&types.IsUntyped != 0 {
						continue
					}
					obj := info.Defs[vs.Names[0]]
					if obj == nil || len(uses[obj]) == 0 {
						continue
					}
					all := true
					for _, u := range uses[obj] {
						if !recvUse[u] {
							all = false
						}
					}
					if !all {
						continue
					}
					out = append(out, textEdit{pkg: pk, file: f, start: vs.Type.Pos(), end: vs.Type.End(), what: "static dispatch (variable)", text: func([]byte, func(token.Pos) int) []byte {
						return []byte(" ")
					}})
				}
				return true
			})
		}
	}
	return out
}

// argumentBeforeIIFE: e is a call f(a…) one of whose arguments is an immediately invoked literal, and an earlier
// argument is the first thing of e that is not a plain operand: that earlier argument (a single-valued expression).
func argumentBeforeIIFE(info *types.Info, e ast.Expr) ast.Expr {
	ce, ok := ast.Unparen(e).(*ast.CallExpr)
	if !ok || ce.Ellipsis.IsValid() || nakedIIFE(e) != nil {
		return nil
	}
	switch f := ast.Unparen(ce.Fun).(type) {
	case *ast.Ident:
	case *ast.SelectorExpr:
		if !isSimpleOperand(info, f.X) {
			if _, isPkg := info.Uses[identOf(f.X)].(*types.PkgName); !isPkg {
				return nil
			}
		}
	default:
		return nil
	}
	first := -1
	for i, a := range ce.Args {
		if isSimpleOperand(info, a) {
			continue
		}
		first = i
		break
	}
	if first < 0 || nakedIIFE(ce.Args[first]) != nil {
		return nil
	}
	later := false
	for _, a := range ce.Args[first+1:] {
		if nakedIIFE(a) != nil {
			later = true
		}
	}
	if !later {
		return nil
	}
	if tv, ok := info.Types[ce.Args[first]]; !ok || tv.Type == nil {
		return nil
	} else if _, isTuple := tv.Type.(*types.Tuple); isTuple {
		return nil
	}
	return ce.Args[first]
}
