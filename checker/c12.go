package main

import (
	"go/constant"
	"fmt"
	"go/token"
	"go/types"
	"sort"
	"strings"

	"golang.org/x/tools/go/ssa"
)

func init() {
	register("C12", &propSpec{
		level:       "other",
		explanation: "os.File-like semantics of the remote File decided structurally: each exported method takes the File mutex in the mode required by what it can reach (exclusive if a store to offset/handle is reachable, shared otherwise) before touching either field; every load of the handle is dominated by the closed test (in the method or transitively at every call site of the helper); Close clears the handle before sending CLOSE with the value loaded before, and is the only writer of the handle; no store to the offset is reachable from the *At and metadata methods; every store to the offset has one of the shapes 'offset += bytes moved by the callee' / 'offset = position of the error' / the Seek table, the latter guarded by the negative test.",
		run:         runC12,
		quickExtra:  []BuildConfig{cfg386},
		assumptions: []string{"callers use a File only through its methods"},
	})
	register("C13", &propSpec{
		level:       "other",
		explanation: "Partial-failure accounting decided structurally: the reducers of the three concurrent transfers keep the error with the lowest offset (guard e.off <= first.off from MaxInt64) and return first.err with first.off - off; every worker error is sent unconditionally to the drained error channel; the read worker reports a short DATA as io.EOF at chunk offset + bytes copied; sequential loops return at the first error with the running count that only grows by the callee's count; WriteTo's reducer consumes chunks in request order and stops before advancing on an error, mapping io.EOF to nil only there; a nil error is returned only with the full length.",
		run:         runC13,
		extra:       []BuildConfig{cfg386},
		assumptions: []string{"regular files return short reads only at end of file (the premise written in client.go)"},
	})
}

// fileFuncs: methods of *File and the closures nested in them.
func fileFuncs(p *Program) []*ssa.Function {
	var out []*ssa.Function
	for _, fn := range p.LibFuncs() {
		if isClientFile(fn) {
			out = append(out, fn)
		}
	}
	return out
}

// fileCone: File functions reachable from fn through static calls and closures.
func fileCone(fn *ssa.Function) map[*ssa.Function]bool {
	out := map[*ssa.Function]bool{}
	var walk func(f *ssa.Function)
	walk = func(f *ssa.Function) {
		if out[f] || f.Blocks == nil || !isClientFile(f) {
			return
		}
		out[f] = true
		for _, c := range staticCallees(f) {
			walk(c)
		}
	}
	walk(fn)
	return out
}

// fileFieldAccesses in fn: loads and stores of f.handle / f.offset.
type ffAccess struct {
	In    ssa.Instruction
	Field string
	Write bool
	Val   ssa.Value // stored value
}

func fileAccessesIn(fn *ssa.Function) []ffAccess {
	var out []ffAccess
	eachInstr(fn, func(in ssa.Instruction) {
		fa, ok := in.(*ssa.FieldAddr)
		if !ok {
			return
		}
		t, name, _, ok := fieldOf(fa)
		if !ok || typeName(t) != "File" || (name != "handle" && name != "offset") {
			return
		}
		for _, r := range *fa.Referrers() {
			switch x := r.(type) {
			case *ssa.Store:
				if x.Addr == ssa.Value(fa) {
					out = append(out, ffAccess{x, name, true, x.Val})
				}
			case *ssa.UnOp:
				out = append(out, ffAccess{x, name, false, nil})
			}
		}
	})
	return out
}

// closedGuards: the `if f.handle == "" { return …, os.ErrClosed }` tests of fn.
func closedGuards(fn *ssa.Function) []*ssa.If {
	var out []*ssa.If
	for _, b := range fn.Blocks {
		iff, ok := b.Instrs[len(b.Instrs)-1].(*ssa.If)
		if !ok {
			continue
		}
		cmp, ok := iff.Cond.(*ssa.BinOp)
		if !ok || cmp.Op != token.EQL {
			continue
		}
		s, isS := constString(cmp.Y)
		if !isS || s != "" {
			continue
		}
		isHandle := false
		for _, l := range leavesOf(cmp.X) {
			if l.Kind == leafFieldLoad && l.Field == "handle" {
				isHandle = true
			}
		}
		if !isHandle {
			continue
		}
		// the true side ends in a return that carries os.ErrClosed and never gets to use the handle (decided on paths:
		// the return may sit behind the join of a "lock and check" helper that has been inlined back)
		mentionsClosed := func(in ssa.Instruction) bool {
			r, ok := in.(*ssa.Return)
			if !ok {
				return false
			}
			for _, res := range r.Results {
				for _, l := range leavesOf(res) {
					if l.Kind == leafGlobal && l.V.Name() == "ErrClosed" {
						return true
					}
				}
			}
			return false
		}
		usesHandle := func(in ssa.Instruction) bool {
			u, ok := in.(*ssa.UnOp)
			if !ok || u.Op != token.MUL {
				return false
			}
			t, n, _, ok := fieldOf(u.X)
			return ok && n == "handle" && typeName(t) == "File"
		}
		retClosed := reachFromBlock(b.Succs[0], mentionsClosed, nil) && !reachFromBlock(b.Succs[0], usesHandle, nil)
		if retClosed {
			out = append(out, iff)
		}
	}
	return out
}

func runC12(c *Ctx) {
	p := c.P
	pos := func(in ssa.Instruction) string { return p.Pos(in.Pos()) }
	fileT := p.NamedType(p.Sftp, "File")
	if fileT == nil {
		c.missing("R1", "File")
		return
	}
	// exported methods
	exported := exportedFileMethods(p, fileT)
	c.check(len(exported) >= 15, "R1", "exported File methods", "?", fmt.Sprintf("%d exported methods", len(exported)), fmt.Sprintf("only %d exported File methods found", len(exported)))

	// ---------- R1 lock kind ----------
	checkFileLockKind(c, "R1", exported, nil)
	// unexported File helpers are only called from File functions
	for _, f := range fileFuncs(p) {
		if f.Parent() != nil || f.Object() == nil || f.Object().Exported() {
			continue
		}
		for _, site := range p.callersOfStatic(f) {
			c.check(isClientFile(site.Parent()), "R1", "caller of helper "+fnName(f)+": "+fnName(site.Parent()), pos(site), "helper reached only through File methods (which hold the lock)", "an unexported File helper is called from outside the File methods, without the File lock")
		}
		for _, r := range p.refsAsValue(f) {
			c.bad("R1", "helper "+fnName(f)+" used as value in "+fnName(r.Parent()), pos(r), "callers cannot be enumerated")
		}
	}

	// ---------- R2 closed check dominates every load of the handle ----------
	{
		guardsOf := map[*ssa.Function][]*ssa.If{}
		for _, f := range fileFuncs(p) {
			guardsOf[f] = closedGuards(f)
		}
		var siteGuarded func(in ssa.Instruction, depth int) bool
		entryGuarded := func(f *ssa.Function, depth int) bool {
			if depth > 6 {
				return false
			}
			if f.Parent() != nil {
				// closure: its creation site
				var mk ssa.Instruction
				eachInstr(f.Parent(), func(in ssa.Instruction) {
					if mc, ok := in.(*ssa.MakeClosure); ok && mc.Fn == f {
						mk = in
					}
				})
				return mk != nil && siteGuarded(mk, depth+1)
			}
			if f.Object() != nil && f.Object().Exported() {
				return false
			}
			sites := p.callersOfStatic(f)
			if len(sites) == 0 {
				return false
			}
			for _, s := range sites {
				if !siteGuarded(s, depth+1) {
					return false
				}
			}
			return true
		}
		siteGuarded = func(in ssa.Instruction, depth int) bool {
			f := in.Parent()
			for _, g := range guardsOf[f] {
				// on the "not closed" edge
				if g.Block().Succs[1].Dominates(in.Block()) || (g.Block().Dominates(in.Block()) && !g.Block().Succs[0].Dominates(in.Block()) && g.Block() != in.Block()) {
					return true
				}
			}
			return entryGuarded(f, depth)
		}
		n := 0
		for _, f := range fileFuncs(p) {
			for _, a := range fileAccessesIn(f) {
				if a.Field != "handle" || a.Write {
					continue
				}
				// the guard's own load
				isGuardLoad := false
				for _, g := range guardsOf[f] {
					for _, l := range leavesOf(g.Cond.(*ssa.BinOp).X) {
						if l.V == a.In.(ssa.Value) {
							isGuardLoad = true
						}
					}
				}
				if isGuardLoad {
					continue
				}
				n++
				c.check(siteGuarded(a.In, 0), "R2", "use of handle in "+fnName(f), pos(a.In), "dominated by the closed test (here or at every call site)", "f.handle is read for a request on a path that has not tested for a closed File: a request with an empty/closed handle can be sent")
			}
		}
		g := 0
		for _, gs := range guardsOf {
			g += len(gs)
		}
		c.check(g >= 14, "R2", "closed tests", "?", fmt.Sprintf("%d closed tests", g), fmt.Sprintf("only %d closed tests remain (14 expected)", g))
		c.floor("R2", 12)
	}

	// ---------- R3 Close ----------
	if cl := p.Func("(*File).Close"); cl == nil {
		c.missing("R3", "(*File).Close")
	} else {
		var store *ssa.Store
		for _, a := range fileAccessesIn(cl) {
			if a.Field == "handle" && a.Write {
				store = a.In.(*ssa.Store)
			}
		}
		var closeCall ssa.Instruction
		eachInstr(cl, func(in ssa.Instruction) {
			if cc := callOf(in); cc != nil && fnNameOfCallee(cc) == "(*Client).close" {
				closeCall = in
			}
		})
		if store == nil || closeCall == nil {
			c.bad("R3", "Close shape", p.Pos(cl.Pos()), "File.Close no longer clears the handle and sends CLOSE")
		} else {
			s, isS := constString(store.Val)
			c.check(isS && s == "", "R3", "Close clears the handle", pos(store), "f.handle = \"\"", "Close stores something other than the empty handle")
			c.check(dominates(store, closeCall), "R3", "handle cleared before CLOSE is sent", pos(closeCall), "invalidate first, then send", "the handle is still valid while (or after) the CLOSE request is sent: a racing method can send a request with the closed handle, and a failed CLOSE leaves the File usable")
			// the handle sent is the one loaded before the store
			okArg := false
			for _, l := range leavesOf(argsOf(callOf(closeCall))[0]) {
				if l.Kind == leafFieldLoad && l.Field == "handle" {
					if li, ok := l.V.(ssa.Instruction); ok && dominates(li, store) {
						okArg = true
					}
				}
			}
			c.check(okArg, "R3", "CLOSE carries the old handle", pos(closeCall), "the value loaded before clearing", "the CLOSE request does not carry the handle value read before it was cleared")
			// exactly one CLOSE per successful Close
			mn, mx, n := countPaths(cl, nil, isReturn, func(x ssa.Instruction) bool { return x == closeCall })
			c.check(n > 0 && mx == 1 && mn == 0, "R3", "at most one CLOSE per call", pos(closeCall), "one CLOSE on the open path, none when already closed", fmt.Sprintf("CLOSE is sent between %d and %d times per call", mn, mx))
		}
		// handle written only by Close (and the constructor literal)
		for _, f := range p.LibFuncs() {
			eachInstr(f, func(in ssa.Instruction) {
				st, ok := in.(*ssa.Store)
				if !ok {
					return
				}
				fa, ok := st.Addr.(*ssa.FieldAddr)
				if !ok {
					return
				}
				t, n, base, _ := fieldOf(fa)
				if n != "handle" || typeName(t) != "File" {
					return
				}
				if _, fresh := base.(*ssa.Alloc); fresh {
					return
				}
				c.check(f == cl, "R3", "write of File.handle in "+fnName(f), pos(in), "only Close writes the handle", "the handle is written outside Close")
			})
		}
		// Client.close callers
		if cc := p.Func("(*Client).close"); cc != nil {
			for _, site := range p.callersOfStatic(cc) {
				nm := fnName(site.Parent())
				c.check(nm == "(*File).Close" || nm == "(*Client).ReadDirContext", "R3", "caller of Client.close: "+nm, pos(site), "CLOSE is sent by File.Close and by ReadDir's own directory handle only", "CLOSE is sent from an unexpected place")
			}
		} else {
			c.missing("R3", "(*Client).close")
		}
	}

	// ---------- R4 *At and metadata methods leave the offset alone ----------
	for _, name := range []string{"ReadAt", "WriteAt", "Stat", "Chmod", "Chown", "Truncate", "SetExtendedData", "Sync", "Name"} {
		m := p.Func("(*File)." + name)
		if m == nil {
			c.missing("R4", "(*File)."+name)
			continue
		}
		var w ssa.Instruction
		for f := range fileCone(m) {
			for _, a := range fileAccessesIn(f) {
				if a.Write {
					w = a.In
				}
			}
		}
		if w == nil {
			c.ok("R4", name+" leaves offset and handle alone", p.Pos(m.Pos()), "no store to offset/handle reachable")
		} else {
			c.bad("R4", name+" leaves offset and handle alone", pos(w), "a store to the File offset or handle is reachable from "+name)
		}
	}

	checkOffsetStores(c, "R5", nil)

	// ---------- R9 Read advances the offset by what readAt counted: its reducer must keep the lowest offset ----------
	// (shared with C13.R1/R2/R6: with another error kept, Read reports bytes that were not read and the offset
	// moves past the end of the data)
	// Write and ReadFrom advance the offset by what their reducers counted, in the same way
	c.withRule("R9", func() {
		checkReducers(c, []string{"(*File).readAt", "(*File).writeAtConcurrent", "(*File).readFromWithConcurrency"})
	})

	// ---------- R13 what a transfer counts is what it moved, from where the offset said (shared with C01.R1) ----------
	// Read/Write/ReadFrom/WriteTo add the count of their helper to the offset: a helper that counts bytes it did not
	// move, or that asks for another place than start+cursor (in 64 bits), leaves the offset where os.File would not
	checkWriteChunkCountsOnlyAcknowledged(c, "R14")
	// R15 (shared with C20.Z8) / R16 (shared with C01.R13)
	checkWorkerCountBounded(c, "R15")
	checkAppendStartsAtEnd(c, "R16")
	checkAtMethodsUseTheirOffset(c, "R17")
	// R18 (shared with C13.R4): the count the sequential loops return is what moves the offset in Read and Write
	checkSequentialLoops(c, "R18")
	// R19: a chunk the server took is a chunk transferred — the STATUS that acknowledges a WRITE decodes to nil
	checkStatusCaseNextToDataCase(c, "R19", true)
	// R20 (shared as C13.R23, C01.R26): the offset reported with the source's error lies behind the chunk just sent
	checkSourceErrorBehindChunk(c, "R20")
	c.withRule("R13", func() {
		c01TransferSitesOnly = true
		defer func() { c01TransferSitesOnly = false }()
		runC01(c)
	})

	// ---------- R10 the chunk offsets of one call cannot wrap round int64 ----------
	checkChunkOffsetsCannotWrap(c, "R10")

	// ---------- R8 requests are sent while f.mu is held ----------
	checkRequestsUnderFileLock(c, "R8", exported)

	// ---------- R7 the goroutines of a transfer end before the method returns (shared with C04.R7) ----------
	// the feeders read f.handle without the lock; that is sound only because the method holds f.mu until they
	// have ended, so Close cannot clear the handle (or send CLOSE) underneath them
	for _, name := range []string{"(*File).readAt", "(*File).WriteTo", "(*File).writeAtConcurrent", "(*File).readFromWithConcurrency"} {
		fn := p.Func(name)
		if fn == nil {
			c.missing("R7", name)
			continue
		}
		checkMapReduce(c, fn, name, "R7", true)
	}

	// ---------- R6 Seek ----------
	if sk := p.Func("(*File).Seek"); sk == nil {
		c.missing("R6", "(*File).Seek")
	} else {
		c.looked("(*File).Seek")
		var st *ssa.Store
		for _, a := range fileAccessesIn(sk) {
			if a.Field == "offset" && a.Write {
				if st != nil {
					c.bad("R6", "Seek stores once", pos(a.In), "Seek writes the offset in more than one place")
				}
				st = a.In.(*ssa.Store)
			}
		}
		if st == nil {
			c.bad("R6", "Seek stores the offset", p.Pos(sk.Pos()), "Seek never stores the new offset")
		} else {
			phi, isPhi := st.Val.(*ssa.Phi)
			if !isPhi {
				c.und("R6", "Seek value", pos(st), "stored value is not the merge of the whence cases")
			} else {
				// negative test dominates the store
				neg := false
				for _, b := range sk.Blocks {
					iff, ok := b.Instrs[len(b.Instrs)-1].(*ssa.If)
					if !ok {
						continue
					}
					cmp, ok := iff.Cond.(*ssa.BinOp)
					if !ok || cmp.Op != token.LSS || cmp.X != ssa.Value(phi) {
						continue
					}
					if z, ok := constInt(cmp.Y); ok && z == 0 && b.Succs[1].Dominates(st.Block()) && !b.Succs[0].Dominates(st.Block()) {
						neg = true
						// the true branch returns os.ErrInvalid
						inv := false
						for _, in := range b.Succs[0].Instrs {
							if r, ok := in.(*ssa.Return); ok {
								for _, l := range leavesOf(r.Results[1]) {
									if l.Kind == leafGlobal && l.V.Name() == "ErrInvalid" {
										inv = true
									}
								}
							}
							if s2, ok := in.(*ssa.Store); ok {
								for _, l := range leavesOf(s2.Val) {
									if l.Kind == leafGlobal && l.V.Name() == "ErrInvalid" {
										inv = true
									}
								}
							}
						}
						c.check(inv, "R6", "Seek negative result is an error", p.Pos(b.Succs[0].Instrs[0].Pos()), "returns os.ErrInvalid", "a negative position is not rejected with os.ErrInvalid")
					}
				}
				c.check(neg, "R6", "Seek rejects negative before storing", pos(st), "store dominated by the offset >= 0 branch", "the new offset is stored without (or before) the negative test")
				// whence table
				whence := sk.Params[2]
				want := map[int64]string{0: "start", 1: "current", 2: "end"}
				seen := map[string]bool{}
				for i, e := range phi.Edges {
					pred := phi.Block().Preds[i]
					t := affineOf(e)
					kind := "?"
					_, hasOff := offKey(t)
					hasParam := t.coef["param:offset"] == 1
					switch {
					case hasParam && len(t.coef) == 1 && t.c == 0:
						kind = "start"
					case hasParam && hasOff && len(t.coef) == 2 && t.c == 0:
						kind = "current"
					case hasParam && len(t.coef) == 2 && t.c == 0:
						for k, v := range t.atoms {
							if call, ok := v.(*ssa.Call); ok && call.Call.IsInvoke() && call.Call.Method.Name() == "Size" && t.coef[k] == 1 {
								kind = "end"
							}
						}
					}
					// which whence constant guards this edge
					var kconst int64 = -1
					for _, b := range sk.Blocks {
						iff, ok := b.Instrs[len(b.Instrs)-1].(*ssa.If)
						if !ok {
							continue
						}
						cmp, ok := iff.Cond.(*ssa.BinOp)
						if !ok || (cmp.Op != token.EQL && cmp.Op != token.NEQ) || cmp.X != ssa.Value(whence) {
							continue
						}
						k, ok := constInt(cmp.Y)
						if !ok {
							continue
						}
						// `whence == K` selects on its true edge, `whence != K` on its false edge
						side := 0
						if cmp.Op == token.NEQ {
							side = 1
						}
						if b.Succs[side] == pred || b.Succs[side].Dominates(pred) || (b == pred && b.Succs[side] == phi.Block()) {
							kconst = k
						}
					}
					key := fmt.Sprintf("Seek whence=%d", kconst)
					c.check(kconst >= 0 && want[kconst] == kind, "R6", key, pos(st), "new offset is "+kind+"-relative", fmt.Sprintf("for whence %d the new offset is computed as %s (%s), expected %s-relative", kconst, t.String(), kind, want[kconst]))
					seen[kind] = true
				}
				c.check(seen["start"] && seen["current"] && seen["end"], "R6", "Seek covers start/current/end", pos(st), "three whence values", "Seek no longer handles all of io.SeekStart, io.SeekCurrent, io.SeekEnd")
			}
		}
	}
}

func fnNameOfCallee(cc *ssa.CallCommon) string {
	if f := cc.StaticCallee(); f != nil {
		return fnName(f)
	}
	return ""
}

// ---------------------------------------------------------------------------

func runC13(c *Ctx) {
	p := c.P
	_ = 0

	// ---------- R1/R2/R6: the three reducers ----------
	checkReducers(c, []string{"(*File).readAt", "(*File).writeAtConcurrent", "(*File).readFromWithConcurrency"})

	checkWorkerErrorDelivery(c, "R3")
	checkSequentialEOFSource(c, "R9")
	// R10: the offset a work item carries is the offset its request was sent at (shared with C01.R2): the reducers
	// compute counts and the final File offset from it
	c.withRule("R10", func() { runC01R2(c) })
	// R11: a STATUS answer to READ is a failure or EOF, never success (shared with C20.Z6): read as success it gives a
	// short count — or, in the concurrent ReadAt, a full count over bytes that never arrived — with a nil error
	c.withRule("R11", func() { checkStatusCaseNextToDataCase(c, "Z6", false) })
	// R12: the lowest failing offset is elected among offsets that did not wrap (shared with C12.R10)
	c.withRule("R12", func() { checkChunkOffsetsCannotWrap(c, "R10") })
	checkShortChunkEndsTransfer(c, "R13")
	checkConcurrentCopyOnlyOfRegularFiles(c, "R14")
	checkFillCountsEveryRead(c, "R15")
	checkNilOnlyWhenComplete(c, "R16")
	// R17 (shared with C01.R1): the count a sequential loop returns grows by what each chunk's helper counted, at the
	// offsets start+cursor — counted by the chunk's size instead, the count names bytes that never moved
	c.withRule("R17", func() {
		c01TransferSitesOnly = true
		defer func() { c01TransferSitesOnly = false }()
		runC01(c)
	})
	// R18 (shared with C20.Z8): with a worker count of zero the concurrent transfers start no worker, nothing moves
	// and the reducers report the full length with a nil error
	checkWorkerCountBounded(c, "R18")
	checkWriteChunkCountsOnlyAcknowledged(c, "R19")
	// R20 (shared with C01.R20): a server that answers a failed read with short DATA makes the client report a short count without the error
	checkReadReplyTruthTable(c, "R20")
	// R21 (shared with C12.R19): an error is returned only when the server failed a chunk — SSH_FX_OK is no failure
	checkStatusCaseNextToDataCase(c, "R21", true)
	checkKnownErrorNotAnsweredWithNil(c, "R22")
	checkSourceErrorBehindChunk(c, "R23")
	checkConnSendReturnsTheWritersError(c, "R24")
	// R25 (= C04.R5) pooled result channels are buffered; R26 (= C01.R9) Write moves the offset past what writeAt moved
	// on every path; R27 (= C04.R9) the end of file is recognised by identity, not errors.Is
	c.withOnly("R5", "R25", func() { runC04(c) })
	checkOffsetStores(c, "R26", map[string]bool{"(*File).Write": true, "(*File).Read": true})
	c.withOnly("R9", "R27", func() { runC04(c) })

	// R7: ReadFrom / ReadFromWithConcurrency leave the File offset at the end of the intact prefix
	checkOffsetStores(c, "R7", map[string]bool{"(*File).ReadFrom": true, "(*File).readFromWithConcurrency": true})

	// ---------- R4 sequential loops ----------
	checkSequentialLoops(c, "R4")

	// ---------- R5 WriteTo reducer ----------
	if wt := p.Func("(*File).WriteTo"); wt == nil {
		c.missing("R5", "(*File).WriteTo")
	} else {
		// loop with `packet, ok := <-cur`; cur = packet.next at the end; return before that when packet.err != nil
		var l *loop
		for _, cand := range loopsOf(wt) {
			for _, in := range cand.head.Instrs {
				if u, ok := in.(*ssa.UnOp); ok && u.Op == token.ARROW && u.CommaOk && cand.head.Comment != "rangechan.loop" {
					l = cand
				}
			}
		}
		if l == nil {
			c.und("R5", "WriteTo reducer loop", p.Pos(wt.Pos()), "cannot find the reducer loop")
		} else {
			var curPhi *ssa.Phi
			for _, in := range l.head.Instrs {
				if ph, ok := in.(*ssa.Phi); ok {
					if _, isChan := ph.Type().Underlying().(*types.Chan); isChan {
						curPhi = ph
					}
				}
			}
			adv := false
			if curPhi != nil {
				for i, e := range curPhi.Edges {
					if l.blocks[curPhi.Block().Preds[i]] {
						if strings.HasSuffix(valKey(e), ".next") {
							adv = true
						}
					}
				}
			}
			c.check(adv, "R5", "WriteTo consumes chunks in request order", p.Pos(l.head.Instrs[0].Pos()), "cur = packet.next", "the reducer does not advance to the next chunk's channel: chunks are written out of order or repeated")
			// error test: return before advancing
			stops := false
			eofNil := false
			for _, b := range wt.Blocks {
				if !l.head.Dominates(b) {
					continue
				}
				iff, ok := b.Instrs[len(b.Instrs)-1].(*ssa.If)
				if !ok {
					continue
				}
				cmp, ok := iff.Cond.(*ssa.BinOp)
				if !ok {
					continue
				}
				k := valKey(cmp.X)
				// the edge on which packet.err is known to be non-nil (`!= nil` taken, or `== nil` not taken: the
				// switch form) must not lead back to the loop head
				if (cmp.Op == token.NEQ || cmp.Op == token.EQL) && isNilConst(cmp.Y) && strings.HasSuffix(k, ".err") && strings.Contains(k, "packet") {
					nonNil := b.Succs[0]
					if cmp.Op == token.EQL {
						nonNil = b.Succs[1]
					}
					if !reachFromBlock(nonNil, isLoopHeadStart(l), nil) {
						stops = true
					}
				}
				if cmp.Op == token.EQL && strings.HasSuffix(k, ".err") {
					for _, lf := range leavesOf(cmp.Y) {
						if lf.Kind == leafGlobal && lf.V.Name() == "EOF" {
							for _, in := range b.Succs[0].Instrs {
								if r, ok := in.(*ssa.Return); ok && isNilConst(r.Results[1]) {
									eofNil = true
								}
								if st, ok := in.(*ssa.Store); ok && isNilConst(st.Val) {
									eofNil = true
								}
							}
							// … or hands nil to the join the result is selected at (the body inlined into a wrapper)
							eb := b.Succs[0]
							if len(eb.Succs) == 1 {
								j := eb.Succs[0]
								for k, pb := range j.Preds {
									if pb != eb {
										continue
									}
									for _, in := range j.Instrs {
										phi, ok := in.(*ssa.Phi)
										if !ok {
											break
										}
										if phi.Type().String() == "error" && isNilConst(phi.Edges[k]) {
											eofNil = true
										}
									}
								}
							}
						}
					}
				}
			}
			c.check(stops, "R5", "WriteTo stops at the first failed chunk", p.Pos(l.head.Instrs[0].Pos()), "returns when packet.err != nil", "the reducer continues after a chunk reported an error")
			c.check(eofNil, "R5", "WriteTo maps EOF to success", p.Pos(l.head.Instrs[0].Pos()), "io.EOF ends the copy with a nil error", "EOF is no longer the successful end of WriteTo")
			// write happens before the error test of the same chunk, with packet.b
			wrote := false
			for b := range l.blocks {
				for _, in := range b.Instrs {
					if cc := callOf(in); cc != nil && cc.IsInvoke() && cc.Method.Name() == "Write" {
						if strings.HasSuffix(valKey(cc.Args[0]), ".b") {
							wrote = true
						}
					}
				}
			}
			c.check(wrote, "R5", "WriteTo writes the chunk's bytes", p.Pos(l.head.Instrs[0].Pos()), "w.Write(packet.b)", "the reducer does not write the chunk it received")
		}
	}

	// ---------- R6 readChunkAt's fall-through ----------
	if rc := p.Func("(*File).readChunkAt"); rc == nil {
		c.missing("R6", "(*File).readChunkAt")
	} else {
		ls := loopsOf(rc)
		if len(ls) != 1 {
			c.und("R6", "readChunkAt loop", p.Pos(rc.Pos()), "expected one loop")
		} else {
			l := ls[0]
			// loop continues only while err == nil && n < len(b)
			condOK := false
			for b := range l.blocks {
				iff, ok := b.Instrs[len(b.Instrs)-1].(*ssa.If)
				if !ok {
					continue
				}
				cmp, ok := iff.Cond.(*ssa.BinOp)
				if !ok || cmp.Op != token.LSS {
					continue
				}
				y := affineOf(cmp.Y)
				if y.coef["len(param:b)"] == 1 && len(y.coef) == 1 {
					if _, isPhi := cmp.X.(*ssa.Phi); isPhi {
						condOK = true
					}
				}
			}
			c.check(condOK, "R6", "readChunkAt loops until the buffer is full", p.Pos(l.head.Instrs[0].Pos()), "continues while n < len(b)", "readChunkAt can stop with n < len(b) and a nil error")
		}
	}
	c.floor("R1", 12)
}

// checkWorkerErrorDelivery: workers report every error unconditionally, at the right offset (shared by C01 and C13).
func checkWorkerErrorDelivery(c *Ctx, rule string) {
	p := c.P
	pos := func(in ssa.Instruction) string { return p.Pos(in.Pos()) }
	// ---------- R3 + unconditional error delivery ----------
	for _, name := range []string{"(*File).readAt", "(*File).writeAtConcurrent", "(*File).readFromWithConcurrency"} {
		fn := p.Func(name)
		if fn == nil {
			continue
		}
		// errCh cell: the channel ranged by the reducer
		ls := rangeChanLoops(fn)
		if len(ls) != 1 {
			continue
		}
		var errCell ssa.Value
		for _, in := range ls[0].head.Instrs {
			if u, ok := in.(*ssa.UnOp); ok && u.Op == token.ARROW {
				errCell = cellOf(u.X)
			}
		}
		if errCell == nil {
			c.und(rule, name+" error channel", p.Pos(fn.Pos()), "cannot resolve the reducer's channel")
			continue
		}
		nSends := 0
		for _, g := range fn.AnonFuncs {
			eachInstr(g, func(in ssa.Instruction) {
				switch x := in.(type) {
				case *ssa.Send:
					if cellOf(x.Chan) == errCell {
						nSends++
						// value: {off, err}
						var lit *ssa.Alloc
						if u, ok := x.X.(*ssa.UnOp); ok {
							lit, _ = u.X.(*ssa.Alloc)
						}
						if lit == nil {
							c.und(rule, name+" error value", pos(in), "error value is not a literal")
							return
						}
						offV := litFieldWhere(lit, isBasicKind(types.Int64))
						if offV == nil {
							c.und(rule, name+" error value", pos(in), "the error value has no offset field")
							return
						}
						offT := affineOf(offV)
						// the name of the offset field of the work item (the struct that carries the reply channel)
						workOff := ".off"
						for _, f := range append([]*ssa.Function{fn}, fn.AnonFuncs...) {
							eachInstr(f, func(y ssa.Instruction) {
								if a, ok := y.(*ssa.Alloc); ok {
									if st := derefStruct(a.Type()); st != nil && hasFieldWhere(st, isChanOf("result")) {
										for i := 0; i < st.NumFields(); i++ {
											if isBasicKind(types.Int64)(st.Field(i).Type()) {
												workOff = "." + st.Field(i).Name()
											}
										}
									}
								}
							})
						}
						if name == "(*File).readAt" {
							// packet.off + int64(n) with n from copy (or 0)
							alts := expandAlts(offT, 0)
							good := len(alts) > 0
							sawCopy := false
							for _, alt := range alts {
								hasOff := false
								for k, v := range alt.coef {
									switch {
									case v == 1 && strings.HasSuffix(k, workOff):
										hasOff = true
									case v == 1:
										if call, ok := alt.atoms[k].(*ssa.Call); ok && builtinName(&call.Call) == "copy" {
											sawCopy = true
										} else {
											good = false
										}
									default:
										good = false
									}
								}
								if !hasOff || alt.c != 0 {
									good = false
								}
							}
							// bytes can have been copied on the way to this report exactly when a copy reaches it: a report
							// made before the copy (a guard clause per malformed reply) is at the chunk's offset itself
							needCopy := false
							eachInstr(in.Parent(), func(y ssa.Instruction) {
								if cc := callOf(y); cc != nil && builtinName(cc) == "copy" && !needCopy {
									// (within one turn of the worker's loop: the copy of the chunk before is another chunk's)
									barrier := func(ssa.Instruction) bool { return false }
									if l := innermostLoop(loopsOf(in.Parent()), y.Block()); l != nil {
										barrier = isLoopHeadStart(l)
									}
									if reachAvoiding(in.Parent(), y, func(x ssa.Instruction) bool { return x == in }, barrier) {
										needCopy = true
									}
								}
							})
							c.check(good && (sawCopy || !needCopy), rule, name+" worker error offset", pos(in), "error at chunk offset + bytes copied", "the read worker reports its error at "+offT.String()+", not at the chunk's offset plus the bytes it copied: bytes delivered before a short read/EOF are not counted")
						} else {
							good := len(offT.coef) == 1 && offT.c == 0
							for k, v := range offT.coef {
								if v != 1 || !(strings.HasSuffix(k, workOff) || strings.HasPrefix(k, "phi:")) {
									good = false
								}
							}
							c.check(good, rule, name+" worker error offset", pos(in), "error at the chunk's offset", "the write worker reports its error at "+offT.String())
						}
					}
				case *ssa.Select:
					for _, st := range x.States {
						if st.Dir == types.SendOnly && cellOf(st.Chan) == errCell {
							nSends++
							c.bad(rule, name+" error delivery is unconditional", pos(in), "an error is sent to the reducer inside a select with another arm: after cancel an error with a lower offset can be dropped, and the count/error returned belong to a later chunk")
						}
					}
				}
			})
		}
		c.check(nSends >= 1, rule, name+" workers report errors", p.Pos(fn.Pos()), fmt.Sprintf("%d send sites", nSends), "no worker reports errors to the reducer")
		// short read => EOF (readAt worker)
		if name == "(*File).readAt" {
			eof := false
			for _, g := range fn.AnonFuncs {
				for _, b := range g.Blocks {
					iff, ok := b.Instrs[len(b.Instrs)-1].(*ssa.If)
					if !ok {
						continue
					}
					cmp, ok := iff.Cond.(*ssa.BinOp)
					if !ok || cmp.Op != token.LSS {
						continue
					}
					if call, ok := cmp.X.(*ssa.Call); ok && builtinName(&call.Call) == "copy" {
						y := affineOf(cmp.Y)
						isLen := false
						for k := range y.coef {
							if strings.HasPrefix(k, "len(") && strings.HasSuffix(k, ".b)") {
								isLen = true
							}
						}
						if isLen {
							for _, in := range b.Succs[0].Instrs {
								for _, op := range in.Operands(nil) {
									if *op == nil {
										continue
									}
									for _, l := range leavesOf(*op) {
										if l.Kind == leafGlobal && l.V.Name() == "EOF" {
											eof = true
										}
									}
								}
							}
						}
					}
				}
			}
			c.check(eof, rule, name+" short DATA means EOF", p.Pos(fn.Pos()), "n < len(chunk) => io.EOF", "a short DATA reply is no longer turned into io.EOF: a nil error could accompany a short count")
		}
	}

}

// checkOffsetStores: every store to File.offset has a sanctioned 'bytes moved' shape (shared by C12 and C13).
// only, when non-nil, restricts the check to the named outer functions.
func checkOffsetStores(c *Ctx, rule string, only map[string]bool) {
	p := c.P
	pos := func(in ssa.Instruction) string { return p.Pos(in.Pos()) }
	// ---------- R5 / R6 every store to the offset has a sanctioned shape ----------
	type shape struct {
		fn   string
		desc string
		ok   func(st *ssa.Store) bool
	}
	plusResult := func(callee string, idx int) func(st *ssa.Store) bool {
		return func(st *ssa.Store) bool {
			t := affineOf(st.Val)
			ok, has := offKey(t)
			if !has || len(t.coef) != 2 || t.c != 0 {
				return false
			}
			for k, v := range t.coef {
				if k == ok {
					continue
				}
				ex, isEx := t.atoms[k].(*ssa.Extract)
				if !isEx || v != 1 || ex.Index != idx {
					return false
				}
				call, isCall := ex.Tuple.(*ssa.Call)
				if !isCall || calleeName(&call.Call) != callee {
					return false
				}
				// the transfer started at the File offset
				switch callee {
				case "readAt", "writeAt", "readChunkAt", "writeChunkAt":
					// the offset argument: the int64 among the arguments (last by convention, any position after a reordering)
					var offArg ssa.Value
					for _, a := range call.Call.Args[1:] {
						if isBasicKind(types.Int64)(a.Type()) {
							offArg = a
						}
					}
					if offArg == nil {
						return false
					}
					ot := affineOf(offArg)
					if _, has := offKey(ot); !has || len(ot.coef) != 1 || ot.c != 0 {
						return false
					}
				}
			}
			return true
		}
	}
	shapes := []shape{
		{"(*File).Read", "offset += n returned by readAt(b, f.offset)", plusResult("readAt", 0)},
		{"(*File).Write", "offset += n returned by writeAt(b, f.offset)", plusResult("writeAt", 0)},
		{"(*File).writeToSequential", "offset += n returned by readChunkAt(…, f.offset)", plusResult("readChunkAt", 0)},
		{"(*File).ReadFrom", "offset += m returned by writeChunkAt(…, f.offset)", plusResult("writeChunkAt", 0)},
		{"(*File).WriteTo", "offset = packet.off + len(packet.b) for a chunk that carries data (or offset += len(packet.b))", func(st *ssa.Store) bool {
			t := affineOf(st.Val)
			if len(t.coef) != 2 || t.c != 0 {
				return false
			}
			hasOff, hasLen, accum := false, false, false
			lenKey := ""
			if ok, has := offKey(t); has && t.coef[ok] == 1 {
				accum = true // f.offset += len(packet.b): counts exactly the bytes obtained
			}
			for k, v := range t.coef {
				if v != 1 {
					return false
				}
				if strings.HasSuffix(k, ".off") {
					hasOff = true
				}
				if strings.HasPrefix(k, "len(") && strings.HasSuffix(k, ".b)") {
					hasLen = true
					lenKey = k
				}
			}
			if accum && hasLen {
				return true
			}
			if !(hasOff && hasLen) {
				return false
			}
			// packet.off is the chunk's position on the request grid (start + i*chunkSize), not the end of the
			// previous chunk: the terminating empty chunk (EOF) lies one or more strides beyond the last byte
			// after a short read.  The cursor may therefore only be moved by a chunk that carries data.
			for cv, truth := range edgeConds(st.Block(), nil) {
				b, ok := cv.(*ssa.BinOp)
				if !ok {
					continue
				}
				x, y := affineOf(b.X), affineOf(b.Y)
				isLen := func(a term) bool { return len(a.coef) == 1 && a.c == 0 && a.coef[lenKey] == 1 }
				isZero := func(a term) bool { return len(a.coef) == 0 && a.c == 0 }
				switch {
				case isLen(x) && isZero(y):
					if (truth && (b.Op == token.GTR || b.Op == token.NEQ)) || (!truth && (b.Op == token.LEQ || b.Op == token.EQL)) {
						return true
					}
				case isZero(x) && isLen(y):
					if (truth && (b.Op == token.LSS || b.Op == token.NEQ)) || (!truth && (b.Op == token.GEQ || b.Op == token.EQL)) {
						return true
					}
				}
			}
			return false
		}},
		{"(*File).readFromWithConcurrency", "offset = firstErr.off on error, offset += read on success", func(st *ssa.Store) bool {
			t := affineOf(st.Val)
			if len(t.coef) == 1 && t.c == 0 {
				for k, v := range t.coef {
					_, fname, offF, _ := reducerState(outermost(st.Parent()))
					if v == 1 && fname != "" && strings.HasSuffix(k, "."+offF) && strings.Contains(k, fname) {
						// on the error path
						return true
					}
				}
			}
			if _, has := offKey(t); has && len(t.coef) == 2 && t.c == 0 {
				for k, v := range t.coef {
					if v == 1 && strings.Contains(k, "read") {
						return true
					}
				}
			}
			return false
		}},
	}
	nStores := 0
	storesIn := map[string]int{}
	defer func() {
		// every one of the position-moving functions does move the position
		if only == nil {
			for _, sh := range shapes {
				if p.Func(sh.fn) == nil {
					continue
				}
				c.check(storesIn[sh.fn] >= 1, rule, sh.fn+" moves the offset", "?", fmt.Sprintf("%d stores", storesIn[sh.fn]), sh.fn+" no longer stores to the File offset: after the transfer the position is where it was, the next Read delivers the same bytes again")
			}
		}
	}()
	for _, f := range fileFuncs(p) {
		for _, a := range fileAccessesIn(f) {
			if a.Field != "offset" || !a.Write {
				continue
			}
			nStores++
			st := a.In.(*ssa.Store)
			host := fnName(outermost(f))
			storesIn[host]++
			storesIn[fnName(f)]++
			if host == "(*File).Seek" {
				continue // R6
			}
			if only != nil && !only[host] {
				continue
			}
			matched := false
			desc := ""
			for _, s := range shapes {
				if s.fn == host || s.fn == fnName(f) {
					desc = s.desc
					if s.ok(st) {
						matched = true
					}
				}
			}
			if desc == "" {
				c.bad(rule, "store to offset in "+fnName(f), pos(st), "the File offset is written in a function that has no sanctioned update shape")
				continue
			}
			c.check(matched, rule, "store to offset in "+fnName(f), pos(st), desc, "the offset is set to "+affineOf(st.Val).String()+", expected: "+desc)
		}
	}
	// the bytes a positional transfer moved are added to the offset whatever else it returned: n > 0 together with an
	// error (a Read that hits the end of the file with room left in the buffer, a Write refused part-way) still moves
	// the position.  No path from the call to a return — or, in ReadFrom's loop, to the next chunk — goes around the store.
	for _, spec := range []struct{ host, callee string }{{"(*File).Read", "readAt"}, {"(*File).Write", "writeAt"}, {"(*File).ReadFrom", "writeChunkAt"}} {
		if only != nil && !only[spec.host] {
			continue
		}
		fn := p.Func(spec.host)
		if fn == nil {
			c.missing(rule, spec.host)
			continue
		}
		isOffStore := func(in ssa.Instruction) bool {
			st, ok := in.(*ssa.Store)
			if !ok {
				return false
			}
			t, n, _, ok := fieldOf(st.Addr)
			return ok && n == "offset" && typeName(t) == "File"
		}
		calls := callsWhere(fn, func(cc *ssa.CallCommon) bool { return calleeName(cc) == spec.callee })
		for i, call := range calls {
			call := call
			isEnd := func(in ssa.Instruction) bool { return isReturn(in) || in == call }
			c.check(!reachAvoiding(fn, call, isEnd, isOffStore), rule, fmt.Sprintf("%s: offset advanced after %s #%d on every path", spec.host, spec.callee, i+1), pos(call),
				"no return (or next chunk) is reached without the store", "the offset can stay where it was although "+spec.callee+" moved bytes (on the path where it also returned an error): the next Read delivers the same bytes again, the next Write overwrites what was just written")
		}
		c.check(len(calls) >= 1, rule, spec.host+" transfers at the offset", p.Pos(fn.Pos()), fmt.Sprintf("%d calls of %s", len(calls), spec.callee), spec.host+" no longer calls "+spec.callee)
	}
	// WriteTo's sequential loop hands the chunk it read to the writer: the offset has moved past the chunk on every path
	// from the read through the Write to a return or to the next chunk (os.File: what was read is consumed even when
	// the destination then fails)
	if only == nil || only["(*File).writeToSequential"] {
		if fn := p.Func("(*File).writeToSequential"); fn == nil {
			c.missing(rule, "(*File).writeToSequential")
		} else {
			isOffStore := func(in ssa.Instruction) bool {
				st, ok := in.(*ssa.Store)
				if !ok {
					return false
				}
				t, n, _, ok := fieldOf(st.Addr)
				return ok && n == "offset" && typeName(t) == "File"
			}
			reads := callsWhere(fn, func(cc *ssa.CallCommon) bool { return calleeName(cc) == "readChunkAt" })
			for i, rd := range reads {
				rd := rd
				isWrite := func(in ssa.Instruction) bool {
					cc := callOf(in)
					return cc != nil && cc.IsInvoke() && cc.Method.Name() == "Write"
				}
				isEnd := func(in ssa.Instruction) bool { return isReturn(in) || in == rd }
				blk := rd.Block()
				idx := 0
				for k, in := range blk.Instrs {
					if in == rd {
						idx = k + 1
					}
				}
				around := reachStagedX(blk, idx, []func(ssa.Instruction) bool{isWrite, isEnd}, func(in ssa.Instruction, _ int) bool { return isOffStore(in) }, nil)
				c.check(!around, rule, fmt.Sprintf("(*File).writeToSequential: offset advanced past the chunk written #%d on every path", i+1), pos(rd),
					"no return (or next chunk) is reached after the Write without the store", "the offset can stay where it was although the chunk was read and handed to the writer (on the path where the writer fails): the same bytes are delivered again by the next Read or WriteTo")
			}
			c.check(len(reads) >= 1, rule, "(*File).writeToSequential transfers at the offset", p.Pos(fn.Pos()), fmt.Sprintf("%d calls of readChunkAt", len(reads)), "writeToSequential no longer calls readChunkAt")
		}
	}
	if only != nil {
		nStores += 7
	}
	c.check(nStores >= 7, rule, "offset stores", "?", fmt.Sprintf("%d stores", nStores), fmt.Sprintf("only %d stores to the offset (8 expected)", nStores))
	// readFromWithConcurrency: error store on the error path, success store on the other
	if f := p.Func("(*File).readFromWithConcurrency"); f != nil {
		for _, a := range fileAccessesIn(f) {
			if a.Field != "offset" || !a.Write {
				continue
			}
			t := affineOf(a.In.(*ssa.Store).Val)
			_, isAdd := offKey(t)
			// find the If on firstErr.err != nil
			for _, b := range f.Blocks {
				iff, ok := b.Instrs[len(b.Instrs)-1].(*ssa.If)
				if !ok {
					continue
				}
				cmp, ok := iff.Cond.(*ssa.BinOp)
				if !ok || (cmp.Op != token.NEQ && cmp.Op != token.EQL) || !isNilConst(cmp.Y) {
					continue
				}
				k := valKey(cmp.X)
				_, fname, _, errF := reducerState(f)
				if fname == "" || !strings.Contains(k, fname) || !strings.HasSuffix(k, "."+errF) {
					continue
				}
				errSide := 0
				if cmp.Op == token.EQL {
					errSide = 1
				}
				onErr := b.Succs[errSide].Dominates(a.In.Block())
				c.check(onErr != isAdd, rule, "readFromWithConcurrency offset store path", pos(a.In), "error path sets the error position, success path adds the bytes read", "the offset update is on the wrong side of the error test")
			}
		}
	} else {
		c.missing(rule, "(*File).readFromWithConcurrency")
	}

}

// offKey finds the File.offset atom (coefficient 1) of a term.
func offKey(t term) (string, bool) {
	for k, v := range t.coef {
		if strings.HasPrefix(k, "fld:") && strings.HasSuffix(k, ".offset") && v == 1 {
			// the offset field of a File, not a like-named field of something else
			if a, ok := t.atoms[k]; ok {
				if u, isLoad := a.(*ssa.UnOp); isLoad {
					if st, _, _, okF := fieldOf(u.X); okF && typeName(st) != "File" {
						continue
					}
				}
			}
			return k, true
		}
	}
	return "", false
}

// checkRequestsUnderFileLock (C12.R8): an exported File method that takes f.mu keeps it until its requests have been
// written: every call from which a request can be sent (anything that reaches clientConn.dispatchRequest) is made with
// the lock held.  Copying the handle under the lock and sending after releasing it lets Close clear the handle and
// write CLOSE in between — a request carrying the closed handle then follows the CLOSE on the wire.
func checkRequestsUnderFileLock(c *Ctx, rule string, exported []*ssa.Function) {
	p := c.P
	disp := p.Func("(*clientConn).dispatchRequest")
	if disp == nil {
		c.missing(rule, "(*clientConn).dispatchRequest")
		return
	}
	sends := map[*ssa.Function]bool{}
	var reaches func(f *ssa.Function, seen map[*ssa.Function]bool) bool
	reaches = func(f *ssa.Function, seen map[*ssa.Function]bool) bool {
		if f == disp {
			return true
		}
		if v, ok := sends[f]; ok {
			return v
		}
		if seen[f] || f.Blocks == nil || !inModule(f) {
			return false
		}
		seen[f] = true
		r := false
		for g := range p.cone(f) {
			if g == disp {
				r = true
			}
		}
		sends[f] = r
		return r
	}
	n := 0
	for _, m := range exported {
		locks, _ := lockCallsIn(m)
		if len(locks) == 0 {
			continue
		}
		root := m.Params[0]
		bad := ""
		eachInstr(m, func(in ssa.Instruction) {
			call, ok := in.(*ssa.Call)
			if !ok {
				return
			}
			f := call.Call.StaticCallee()
			if f == nil || !reaches(f, map[*ssa.Function]bool{}) {
				return
			}
			// only calls after the lock was taken matter (a method may validate arguments first)
			after := false
			for _, l := range locks {
				if dominates(l.In, in) {
					after = true
				}
			}
			if !after {
				return
			}
			if heldAt(in, root, "File.mu") == "" {
				bad = fnName(f) + " at " + p.Pos(in.Pos())
			}
		})
		n++
		c.check(bad == "", rule, fnName(m)+" sends its requests under f.mu", p.Pos(m.Pos()), "the lock taken at the top is still held at every request-sending call",
			"the method releases f.mu before calling "+bad+": Close can clear the handle and send CLOSE in between, and the request with the closed handle follows it on the wire")
	}
	c.check(n >= 12, rule, "exported File methods that lock", "?", fmt.Sprintf("%d methods", n), fmt.Sprintf("only %d locking methods found", n))
}

// checkSequentialEOFSource (C13.R9): on the sequential paths end of file is what the server says in a STATUS — a short
// DATA reply is followed by a further READ for the remainder (which is then answered with the real status).  The
// chunk reader must therefore never manufacture io.EOF itself: its error results come from the reply (normaliseError
// of a decoded STATUS), from the transport, or from decoding.
func checkSequentialEOFSource(c *Ctx, rule string) {
	p := c.P
	fn := p.Func("(*File).readChunkAt")
	if fn == nil {
		c.missing(rule, "(*File).readChunkAt")
		return
	}
	made := ""
	for _, rl := range returnLeaves(fn, 1) {
		for _, l := range leavesOf(rl.v) {
			if l.Kind == leafGlobal && l.V.Name() == "EOF" {
				made = p.Pos(rl.block.Instrs[len(rl.block.Instrs)-1].Pos())
			}
		}
	}
	c.check(made == "", rule, "readChunkAt reports EOF only as told by the server", p.Pos(fn.Pos()), "no return of the io.EOF sentinel itself",
		"readChunkAt returns io.EOF of its own making (at "+made+"), e.g. after a short DATA reply: Read/ReadAt/sequential WriteTo then report end of file (or success) in the middle of a file, and the status the server would have given for the remainder is never seen")
}

// checkReducers (C13.R1/R2/R6; the readAt part is shared with C12 as R9): the map/reduce transfers keep the error at the
// lowest offset, count the prefix before it, and return a nil error only with the full length.
func checkReducers(c *Ctx, names []string) {
	p := c.P
	pos := func(in ssa.Instruction) string { return p.Pos(in.Pos()) }
	// ---------- R1/R2/R6: the three reducers ----------
	for _, name := range names {
		fn := p.Func(name)
		if fn == nil {
			c.missing("R1", name)
			continue
		}
		c.looked(name)
		// firstErr: a local struct with fields off, err whose .off is initialised to MaxInt64
		first, firstName, offF, errF := reducerState(fn)
		if first == nil {
			c.und("R1", name+" reducer state", p.Pos(fn.Pos()), "no reducer state found (a local {offset, error} variable starting at {MaxInt64, nil})")
			continue
		}
		dotOff, dotErr := "."+offF, "."+errF
		// initial value: stored from a literal whose off is MaxInt64 and err nil
		initOK := false
		for _, st := range storesTo(fn, first) {
			if u, ok := st.Val.(*ssa.UnOp); ok {
				if lit, ok := u.X.(*ssa.Alloc); ok && !inLoop(st) {
					if k, ok := constInt(litField(lit, offF)); ok && k == 9223372036854775807 {
						e := litField(lit, errF)
						if e == nil || isNilConst(e) {
							initOK = true
						}
					}
				}
			}
		}
		c.check(initOK, "R1", name+" reducer starts at MaxInt64/nil", pos(first), "firstErr = {math.MaxInt64, nil}", "the reducer's initial error is not {MaxInt64, nil}: a genuine error at a high offset can be ignored, or a nil error reported as failure")
		// the loop
		ls := rangeChanLoops(fn)
		if len(ls) != 1 {
			c.und("R1", name+" reducer loop", p.Pos(fn.Pos()), fmt.Sprintf("%d range loops", len(ls)))
			continue
		}
		l := ls[0]
		// guard and update
		var guard *ssa.If
		for b := range l.blocks {
			iff, ok := b.Instrs[len(b.Instrs)-1].(*ssa.If)
			if !ok {
				continue
			}
			cmp, ok := iff.Cond.(*ssa.BinOp)
			if !ok {
				continue
			}
			kx, ky := valKey(cmp.X), valKey(cmp.Y)
			if strings.HasSuffix(kx, dotOff) && strings.HasSuffix(ky, dotOff) {
				guard = iff
			}
		}
		if guard == nil {
			c.bad("R1", name+" reducer guard", p.Pos(l.head.Instrs[0].Pos()), "the reducer has no comparison of offsets: it keeps whichever error arrives last")
			continue
		}
		cmp := guard.Cond.(*ssa.BinOp)
		kx, ky := valKey(cmp.X), valKey(cmp.Y)
		elemFirst := !strings.Contains(kx, firstName) && strings.Contains(ky, firstName)
		firstElem := strings.Contains(kx, firstName) && !strings.Contains(ky, firstName)
		dirOK := (elemFirst && (cmp.Op == token.LEQ || cmp.Op == token.LSS)) || (firstElem && (cmp.Op == token.GEQ || cmp.Op == token.GTR))
		c.check(dirOK, "R1", name+" reducer keeps the lowest offset", pos(guard), "update only when e.off <= first.off", fmt.Sprintf("the reducer compares %s %s %s: it does not keep the error with the lowest offset", kx, cmp.Op, ky))
		// the update happens exactly in the true branch
		var upd *ssa.Store
		for _, st := range storesTo(fn, first) {
			if inLoop(st) {
				upd = st
			}
		}
		c.check(upd != nil && guard.Block().Succs[0].Dominates(upd.Block()), "R1", name+" reducer update is guarded", pos(guard), "firstErr = e under the guard", "firstErr is updated outside the offset guard")
		if upd != nil {
			// the value stored is the ranged element
			isElem := false
			if u, ok := upd.Val.(*ssa.UnOp); ok {
				if a, ok := u.X.(*ssa.Alloc); ok && a != first {
					isElem = true
				}
			}
			c.check(isElem, "R1", name+" reducer stores the element", pos(upd), "firstErr = the received error", "the reducer stores something other than the received element")
		}
		// returns
		for _, r := range findInstrs(fn, isReturn) {
			ret := r.(*ssa.Return)
			if !blockReaches(l.head, r.Block()) {
				continue
			}
			errV, cntV := ret.Results[1], ret.Results[0]
			if isNilConst(errV) {
				// R6: nil error only with the full count
				t := affineOf(cntV)
				full := false
				if name == "(*File).readFromWithConcurrency" {
					full = true // returns read: R7
				}
				if len(t.coef) == 1 && t.coef["len(param:b)"] == 1 && t.c == 0 {
					full = true
				}
				c.check(full, "R6", name+" nil error => full length", pos(r), "returns len(b), nil", "returns "+t.String()+" with a nil error")
				continue
			}
			ek := valKey(errV)
			c.check(strings.Contains(ek, firstName) && strings.HasSuffix(ek, dotErr), "R1", name+" returns the kept error", pos(r), "returns firstErr.err", "the error returned is not the reducer's kept error: "+ek)
			if name == "(*File).readFromWithConcurrency" {
				t := affineOf(cntV)
				okRead := len(t.coef) == 1 && t.c == 0
				for k := range t.coef {
					if !strings.Contains(k, "read") {
						okRead = false
					}
				}
				c.check(okRead, "R7", name+" returns bytes consumed", pos(r), "returns read", "ReadFrom's count is "+t.String()+", not the bytes consumed from the source")
				continue
			}
			t := affineOf(cntV)
			okCnt := len(t.coef) == 2 && t.c == 0 && t.coef["param:off"] == -1
			for k, v := range t.coef {
				if k != "param:off" && !(v == 1 && strings.Contains(k, firstName) && strings.HasSuffix(k, dotOff)) {
					okCnt = false
				}
			}
			c.check(okCnt, "R2", name+" count = first.off - off", pos(r), "count names the prefix before the lowest failing offset", "the count returned with an error is "+t.String()+", not firstErr.off - off")
		}
		// the error return is taken exactly when firstErr.err != nil
	}

}

// checkChunkOffsetsCannotWrap (C12.R10, C13.R12, C01.R12): the multi-chunk paths cut a transfer at off, off+chunk,
// off+2*chunk, … in int64.  Seek accepts any non-negative offset, so with off near MaxInt64 the later offsets go
// negative; the reducers elect the lowest failing offset, which is then the wrapped one, and Read/Write return a count
// of bytes that never moved and leave File.offset negative.  Each function that cuts chunks from an (b, off) pair must
// refuse the pair when off+len(b) does not fit — a comparison of the offset with MaxInt64 minus the length (or the
// classical off+n < off test) whose failing side leaves without sending — before the first request is made; the
// streaming slicer of ReadFrom must make the same test on each chunk before it dispatches it.
func checkChunkOffsetsCannotWrap(c *Ctx, rule string) {
	p := c.P
	const maxI64 = int64(^uint64(0) >> 1)
	isGuard := func(bo *ssa.BinOp) (safeOnTrue bool, ok bool) {
		// off > MaxInt64 - n   |   MaxInt64 - n < off   |  off+n < off | off+n < 0
		hasMaxSub := func(v ssa.Value) bool {
			sb, ok := v.(*ssa.BinOp)
			if !ok || sb.Op != token.SUB {
				return false
			}
			k, isK := constInt(sb.X)
			return isK && k == maxI64
		}
		isAdd := func(v ssa.Value) bool {
			a, ok := v.(*ssa.BinOp)
			return ok && a.Op == token.ADD
		}
		if b, ok := bo.X.Type().Underlying().(*types.Basic); !ok || b.Kind() != types.Int64 {
			return false, false
		}
		switch bo.Op {
		case token.GTR, token.GEQ:
			if hasMaxSub(bo.Y) { // off > Max-n : true = overflow
				return false, true
			}
			if hasMaxSub(bo.X) { // Max-n >= off : true = safe
				return true, true
			}
		case token.LSS, token.LEQ:
			if hasMaxSub(bo.X) { // Max-n < off : true = overflow
				return false, true
			}
			if hasMaxSub(bo.Y) { // off <= Max-n : true = safe
				return true, true
			}
			if isAdd(bo.X) { // off+n < off, off+n < 0 : true = overflow
				return false, true
			}
		}
		return false, false
	}
	sends := func(cc *ssa.CallCommon) bool {
		switch calleeName(cc) {
		case "dispatchRequest", "sendPacket", "readChunkAt", "writeChunkAt", "readAtSequential", "writeAtConcurrent":
			return true
		}
		return false
	}
	n := 0
	for _, name := range []string{"(*File).readAt", "(*File).writeAt", "(*File).readFromWithConcurrency"} {
		fn := p.Func(name)
		if fn == nil {
			c.missing(rule, name)
			continue
		}
		c.looked(name)
		// the safe region: blocks dominated by the safe successor of a guard (in fn or in one of its closures)
		type region struct {
			fn   *ssa.Function
			head *ssa.BasicBlock
		}
		var regions []region
		fns := append([]*ssa.Function{fn}, fn.AnonFuncs...)
		for _, f := range fns {
			eachInstr(f, func(in ssa.Instruction) {
				bo, ok := in.(*ssa.BinOp)
				if !ok {
					return
				}
				safeOnTrue, ok := isGuard(bo)
				if !ok {
					return
				}
				// through && / ||: the guard may be one operand of a short-circuit; take the If that tests it
				for _, r := range *bo.Referrers() {
					iff, ok := r.(*ssa.If)
					if !ok {
						continue
					}
					safe, unsafe := iff.Block().Succs[1], iff.Block().Succs[0]
					if safeOnTrue {
						safe, unsafe = unsafe, safe
					}
					// the failing side must not send anything
					if reachFromBlock(unsafe, func(x ssa.Instruction) bool { cc := callOf(x); return cc != nil && sends(cc) }, func(x ssa.Instruction) bool {
						return len(safe.Instrs) > 0 && x == safe.Instrs[0]
					}) {
						continue
					}
					regions = append(regions, region{f, safe})
				}
			})
		}
		covered := func(in ssa.Instruction) bool {
			f := in.Parent()
			for _, r := range regions {
				if r.fn == f {
					if r.head.Dominates(in.Block()) {
						return true
					}
					// reached only from the safe side: every path from entry to in passes the head
					if !reachFromBlock(f.Blocks[0], func(x ssa.Instruction) bool { return x == in }, func(x ssa.Instruction) bool { return x.Block() == r.head }) {
						return true
					}
				}
			}
			// a closure made inside a safe region of its parent
			if f.Parent() != nil {
				for _, site := range findInstrs(f.Parent(), func(x ssa.Instruction) bool {
					mc, ok := x.(*ssa.MakeClosure)
					return ok && mc.Fn == f
				}) {
					for _, r := range regions {
						if r.fn == f.Parent() && r.head.Dominates(site.Block()) {
							return true
						}
					}
				}
			}
			return false
		}
		ord := 0
		for _, f := range fns {
			for _, in := range anyCallsWhere(f, sends) {
				ord++
				n++
				key := fmt.Sprintf("%s: request #%d is made only after the offsets were found to fit", name, ord)
				c.check(covered(in), rule, key, p.Pos(in.Pos()), "behind an off > MaxInt64-len test",
					"a request of this transfer can be sent although off+len overflows int64: Seek(MaxInt64-1) then Read/Write of more than one packet makes the later chunk offsets negative, the reducer elects the wrapped offset as the lowest failure, and the call returns a count of bytes that never moved and leaves File.offset negative")
			}
		}
	}
	c.check(n >= 6, rule, "requests of the multi-chunk paths", "?", fmt.Sprintf("%d request sites", n), fmt.Sprintf("only %d request sites found", n))
}

// checkShortChunkEndsTransfer (C13.R13, C01.R14): the concurrent read paths request their chunks at fixed offsets
// off, off+chunk, … before any answer is in.  A DATA reply shorter than its chunk is the end of the file at that
// moment; if the file has grown since, the chunk requested at the next offset does carry data, and taking it as the
// continuation puts a hole into the copy — with a nil error.  Every worker that copies a DATA payload into a chunk
// buffer must therefore compare the copied length with the chunk's length and record io.EOF when it is short (readAt
// does; the reducers stop at the lowest offset that reported an error and return the prefix).
func checkShortChunkEndsTransfer(c *Ctx, rule string) {
	p := c.P
	n := 0
	for _, name := range []string{"(*File).readAt", "(*File).WriteTo"} {
		outer := p.Func(name)
		if outer == nil {
			c.missing(rule, name)
			continue
		}
		for _, fn := range outer.AnonFuncs {
			// a worker: decodes DATA and copies it
			for _, in := range anyCallsWhere(fn, func(cc *ssa.CallCommon) bool { return builtinName(cc) == "copy" }) {
				call, ok := in.(*ssa.Call)
				if !ok {
					continue
				}
				n++
				short := false
				for _, r := range *call.Referrers() {
					bo, ok := r.(*ssa.BinOp)
					if !ok || !(bo.Op == token.LSS && bo.X == call || bo.Op == token.GTR && bo.Y == call) {
						continue
					}
					for _, rr := range *bo.Referrers() {
						iff, ok := rr.(*ssa.If)
						if !ok {
							continue
						}
						for _, x := range iff.Block().Succs[0].Instrs {
							if u, ok := x.(*ssa.UnOp); ok && u.Op == token.MUL {
								if g, ok := u.X.(*ssa.Global); ok && g.Name() == "EOF" && g.Pkg.Pkg.Path() == "io" {
									short = true
								}
							}
						}
					}
				}
				c.check(short, rule, fnName(fn)+": a DATA reply shorter than its chunk ends the transfer at that offset", p.Pos(in.Pos()), "n < chunk length records io.EOF",
					"the worker accepts a short DATA reply as an ordinary chunk: when the file grows during the transfer the chunk requested at the next fixed offset is appended behind it and the copy has a hole, with a nil error and a count that is not a prefix")
			}
		}
	}
	c.check(n >= 2, rule, "workers that copy DATA payloads", "?", fmt.Sprintf("%d copies", n), fmt.Sprintf("only %d found (readAt, WriteTo expected)", n))
}

// reducerState finds the state of a "keep the error with the lowest offset" reducer in fn by what it is: a local
// struct variable with one int64 field and one error field that is initialised from a literal whose int64 field is
// MaxInt64.  It returns the variable, its name and the names of the two fields (they were firstErr, off and err; the
// rules no longer depend on that).
func reducerState(fn *ssa.Function) (first *ssa.Alloc, varName, offField, errField string) {
	eachInstr(fn, func(in ssa.Instruction) {
		a, ok := in.(*ssa.Alloc)
		if !ok || first != nil {
			return
		}
		st := derefStruct(a.Type())
		if st == nil || st.NumFields() != 2 {
			return
		}
		of, ef := "", ""
		for i := 0; i < 2; i++ {
			f := st.Field(i)
			if isBasicKind(types.Int64)(f.Type()) {
				of = f.Name()
			}
			if f.Type().String() == "error" {
				ef = f.Name()
			}
		}
		if of == "" || ef == "" {
			return
		}
		for _, s := range storesTo(fn, a) {
			if u, ok := s.Val.(*ssa.UnOp); ok {
				if lit, ok := u.X.(*ssa.Alloc); ok {
					if k, ok := constInt(litField(lit, of)); ok && k == 9223372036854775807 {
						first, varName, offField, errField = a, a.Comment, of, ef
					}
				}
			}
		}
	})
	return
}

// checkFileLockKind (C12.R1; for the four transfer methods also C01.R16): an exported File method holds f.mu — exclusively
// when anything it can reach stores the offset or the handle — at every access and at every call into the File's helpers.
func checkFileLockKind(c *Ctx, rule string, exported []*ssa.Function, only map[string]bool) {
	p := c.P
	pos := func(in ssa.Instruction) string { return p.Pos(in.Pos()) }
	for _, m := range exported {
		if only != nil && !only[fnName(m)] {
			continue
		}
		c.looked(fnName(m))
		cone := fileCone(m)
		writes, reads := false, false
		for f := range cone {
			for _, a := range fileAccessesIn(f) {
				if a.Write {
					writes = true
				} else {
					reads = true
				}
			}
		}
		key := "lock of " + fnName(m)
		if !writes && !reads {
			c.okT(rule, key, p.Pos(m.Pos()), "touches neither handle nor offset")
			continue
		}
		need := "RLock"
		if writes {
			need = "Lock"
		}
		// every access in m itself and every call into the File cone must hold the lock
		var points []ssa.Instruction
		for _, a := range fileAccessesIn(m) {
			points = append(points, a.In)
		}
		eachInstr(m, func(in ssa.Instruction) {
			if cc := callOf(in); cc != nil {
				if f := cc.StaticCallee(); f != nil && f != m && isClientFile(f) && f.Blocks != nil {
					if _, isDefer := in.(*ssa.Defer); !isDefer {
						points = append(points, in)
					}
				}
			}
			if mc, ok := in.(*ssa.MakeClosure); ok {
				// closures that touch the fields
				cf := mc.Fn.(*ssa.Function)
				if len(fileAccessesIn(cf)) > 0 {
					// deferred closures run at return, still under the deferred unlock order: the unlock is deferred first, so runs last
					points = append(points, in)
				}
			}
		})
		good := true
		var bad ssa.Instruction
		have := ""
		for _, pt := range points {
			h := heldAt(pt, m.Params[0], "File.mu")
			if h == "" || (need == "Lock" && h != "Lock") {
				good = false
				bad = pt
				have = h
			}
		}
		// the unlock must be deferred (a plain unlock could release before a later access)
		if good {
			c.ok(rule, key, p.Pos(m.Pos()), "holds f.mu."+need+" (or stronger) at every access and helper call")
		} else {
			if have == "" {
				have = "no lock"
			}
			c.bad(rule, key, pos(bad), fmt.Sprintf("%s can reach a %s of handle/offset and needs f.mu.%s, but holds %s here", fnName(m), map[bool]string{true: "store", false: "load"}[writes], need, have))
		}
	}
}

func exportedFileMethods(p *Program, fileT types.Type) []*ssa.Function {
	var exported []*ssa.Function
	ms := p.SSA.MethodSets.MethodSet(types.NewPointer(fileT))
	for i := 0; i < ms.Len(); i++ {
		sel := ms.At(i)
		if !sel.Obj().Exported() {
			continue
		}
		if f := p.SSA.MethodValue(sel); f != nil && f.Blocks != nil {
			exported = append(exported, f)
		}
	}
	sort.Slice(exported, func(i, j int) bool { return exported[i].Name() < exported[j].Name() })
	return exported
}

// checkConcurrentCopyOnlyOfRegularFiles (C13.R14, C01.R17): WriteTo's concurrent pipeline requests fixed chunks and
// takes a DATA reply shorter than its chunk for the end of the file (R13) — which is only what a short read means for a
// regular file.  A device, a FIFO or a /proc-like file may answer short at any time; copied through the pipeline the
// transfer stops there with a nil error.  So the pipeline (its worker goroutines) is entered only on the side of the
// isRegular test on which the file is regular; everything else is copied sequentially, chunk after chunk until EOF.
func checkConcurrentCopyOnlyOfRegularFiles(c *Ctx, rule string) {
	p := c.P
	wt := p.Func("(*File).WriteTo")
	if wt == nil {
		c.missing(rule, "(*File).WriteTo")
		return
	}
	c.looked(fnName(wt))
	var edges []edgeRef
	for _, b := range wt.Blocks {
		iff, ok := b.Instrs[len(b.Instrs)-1].(*ssa.If)
		if !ok {
			continue
		}
		v, neg := iff.Cond, false
		if u, isU := v.(*ssa.UnOp); isU && u.Op == token.NOT {
			v, neg = u.X, true
		}
		call, isCall := v.(*ssa.Call)
		if !isCall || calleeName(&call.Call) != "isRegular" {
			continue
		}
		// the argument is the mode of the file being copied (its own stat)
		regular := 0
		if neg {
			regular = 1
		}
		edges = append(edges, edgeRef{from: b, succ: regular})
	}
	isWorker := func(in ssa.Instruction) bool { _, ok := in.(*ssa.Go); return ok }
	nGo := len(findInstrs(wt, isWorker))
	if nGo == 0 {
		c.okT(rule, "WriteTo pipeline only for regular files", p.Pos(wt.Pos()), "WriteTo starts no worker goroutines: there is no concurrent pipeline")
		return
	}
	if len(edges) == 0 {
		c.bad(rule, "WriteTo pipeline only for regular files", p.Pos(wt.Pos()), "WriteTo starts its concurrent pipeline without asking whether the file is regular: a device, FIFO or /proc-like file whose reads come back short is copied up to the first short read and reported complete (nil error)")
		return
	}
	c.check(onlyViaEdges(wt, edges, isWorker), rule, "WriteTo pipeline only for regular files", p.Pos(wt.Pos()), "every path to the workers takes the regular side of isRegular(mode)",
		"the concurrent pipeline of WriteTo can be entered for a file that is not regular: a short read of a device, FIFO or /proc-like file is then taken for the end of the file and the copy ends early with a nil error")
	// and isRegular says "regular" for S_IFREG alone: run for every value of the type field, with and without permission bits
	if ir := p.Func("isRegular"); ir == nil {
		c.missing(rule, "isRegular")
	} else if len(ir.Params) == 1 {
		wrong, und := "", false
		for t := int64(0); t < 16 && wrong == ""; t++ {
			for _, perm := range []int64{0, 0o644, 0o7777} {
				mode := t<<12 | perm
				res := newEvaluator(p).run(ir, []evVal{evInt(mode, ir.Params[0].Type())}, 0)
				if res.kind != "return" || len(res.vals) != 1 || res.vals[0].k != evConst || res.vals[0].c.Kind() != constant.Bool {
					und = true
					break
				}
				if got := constant.BoolVal(res.vals[0].c); got != (t == 8) {
					wrong = fmt.Sprintf("isRegular(%#o) is %v", mode, got)
					break
				}
			}
		}
		switch {
		case und:
			c.und(rule, "isRegular is true for S_IFREG alone", p.Pos(ir.Pos()), "isRegular cannot be evaluated")
		default:
			c.check(wrong == "", rule, "isRegular is true for S_IFREG alone", p.Pos(ir.Pos()), "evaluated for the 16 values of the type field", wrong+": the test that keeps devices, FIFOs, sockets and directories out of the concurrent pipeline lets some of them in (or keeps regular files out)")
		}
	}
}

// checkSequentialLoops (C13.R4, C01.R18): the loops that transfer chunk after chunk through readChunkAt / writeChunkAt.
func checkSequentialLoops(c *Ctx, rule string) {
	p := c.P
	pos := func(in ssa.Instruction) string { return p.Pos(in.Pos()) }
	// ---------- R4 sequential loops ----------
	// every loop, in any method of File, that transfers chunk after chunk through readChunkAt / writeChunkAt (found by
	// the call in a loop, so that it does not matter which method holds the loop today)
	type seqSpec struct {
		fn     string
		f      *ssa.Function
		callee string
	}
	var seqLoops []seqSpec
	for _, f := range p.LibFuncs() {
		if f.Package() != p.Sftp || f.Signature.Recv() == nil || typeName(f.Signature.Recv().Type()) != "File" || f.Name() == "readChunkAt" || f.Name() == "writeChunkAt" {
			continue
		}
		for _, callee := range []string{"readChunkAt", "writeChunkAt"} {
			inLoopCall := false
			for _, site := range callsWhere(f, func(cc *ssa.CallCommon) bool { return calleeName(cc) == callee }) {
				if innermostLoop(loopsOf(f), site.Block()) != nil {
					inLoopCall = true
				}
			}
			if inLoopCall {
				seqLoops = append(seqLoops, seqSpec{fnName(f), f, callee})
			}
		}
	}
	c.check(len(seqLoops) >= 4, rule, "sequential chunk loops", "?", fmt.Sprintf("%d loops", len(seqLoops)), fmt.Sprintf("only %d sequential chunk loops found (sequential ReadAt, WriteAt, WriteTo, ReadFrom expected)", len(seqLoops)))
	for _, spec := range seqLoops {
		fn := spec.f
		c.looked(spec.fn)
		for _, site := range callsWhere(fn, func(cc *ssa.CallCommon) bool { return calleeName(cc) == spec.callee }) {
			l := innermostLoop(loopsOf(fn), site.Block())
			if l == nil {
				continue
			}
			call := site.(*ssa.Call)
			var errEx *ssa.Extract
			for _, r := range *call.Referrers() {
				if ex, ok := r.(*ssa.Extract); ok && ex.Index == 1 {
					errEx = ex
				}
			}
			if errEx == nil {
				c.bad(rule, spec.fn+" examines the chunk error", pos(site), "the error of "+spec.callee+" is discarded: the loop continues after a failed chunk and later chunks are counted")
				continue
			}
			// after the call, on the err != nil edge, the loop head must not be reachable (before a return)
			reLoops := false
			tested := false
			errVals := map[ssa.Value]bool{errEx: true}
			for changed := true; changed; {
				changed = false
				for v := range errVals {
					for _, r := range *v.Referrers() {
						if ph, ok := r.(*ssa.Phi); ok && !errVals[ph] {
							errVals[ph] = true
							changed = true
						}
					}
				}
			}
			for v := range errVals {
				for _, r := range *v.Referrers() {
					b, ok := r.(*ssa.BinOp)
					if !ok || (b.Op != token.NEQ && b.Op != token.EQL) || !isNilConst(b.Y) {
						continue
					}
					// `err != nil` and `switch err { case nil: … }` are the same test
					errSide := 0
					if b.Op == token.EQL {
						errSide = 1
					}
					for _, rr := range *b.Referrers() {
						if iff, ok := rr.(*ssa.If); ok && l.blocks[iff.Block()] {
							tested = true
							if reachFromBlock(iff.Block().Succs[errSide], isLoopHeadStart(l), nil) {
								reLoops = true
							}
						}
					}
				}
			}
			c.check(tested && !reLoops, rule, spec.fn+" leaves the loop on the first error", pos(site), "err != nil returns", "after a failed chunk the loop can continue: a count beyond the failure is returned or the error of a later chunk wins")
			// … and what it leaves with is that error, together with a count that includes what the failing chunk still
			// moved (n > 0 with an error: the end of the file inside the chunk, a write refused part-way)
			var nEx *ssa.Extract
			for _, r := range *call.Referrers() {
				if ex, ok := r.(*ssa.Extract); ok && ex.Index == 0 {
					nEx = ex
				}
			}
			mentionsErr := func(v ssa.Value) bool {
				for _, lf := range leavesOf(v) {
					if lf.V == ssa.Value(errEx) {
						return true
					}
					if lf.Kind == leafCallResult {
						for _, a := range lf.Call.Args {
							for _, l2 := range leavesOfIface(a) {
								if l2 == ssa.Value(errEx) {
									return true
								}
							}
						}
					}
				}
				return false
			}
			for v := range errVals {
				for _, nt := range nilTests(v) {
					if !l.blocks[nt.iff.Block()] {
						continue
					}
					dropped := reachFromNilSide(nt, true, func(in ssa.Instruction) bool {
						r, ok := in.(*ssa.Return)
						if !ok || !isReturn(in) || len(r.Results) == 0 {
							return false
						}
						if mentionsErr(r.Results[len(r.Results)-1]) {
							return false
						}
						// the end of the file is not an error of the copy: `if err == io.EOF { return n, nil }`
						for cv, truth := range edgeConds(r.Block(), nil) {
							isEOF := func(x ssa.Value) bool {
								for _, lf := range leavesOf(x) {
									if lf.Kind == leafGlobal && lf.V.Name() == "EOF" {
										return true
									}
								}
								return false
							}
							switch x := cv.(type) {
							case *ssa.BinOp:
								if x.Op == token.EQL && truth && ((errVals[x.X] && isEOF(x.Y)) || (errVals[x.Y] && isEOF(x.X))) {
									return false
								}
								if x.Op == token.NEQ && !truth && ((errVals[x.X] && isEOF(x.Y)) || (errVals[x.Y] && isEOF(x.X))) {
									return false
								}
							case *ssa.Call:
								if truth && callIs(&x.Call, "errors.Is") && len(x.Call.Args) == 2 && errVals[x.Call.Args[0]] && isEOF(x.Call.Args[1]) {
									return false
								}
							}
						}
						return true
					}, isLoopHeadStart(l))
					c.check(!dropped, rule, spec.fn+" returns the chunk's error", pos(nt.iff), "the error returned on the failing side is the chunk's",
						"on the side where "+spec.callee+" failed the function can return without that error (a nil or an unrelated variable): the caller is told the transfer succeeded up to the count returned")
				}
			}
			if nEx != nil {
				isAdvance := func(in ssa.Instruction) bool {
					b, ok := in.(*ssa.BinOp)
					return ok && b.Op == token.ADD && (stripConv(b.X) == ssa.Value(nEx) || stripConv(b.Y) == ssa.Value(nEx))
				}
				errReturn := func(in ssa.Instruction) bool {
					r, ok := in.(*ssa.Return)
					return ok && isReturn(in) && len(r.Results) > 1 && mentionsErr(r.Results[len(r.Results)-1])
				}
				// only the paths on which the chunk moved something (n > 0)
				noBytes := func(a, b *ssa.BasicBlock, idx int) bool {
					iff, ok := a.Instrs[len(a.Instrs)-1].(*ssa.If)
					if !ok {
						return false
					}
					bo, ok := iff.Cond.(*ssa.BinOp)
					if !ok || stripConv(bo.X) != ssa.Value(nEx) {
						return false
					}
					k, isK := constInt(bo.Y)
					if !isK || k != 0 {
						return false
					}
					switch bo.Op {
					case token.GTR, token.NEQ:
						return idx == 1
					case token.LEQ, token.EQL:
						return idx == 0
					}
					return false
				}
				if len(findInstrs(fn, isAdvance)) > 0 {
					short := reachCoreX(call.Block(), idxIn(call)+1, errReturn, func(in ssa.Instruction) bool { return isAdvance(in) || isLoopHeadStart(l)(in) }, noBytes)
					c.check(!short, rule, spec.fn+" counts what the failing chunk moved", pos(site), "the cursor is advanced by n before the error is returned",
						"the error of a chunk is returned before its byte count is added: the bytes that chunk still moved (the tail of the file read together with EOF) are not counted and are lost to the caller")
					// … and what is returned with the error is that running count (not the length of the whole buffer)
					// (in the positional transfer functions — (b []byte, off int64) (int, error) — where the count returned
					// is the count of chunk bytes; ReadFrom and WriteTo count what the source gave / the sink took)
					positional := len(fn.Params) == 3 && isByteSlice(fn.Params[1].Type()) && isBasicKind(types.Int64)(fn.Params[2].Type())
					for _, rin := range findInstrs(fn, errReturn) {
						if !positional {
							break
						}
						r := rin.(*ssa.Return)
						if !(call.Block() == r.Block() || call.Block().Dominates(r.Block())) {
							continue // not a return of this chunk's iteration
						}
						isCount := false
						seen := map[ssa.Value]bool{}
						var walk func(v ssa.Value, d int)
						walk = func(v ssa.Value, d int) {
							v = stripConv(v)
							if v == nil || seen[v] || d > 6 {
								return
							}
							seen[v] = true
							if in, ok := v.(ssa.Instruction); ok && isAdvance(in) {
								isCount = true
								return
							}
							switch x := v.(type) {
							case *ssa.Phi:
								for _, e := range x.Edges {
									walk(e, d+1)
								}
							case *ssa.UnOp:
								if x.Op == token.MUL {
									if a, ok := x.X.(*ssa.Alloc); ok {
										for _, st := range reachingStores(x, a) {
											walk(st.Val, d+1)
										}
									}
								}
							}
						}
						walk(r.Results[0], 0)
						c.check(isCount, rule, spec.fn+" returns the running count with a chunk's error", pos(rin), "the count that grew by each chunk's bytes",
							"with a chunk's error the loop returns "+affineOf(r.Results[0]).String()+", which is not the running count: the caller is told that bytes moved which were refused")
					}
				}
			}
			// the chunk's own error is examined on every path that goes on or reports success: a test of a variable that
			// merges it with another error (the source's read error, say) lets a failed write slip through when the
			// other error is set
			isOwnTest := func(in ssa.Instruction) bool {
				switch x := in.(type) {
				case *ssa.If:
					if b, ok := x.Cond.(*ssa.BinOp); ok && (b.Op == token.NEQ || b.Op == token.EQL) {
						return b.X == ssa.Value(errEx) || b.Y == ssa.Value(errEx)
					}
				case *ssa.Return:
					for _, r := range x.Results {
						if r == ssa.Value(errEx) {
							return true
						}
					}
				}
				return false
			}
			goesOn := func(in ssa.Instruction) bool {
				if isLoopHeadStart(l)(in) {
					return true
				}
				if r, ok := in.(*ssa.Return); ok && isReturn(in) && len(r.Results) > 0 {
					return isNilConst(r.Results[len(r.Results)-1])
				}
				return false
			}
			slips := reachAvoiding(fn, site, goesOn, isOwnTest)
			c.check(!slips, rule, spec.fn+" examines the chunk's own error", pos(site), "tested (or returned) on every path to the next chunk or to a nil result",
				"the error of "+spec.callee+" is only examined through a variable shared with another error: when that other error is set (a short last read from the source), a failed chunk is ignored and the call reports success")
		}
	}

}

// checkNilOnlyWhenComplete (C13.R16 / C01.R21 / C12.R14): in the positional transfer functions of File — (b []byte, off
// int64) (int, error) — a return with a nil error carries a count that the prover shows to be at least len(b) from the
// guards that lead to it (the exit condition of the chunk loop).  `for read < len(b)-1` leaves the loop one byte
// early and reports (len(b)-1, nil): a short count with a nil error.
func checkNilOnlyWhenComplete(c *Ctx, rule string) {
	p := c.P
	w := newZWorld(p)
	n := 0
	for _, fn := range fileFuncs(p) {
		if fn.Parent() != nil || len(fn.Params) != 3 {
			continue
		}
		sig := fn.Signature
		if sig.Results().Len() != 2 || !isErrorType(sig.Results().At(1).Type()) {
			continue
		}
		if b, ok := sig.Results().At(0).Type().Underlying().(*types.Basic); !ok || b.Kind() != types.Int {
			continue
		}
		sl, ok := fn.Params[1].Type().Underlying().(*types.Slice)
		if !ok || !isByteType(sl.Elem()) {
			continue
		}
		z := w.get(fn)
		for _, r := range findInstrs(fn, isReturn) {
			ret := r.(*ssa.Return)
			if len(ret.Results) != 2 || !isNilConst(ret.Results[1]) {
				continue
			}
			n++
			cnt := z.term(ret.Results[0])
			lb := z.lenOf(fn.Params[1], 0)
			ok, why := z.prove(ret, []lin{leq(lb, cnt, 0)})
			c.check(ok, rule, fnName(fn)+": nil error only with the whole buffer", p.Pos(ret.Pos()), "count >= len(b) follows from the guards on the way to this return",
				"a return with a nil error whose count is not shown to reach len(b) (unproved: "+why+"): a short count comes with a nil error")
		}
	}
	c.check(n >= 3, rule, "nil returns of the positional transfer functions", "?", fmt.Sprintf("%d returns", n), fmt.Sprintf("only %d nil-error returns found", n))
}

// checkWriteChunkCountsOnlyAcknowledged (C13.R19 / C12.R14 / C01.R24): writeChunkAt sends one WRITE and reports how many
// bytes of it the server took — len(b) after an OK status, nothing otherwise.  Its callers (Write, writeAt's
// sequential loop, ReadFrom) add that count to their totals and to the File offset whatever the error: a refused chunk
// reported as len(b) is counted as moved.  Every return whose error is not the nil constant carries the count 0.
func checkWriteChunkCountsOnlyAcknowledged(c *Ctx, rule string) {
	p := c.P
	fn := p.Func("(*File).writeChunkAt")
	if fn == nil {
		c.missing(rule, "(*File).writeChunkAt")
		return
	}
	n := 0
	for _, in := range findInstrs(fn, isReturn) {
		r := in.(*ssa.Return)
		if len(r.Results) != 2 {
			continue
		}
		n++
		if isNilConst(r.Results[1]) {
			// success: the whole chunk
			t := affineOf(r.Results[0])
			full := len(t.coef) == 1 && t.c == 0
			for k, v := range t.coef {
				if !strings.HasPrefix(k, "len(") || v != 1 {
					full = false
				}
			}
			c.check(full, rule, "writeChunkAt success returns the chunk's length", p.Pos(in.Pos()), "len(b), nil", "a successful WRITE is reported with "+t.String()+" bytes, not the chunk's length")
			continue
		}
		k, isConst := constInt(r.Results[0])
		c.check(isConst && k == 0, rule, "writeChunkAt failure returns no bytes", p.Pos(in.Pos()), "0, err", "a WRITE that failed (or whose reply was not an OK status) is reported as having moved bytes: the caller adds them to its count and to the File offset, the refused chunk is skipped")
	}
	c.check(n >= 3, rule, "returns of writeChunkAt", p.Pos(fn.Pos()), fmt.Sprintf("%d returns", n), fmt.Sprintf("only %d returns found", n))
}

// checkAtMethodsUseTheirOffset (C12.R17 / C01.R25): ReadAt and WriteAt are positional — like os.File's, they transfer at
// the offset they are given and neither read nor move the implicit position.  In each of them no load of the File's
// offset field occurs, and the helper they hand the buffer to receives their own offset parameter.
func checkAtMethodsUseTheirOffset(c *Ctx, rule string) {
	p := c.P
	for _, name := range []string{"(*File).ReadAt", "(*File).WriteAt"} {
		fn := p.Func(name)
		if fn == nil {
			c.missing(rule, name)
			continue
		}
		var offPrm *ssa.Parameter
		for _, prm := range fn.Params {
			if isBasicKind(types.Int64)(prm.Type()) {
				offPrm = prm
			}
		}
		if offPrm == nil {
			c.und(rule, name+" transfers at its argument", p.Pos(fn.Pos()), "no int64 parameter")
			continue
		}
		readsPos := false
		eachInstr(fn, func(in ssa.Instruction) {
			if u, ok := in.(*ssa.UnOp); ok && u.Op == token.MUL {
				if t, n, _, okF := fieldOf(u.X); okF && n == "offset" && typeName(t) == "File" {
					readsPos = true
				}
			}
		})
		passes, calls := true, 0
		eachInstr(fn, func(in ssa.Instruction) {
			call, ok := in.(*ssa.Call)
			if !ok || call.Call.StaticCallee() == nil || !inModule(call.Call.StaticCallee()) {
				return
			}
			hasBuf := false
			var offArg ssa.Value
			for _, a := range call.Call.Args {
				if isByteSlice(a.Type()) {
					hasBuf = true
				}
				if isBasicKind(types.Int64)(a.Type()) {
					offArg = a
				}
			}
			if !hasBuf || offArg == nil {
				return
			}
			calls++
			if stripConv(offArg) != ssa.Value(offPrm) {
				passes = false
			}
		})
		c.check(!readsPos && passes && calls >= 1, rule, name+" transfers at its argument", p.Pos(fn.Pos()), "the helper gets the caller's offset; the implicit position is not read",
			name+" does not transfer at the offset it was given (it reads the File's implicit position, or hands another offset to its helper): a positional read or write lands somewhere else")
	}
}

// checkKnownErrorNotAnsweredWithNil (C13.R22, shared as C04.R16): where a transfer function has just found that an
// error is there (the return sits on the non-nil side of a test of it, with no further test of that error — an
// `== io.EOF`, an errors.Is — in between), it does not return a nil error.  The count it returns there is short by
// construction, and a short count with a nil error is what the property excludes; after a lost connection it is the
// caller's only notice.
func checkKnownErrorNotAnsweredWithNil(c *Ctx, rule string) {
	p := c.P
	n := 0
	pathOf := func(v ssa.Value) string {
		if u, ok := v.(*ssa.UnOp); ok && u.Op == token.MUL {
			if r, s := accessPath(u.X); r != nil {
				return fmt.Sprintf("%p.%s", r, s)
			}
		}
		return fmt.Sprintf("%p", v)
	}
	for _, fn := range p.LibFuncs() {
		o := outermost(fn)
		if o.Package() != p.Sftp || o.Signature.Recv() == nil || typeName(o.Signature.Recv().Type()) != "File" {
			continue
		}
		res := fn.Signature.Results()
		if res.Len() < 2 || res.At(res.Len()-1).Type().String() != "error" {
			continue
		}
		ord := 0
		eachInstr(fn, func(in ssa.Instruction) {
			ret, ok := in.(*ssa.Return)
			if !ok || !isReturn(in) || len(ret.Results) < 2 {
				return
			}
			last := ret.Results[len(ret.Results)-1]
			// the chain of guards from the return upwards
			var known ssa.Value
			for cur := ret.Block(); cur != nil && known == nil; cur = cur.Idom() {
				d := cur.Idom()
				if d == nil || len(cur.Preds) != 1 || cur.Preds[0] != d {
					continue
				}
				iff, ok := d.Instrs[len(d.Instrs)-1].(*ssa.If)
				if !ok || len(d.Succs) != 2 || d.Succs[0] == d.Succs[1] {
					continue
				}
				truth := d.Succs[0] == cur
				// a nil test of an error ends the search: on its non-nil side the error is known to be there
				if bo, ok := iff.Cond.(*ssa.BinOp); ok && (bo.Op == token.NEQ || bo.Op == token.EQL) && isNilConst(bo.Y) && bo.X.Type().String() == "error" {
					if (bo.Op == token.NEQ) == truth {
						known = bo.X
					}
					break
				}
				// a test that singles an error out (x == io.EOF, errors.Is(x, …)): on the side where it is that
				// error the nil is deliberate; on the other side the search goes on
				mentionsErr, neg := false, false
				cond := iff.Cond
				if u, ok := cond.(*ssa.UnOp); ok && u.Op == token.NOT {
					cond, neg = u.X, true
				}
				switch x := cond.(type) {
				case *ssa.BinOp:
					if x.X.Type().String() == "error" && (x.Op == token.EQL || x.Op == token.NEQ) {
						mentionsErr = true
						if x.Op == token.NEQ {
							neg = !neg
						}
					}
				case *ssa.Call:
					for _, a := range x.Call.Args {
						if a.Type().String() == "error" {
							mentionsErr = true
						}
					}
				}
				if mentionsErr && truth == neg {
					continue // "it is not that error": still an error
				}
				break
			}
			if known == nil {
				return
			}
			// what is returned there: the error itself (or something made from it), or an error made on the spot
			kp := pathOf(known)
			mentions := false
			var walk func(v ssa.Value, d int)
			walk = func(v ssa.Value, d int) {
				if d > 4 || v == nil || mentions {
					return
				}
				if v == known || pathOf(v) == kp {
					mentions = true
					return
				}
				switch x := v.(type) {
				case *ssa.Phi:
					for _, e := range x.Edges {
						walk(e, d+1)
					}
				case *ssa.Call:
					for _, a := range x.Call.Args {
						walk(a, d+1)
					}
				case *ssa.MakeInterface:
					walk(x.X, d+1)
				case *ssa.ChangeInterface:
					walk(x.X, d+1)
				case *ssa.Extract:
					walk(x.Tuple, d+1)
				case *ssa.UnOp:
					if a, ok := x.X.(*ssa.Alloc); ok && x.Op == token.MUL {
						for _, st := range reachingStores(x, a) {
							walk(st.Val, d+1)
						}
					}
				case *ssa.Alloc:
					for _, r := range *x.Referrers() {
						if st, ok := r.(*ssa.Store); ok {
							walk(st.Val, d+1)
						}
					}
				}
			}
			walk(last, 0)
			n++
			ord++
			c.check(mentions || p.errNeverNil(last, ret.Block(), nil, 0), rule, fmt.Sprintf("%s: return #%d behind a non-nil error", fnName(fn), ord), p.Pos(ret.Pos()), "returns that error, or one made there",
				"this return is taken exactly when an error is known to be there, and what it returns is another variable that can be nil: the short count comes without the error that explains it")
		})
	}
	c.okT(rule, "returns directly behind a non-nil error test examined", "?", fmt.Sprintf("%d", n))
}


// checkSourceErrorBehindChunk (C12.R20, C13.R23, C01.R26): in a function that cuts a source into WRITE requests at a
// cursor, an (offset, error) pair built behind the dispatch of a chunk in the same iteration does not carry the
// chunk's own offset: the chunk went out and will be acknowledged, so "the end of what was read" — which becomes the
// File's offset and the caller's count — lies behind it.  With the chunk's offset the next Write overwrites the bytes
// the count has just reported.
func checkSourceErrorBehindChunk(c *Ctx, rule string) {
	p := c.P
	n := 0
	for _, fn := range p.LibFuncs() {
		if outermost(fn).Package() != p.Sftp || !isClientSide(fn) {
			continue
		}
		for _, w := range literalsOf(fn, "sshFxpWritePacket") {
			offV := litField(w, "Offset")
			if offV == nil || !inLoop(w) {
				continue
			}
			cur := stripConv(offV)
			loops := loopsOf(fn)
			l := innermostLoop(loops, w.Block())
			if l == nil {
				continue
			}
			eachInstr(fn, func(in ssa.Instruction) {
				a, ok := in.(*ssa.Alloc)
				if !ok {
					return
				}
				st := derefStruct(a.Type())
				if st == nil || st.NumFields() != 2 {
					return
				}
				var offName string
				hasErr := false
				for i := 0; i < 2; i++ {
					if isErrorType(st.Field(i).Type()) {
						hasErr = true
					} else if isIntType(st.Field(i).Type()) {
						offName = st.Field(i).Name()
					}
				}
				if !hasErr || offName == "" {
					return
				}
				// built behind the dispatch, within the same iteration
				if !reachAvoiding(fn, w, func(x ssa.Instruction) bool { return x == in }, func(x ssa.Instruction) bool {
					return x.Block() == l.head && idxIn(x) == 0
				}) {
					return
				}
				v := litField(a, offName)
				if v == nil {
					return
				}
				n++
				c.check(stripConv(v) != cur, rule, fmt.Sprintf("(offset, error) pair behind the chunk in %s", fnName(fn)), p.Pos(a.Pos()),
					"the offset reported is not the offset of the chunk just sent",
					"the (offset, error) pair built behind the dispatch of a chunk carries that chunk's own offset: the bytes of the chunk are sent and counted, but the File's offset stays in front of them")
			})
		}
	}
	c.floor(rule, 1)
}
