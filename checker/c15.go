package main

import (
	"fmt"
	"go/types"

	"golang.org/x/tools/go/ssa"
)

// C15 (clause claim): linearizability itself quantifies over concurrent histories and is not decided.  Decided are the
// three mechanisms the property is anchored in, each a necessary condition of it, and one more that follows from the
// property's own premise ("provided the backing store's own ReadAt/WriteAt are atomic"): a single-packet request is
// exactly ONE call on the backing object — two calls, or a call in a loop, make the request two steps between which
// another request's step can land.
func init() {
	register("C15", &propSpec{
		level: "other",
		explanation: "Necessary structural conditions of linearizability of single-packet operations, not the histories themselves: " +
			"(R1) a response is queued only after the backing-object call of its request returned (shared with C14.R4); " +
			"(R2,R3,R8,R9) the buffer of a request is its own — READ buffer taken under the request's own order id, page of a pipelined WRITE filed under its own order id, no slice of a page kept in long-lived state, pages released only after the reply was written (shared with C18.R2/R5/R3 and C14.R9); " +
			"(R4-R6) a reply is routed to the caller that issued the request: registered before sent, table under its mutex and routed by the decoded id, one result channel per in-flight request (shared with C03.R3-R5); " +
			"(R7) in the workers' call cones every READ, WRITE and FSTAT reaches the backing object by exactly one ReadAt/WriteAt/Stat call: none sits in a loop (other than the worker's request loop), none is followed by a second one on any path of the same request, none is started in a goroutine; " +
			"(R10) the DATA reply carries the bytes that call produced, buf[:n] (shared with C01.R3); " +
			"(R11) a write that failed inside a frame is latched (shared with C04.R10); (R12) a request on a handle is served by the handler its own type names (shared with C02.R7).",
		run: runC15,
		trusted: []string{
			"go/ssa control-flow graphs; VTA call graph for the workers' cones",
			"the backing object's ReadAt/WriteAt/Stat are atomic (the property's own premise)",
		},
		assumptions: []string{"the backing store's ReadAt/WriteAt are atomic", "the file's size does not change during the history (the property's quantifier)"},
	})
}

func runC15(c *Ctx) {
	c.withOnly("R4", "R1", func() { runC14(c) })
	c.withOnly("R2", "R2", func() { runC18(c) })
	c.withOnly("R5", "R3", func() { runC18(c) })
	c.withOnly("R3", "R4", func() { runC03(c) })
	c.withOnly("R4", "R5", func() { runC03(c) })
	c.withOnly("R5", "R6", func() { runC03(c) })
	checkOneStoreStep(c, "R7")
	c.withOnly("R3", "R8", func() { runC18(c) })
	c.withOnly("R9", "R9", func() { runC14(c) })
	c.withOnly("R3", "R10", func() { runC01(c) })
	// R11 (= C04.R10): a write that failed inside a frame is latched — otherwise the next requests are stored as that
	// WRITE's data; R12 (= C02.R7): a request on a handle is served by the handler its own type names (a READ must not
	// reach the writer)
	checkWriteFailureLatched(c, "R11")
	c.withOnly("R7", "R12", func() { runC02(c) })
	// R13 (= C01.R20): a failed read is answered with the failure, not with short DATA that the client completes with a
	// second request (a torn read); R14 (= C10.R22): a write the handler failed is not acknowledged
	checkReadReplyTruthTable(c, "R13")
	checkHandlersErrorIsTheOneReported(c, "R14")
	checkRefusedWriteNotCounted(c, "R15")
}

// storeStepName: the instruction is a call on the backing object that the property treats as one atomic step.
func storeStepName(in ssa.Instruction) (string, bool) {
	cc := callOf(in)
	if cc == nil {
		return "", false
	}
	if cc.IsInvoke() {
		switch cc.Method.Name() {
		case "ReadAt", "WriteAt":
			return cc.Method.Name(), true
		case "Stat":
			// a size query on an open file: the interface is a file's (it can also read or write at an offset)
			if it, ok := cc.Value.Type().Underlying().(*types.Interface); ok {
				for i := 0; i < it.NumMethods(); i++ {
					if n := it.Method(i).Name(); n == "ReadAt" || n == "WriteAt" {
						return "Stat", true
					}
				}
			}
		}
		return "", false
	}
	f := calleeFunc(cc)
	if f == nil || f.Pkg() == nil || f.Pkg().Path() != "os" {
		return "", false
	}
	sig, _ := f.Type().(*types.Signature)
	if sig == nil || sig.Recv() == nil || typeName(sig.Recv().Type()) != "File" {
		return "", false
	}
	switch f.Name() {
	case "ReadAt", "WriteAt", "Stat":
		return "(*os.File)." + f.Name(), true
	}
	return "", false
}

func checkOneStoreStep(c *Ctx, rule string) {
	p := c.P
	var roots []*ssa.Function
	for _, name := range []string{"handlePacket", "(*RequestServer).packetWorker"} {
		fn := p.Func(name)
		if fn == nil {
			c.missing(rule, name)
			continue
		}
		c.looked(name)
		roots = append(roots, fn)
	}
	if len(roots) == 0 {
		return
	}
	direct := func(_ *ssa.Function, in ssa.Instruction) bool {
		_, ok := storeStepName(in)
		return ok
	}
	reach := p.reachSet(direct)
	// a step: the call itself, or a call of a module function (or closure) that reaches one
	isStep := func(in ssa.Instruction) bool {
		if direct(nil, in) {
			return true
		}
		cc := callOf(in)
		if cc == nil {
			return false
		}
		if f := cc.StaticCallee(); f != nil && inModule(f) && reach[f] {
			return true
		}
		if mc, ok := cc.Value.(*ssa.MakeClosure); ok {
			if f, ok := mc.Fn.(*ssa.Function); ok && reach[f] {
				return true
			}
		}
		return false
	}
	n := 0
	for fn := range p.cone(roots...) {
		if !inModule(fn) || fn.Pkg == nil || fn.Pkg.Pkg.Path() != pkgSftp {
			continue
		}
		if f := p.Fset.Position(fn.Pos()).Filename; len(f) >= 18 && f[len(f)-18:] == "request-example.go" {
			continue // the in-memory backend is a backing store, not the server
		}
		steps := findInstrs(fn, isStep)
		if len(steps) == 0 {
			continue
		}
		c.looked(fnName(fn))
		loops := loopsOf(fn)
		reqHeads := map[*ssa.BasicBlock]bool{}
		for _, l := range rangeChanLoops(fn) {
			reqHeads[l.head] = true
		}
		for _, st := range steps {
			name, isDirect := storeStepName(st)
			if !isDirect {
				if cc := callOf(st); cc != nil && cc.StaticCallee() != nil {
					name = "call of " + fnName(cc.StaticCallee())
				} else {
					name = "call of a closure"
				}
			}
			key := fmt.Sprintf("%s in %s", name, fnName(fn))
			pos := p.Pos(st.Pos())
			n++
			if _, isGo := st.(*ssa.Go); isGo {
				c.bad(rule, key+": not in a goroutine", pos, "the backing-object call of a request is started in a goroutine: it is no longer one step between the request and its reply")
				continue
			}
			if _, isDefer := st.(*ssa.Defer); isDefer {
				continue // a deferred clean-up (Close paths); ordering is C14's business
			}
			l := innermostLoop(loops, st.Block())
			if l != nil && reqHeads[l.head] {
				l = nil
			}
			c.check(l == nil, rule, key+": once, not in a loop", pos,
				"the backing-object call is outside every loop but the worker's request loop",
				"the backing-object call of a single-packet request sits in a loop: the request becomes several steps on the store and another request can take effect between them")
			// no second step of the same request: from here to the return (or the next request of the worker's loop)
			var head *ssa.BasicBlock
			if ll := innermostLoop(loops, st.Block()); ll != nil && reqHeads[ll.head] {
				head = ll.head
			}
			second := reachAvoiding(fn, st, func(in ssa.Instruction) bool { return in != st && isStep(in) }, func(in ssa.Instruction) bool {
				return head != nil && in.Block() == head && idxIn(in) == 0
			})
			c.check(!second, rule, key+": no second store call behind it", pos,
				"no other backing-object call is reachable behind this one within the same request",
				"a second backing-object call is reachable behind this one for the same request: two steps on the store, not one atomic one")
		}
	}
	if n == 0 {
		c.bad(rule, "store calls of the workers", "", "no ReadAt/WriteAt/Stat call found in the workers' cones: the rule would pass vacuously")
	}
	c.floor(rule, 10)
}
