package main

import (
	"go/ast"
	"go/types"
	"sort"
	"strings"

	"golang.org/x/tools/go/ssa"
)

// Engine E: file-system effect classification of calls that leave the module.

type effect int

const (
	effNeutral effect = iota
	effRead
	effMutate
	effOpen // os.OpenFile: mutating depending on its flag argument
)

var fsPackages = map[string]bool{"os": true, "syscall": true, "io/ioutil": true, "golang.org/x/sys/unix": true, "os/exec": true, "golang.org/x/sys/windows": true}

var osReadFuncs = map[string]bool{
	"Stat": true, "Lstat": true, "Readlink": true, "Open": true, "ReadDir": true, "ReadFile": true, "Getwd": true,
	"IsNotExist": true, "IsPermission": true, "IsExist": true, "IsTimeout": true, "Getuid": true, "Getgid": true, "Geteuid": true, "Getegid": true,
	"Hostname": true, "Getenv": true, "LookupEnv": true, "SameFile": true, "NewSyscallError": true, "Getpid": true, "Getpagesize": true,
	"IsPathSeparator": true, "TempDir": true, "UserHomeDir": true, "Environ": true, "Executable": true, "DirFS": true,
}

var osFileReadMethods = map[string]bool{
	"Stat": true, "ReadAt": true, "Read": true, "Readdir": true, "ReadDir": true, "Readdirnames": true, "Name": true, "Close": true, "Fd": true, "Seek": true,
	"SetReadDeadline": true, "SetDeadline": true, "SyscallConn": true,
}

var syscallReadFuncs = map[string]bool{
	"Stat": true, "Lstat": true, "Fstat": true, "Statfs": true, "Fstatfs": true, "Getuid": true, "Getgid": true, "Geteuid": true, "Getegid": true,
	"Getpid": true, "Getwd": true, "Readlink": true, "Getpagesize": true, "ByteSliceFromString": true, "BytePtrFromString": true,
}

// file-interface methods (sftp.file, io.WriterAt, …) invoked dynamically
var ifaceMutating = map[string]bool{"WriteAt": true, "Write": true, "Truncate": true, "Chmod": true, "Chown": true, "Chtimes": true, "Sync": true, "WriteString": true, "ReadFrom": true}

func classifyExternal(f *types.Func) effect {
	if f == nil || f.Pkg() == nil {
		return effNeutral
	}
	pk := f.Pkg().Path()
	if !fsPackages[pk] {
		return effNeutral
	}
	sig := f.Type().(*types.Signature)
	if sig.Recv() != nil {
		rt := typeName(sig.Recv().Type())
		if pk == "os" && rt == "File" {
			if osFileReadMethods[f.Name()] {
				return effRead
			}
			return effMutate
		}
		if pk == "os" && (rt == "Process" || rt == "Root") {
			return effMutate
		}
		if pk == "os/exec" {
			return effMutate
		}
		// methods on FileMode, FileInfo, PathError, LinkError, SyscallError, Errno, Signal, Stat_t … do not touch the file system
		return effNeutral
	}
	switch pk {
	case "os":
		if f.Name() == "OpenFile" {
			return effOpen
		}
		if osReadFuncs[f.Name()] {
			return effRead
		}
		return effMutate
	case "syscall", "golang.org/x/sys/unix", "golang.org/x/sys/windows":
		if syscallReadFuncs[f.Name()] {
			return effRead
		}
		return effMutate
	case "io/ioutil":
		switch f.Name() {
		case "ReadFile", "ReadDir", "ReadAll", "NopCloser":
			return effRead
		}
		return effMutate
	}
	return effMutate
}

type sink struct {
	In  ssa.Instruction
	Fn  *ssa.Function // function containing the call
	Eff effect
	ID  string
}

// sinksIn lists the effectful external calls directly inside fn (restricted to the
// given blocks when blocks != nil).
func sinksIn(fn *ssa.Function, blocks map[*ssa.BasicBlock]bool) []sink {
	var out []sink
	for _, b := range fn.Blocks {
		if blocks != nil && !blocks[b] {
			continue
		}
		for _, in := range b.Instrs {
			cc := callOf(in)
			if cc == nil {
				continue
			}
			if cc.IsInvoke() {
				recvT := typeName(cc.Value.Type())
				if ifaceMutating[cc.Method.Name()] && isFileLike(cc.Value.Type()) {
					out = append(out, sink{in, fn, effMutate, recvT + "." + cc.Method.Name()})
				}
				continue
			}
			f := calleeFunc(cc)
			if f == nil {
				continue
			}
			if f.Pkg() != nil && strings.HasPrefix(f.Pkg().Path(), pkgSftp) {
				continue
			}
			if e := classifyExternal(f); e != effNeutral && e != effRead {
				out = append(out, sink{in, fn, e, funcID(f)})
			}
		}
	}
	return out
}

// isFileLike: interface types through which the os-backed server reaches files.
func isFileLike(t types.Type) bool {
	it, ok := t.Underlying().(*types.Interface)
	if !ok {
		return false
	}
	for i := 0; i < it.NumMethods(); i++ {
		switch it.Method(i).Name() {
		case "WriteAt", "Truncate", "Chmod", "Chown", "Write", "Chtimes":
			return true
		}
	}
	return false
}

// moduleCalleesIn lists module functions called (statically or, via VTA, dynamically)
// from the given blocks of fn.
func (p *Program) moduleCalleesIn(fn *ssa.Function, blocks map[*ssa.BasicBlock]bool) []*ssa.Function {
	var out []*ssa.Function
	seen := map[*ssa.Function]bool{}
	add := func(f *ssa.Function) {
		if f != nil && f.Blocks != nil && inModule(f) && !seen[f] {
			seen[f] = true
			out = append(out, f)
		}
	}
	for _, b := range fn.Blocks {
		if blocks != nil && !blocks[b] {
			continue
		}
		for _, in := range b.Instrs {
			if ci, ok := in.(ssa.CallInstruction); ok {
				cc := ci.Common()
				if f := cc.StaticCallee(); f != nil {
					add(f)
				} else {
					for _, f := range p.calleesAt(ci) {
						add(f)
					}
				}
			}
			if mc, ok := in.(*ssa.MakeClosure); ok {
				add(mc.Fn.(*ssa.Function))
			}
		}
	}
	return out
}

// coneSinks: sinks in the given region of fn plus everything reachable from it.
func (p *Program) coneSinks(fn *ssa.Function, blocks map[*ssa.BasicBlock]bool, stop map[*ssa.Function]bool) []sink {
	out := sinksIn(fn, blocks)
	roots := p.moduleCalleesIn(fn, blocks)
	var filtered []*ssa.Function
	for _, r := range roots {
		if !stop[r] {
			filtered = append(filtered, r)
		}
	}
	for f := range p.coneStop(stop, filtered...) {
		out = append(out, sinksIn(f, nil)...)
	}
	sort.Slice(out, func(i, j int) bool { return out[i].In.Pos() < out[j].In.Pos() })
	return out
}

// coneStop is cone() that does not enter the functions in stop.
func (p *Program) coneStop(stop map[*ssa.Function]bool, roots ...*ssa.Function) map[*ssa.Function]bool {
	g := p.VTA()
	out := map[*ssa.Function]bool{}
	var work []*ssa.Function
	push := func(f *ssa.Function) {
		if f != nil && !out[f] && !stop[f] && f.Blocks != nil && inModule(f) {
			out[f] = true
			work = append(work, f)
		}
	}
	for _, r := range roots {
		push(r)
	}
	for len(work) > 0 {
		f := work[len(work)-1]
		work = work[:len(work)-1]
		if n := g.Nodes[f]; n != nil {
			for _, e := range n.Out {
				push(e.Callee.Func)
			}
		}
		for _, a := range f.AnonFuncs {
			push(a)
		}
	}
	return out
}

// FuncDecl finds the syntax of a function or method of a module package.
func (p *Program) FuncDecl(pkgPath, recv, name string) (*ast.FuncDecl, *types.Info) {
	pk := p.byPath[pkgPath]
	if pk == nil {
		return nil, nil
	}
	for _, f := range pk.Syntax {
		for _, d := range f.Decls {
			fd, ok := d.(*ast.FuncDecl)
			if !ok || fd.Name.Name != name || fd.Body == nil {
				continue
			}
			r := ""
			if fd.Recv != nil && len(fd.Recv.List) == 1 {
				t := fd.Recv.List[0].Type
				if s, ok := t.(*ast.StarExpr); ok {
					t = s.X
				}
				if id, ok := t.(*ast.Ident); ok {
					r = id.Name
				}
			}
			if r == recv {
				return fd, pk.TypesInfo
			}
		}
	}
	return nil, nil
}
