package main

// Order ids, stated on the state and the events rather than on the helpers that hold the code today.
//
// The packet manager numbers requests with packetManager.packetCount.  The rules about that numbering (C02.R3, C02.R4,
// C01.R6 = C18.R1) used to name newOrderID, newOrderedRequest and newOrderedResponse; inlining any of them made the
// rules undecided.  They now speak of: a store into packetCount (an "advance"), a function whose call advances the
// counter (contains an advance or statically calls such a function), a value that is the advanced counter, a literal
// of type orderedRequest / orderedResponse and the value stored into its order-id field.

import (
	"go/token"
	"go/types"

	"golang.org/x/tools/go/ssa"
)

type oidWorld struct {
	p            *Program
	advances     []*ssa.Store
	advFns       map[*ssa.Function]bool // calling one of these advances the counter
	ctrOwner     string                 // the struct type that holds the counter, and the counter's field
	ctrField     string
	copyAdvances []*ssa.Store // increments of a by-value copy of the counter (lost when the method returns)
}

func (p *Program) oid() *oidWorld {
	if p.oidw != nil {
		return p.oidw
	}
	w := &oidWorld{p: p, advFns: map[*ssa.Function]bool{}}
	// the counter: packetManager.packetCount — or, when that name is gone, the one uint32 field of the packet manager
	// (or of a struct the packet manager holds by value) that some function increments by one
	w.ctrOwner, w.ctrField = "packetManager", "packetCount"
	if pm := p.NamedType(p.Sftp, "packetManager"); pm != nil {
		has := false
		owners := map[string]bool{"packetManager": true}
		if st, ok := pm.Underlying().(*types.Struct); ok {
			for i := 0; i < st.NumFields(); i++ {
				if st.Field(i).Name() == "packetCount" {
					has = true
				}
				if _, isStruct := st.Field(i).Type().Underlying().(*types.Struct); isStruct {
					owners[typeName(st.Field(i).Type())] = true
				}
			}
		}
		if !has {
			type cand struct{ owner, field string }
			found := map[cand]bool{}
			for _, fn := range p.LibFuncs() {
				if outermost(fn).Package() != p.Sftp {
					continue
				}
				eachInstr(fn, func(in ssa.Instruction) {
					st, ok := in.(*ssa.Store)
					if !ok {
						return
					}
					t, name, _, ok := fieldOf(st.Addr)
					if !ok || !owners[typeName(t)] || !isBasicKind(types.Uint32)(st.Val.Type()) {
						return
					}
					// value = load of the same field + 1
					if bo, ok := st.Val.(*ssa.BinOp); ok && bo.Op == token.ADD {
						if k, ok := constInt(bo.Y); ok && k == 1 {
							if ld, ok := bo.X.(*ssa.UnOp); ok && ld.Op == token.MUL {
								if t2, n2, _, ok := fieldOf(ld.X); ok && n2 == name && typeName(t2) == typeName(t) {
									found[cand{typeName(t), name}] = true
								}
							}
						}
					}
				})
			}
			if len(found) == 1 {
				for c := range found {
					w.ctrOwner, w.ctrField = c.owner, c.field
				}
			}
		}
	}
	for _, fn := range p.LibFuncs() {
		if outermost(fn).Package() != p.Sftp {
			continue
		}
		eachInstr(fn, func(in ssa.Instruction) {
			st, ok := in.(*ssa.Store)
			if !ok {
				return
			}
			if t, name, _, ok := fieldOf(st.Addr); ok && name == w.ctrField && typeName(t) == w.ctrOwner {
				// the session's counter, not a copy of it: a method with a value receiver increments its own copy
				if root, _ := accessPath(st.Addr); root != nil {
					if al, isLocal := root.(*ssa.Alloc); isLocal && !al.Heap {
						if _, isStruct := derefType(al.Type()).Underlying().(*types.Struct); isStruct {
							w.copyAdvances = append(w.copyAdvances, st)
							return
						}
					}
				}
				w.advances = append(w.advances, st)
				w.advFns[fn] = true
			}
		})
	}
	for changed, round := true, 0; changed && round < 4; round++ {
		changed = false
		for _, fn := range p.LibFuncs() {
			if outermost(fn).Package() != p.Sftp || w.advFns[fn] || fn.Signature.Recv() == nil || typeName(fn.Signature.Recv().Type()) != "packetManager" {
				continue
			}
			eachInstr(fn, func(in ssa.Instruction) {
				if cc := callOf(in); cc != nil {
					if f := cc.StaticCallee(); f != nil && w.advFns[f] && !w.advFns[fn] {
						w.advFns[fn] = true
						changed = true
					}
				}
			})
		}
	}
	p.oidw = w
	return w
}

// isIssue: the instruction advances the counter (directly or by a static call).
func (w *oidWorld) isIssue(in ssa.Instruction) bool {
	if st, ok := in.(*ssa.Store); ok {
		for _, a := range w.advances {
			if a == st {
				return true
			}
		}
		return false
	}
	if cc := callOf(in); cc != nil {
		if f := cc.StaticCallee(); f != nil && w.advFns[f] {
			return true
		}
	}
	return false
}

// issuedValue: v is the counter as advanced (the value stored by an advance, a load of the counter after an advance of
// the same function, or the result of a module function all of whose results are).
func (w *oidWorld) issuedValue(v ssa.Value, depth int) bool {
	if depth > 4 {
		return false
	}
	leaves := leavesOf(v)
	if len(leaves) == 0 {
		return false
	}
	for _, l := range leaves {
		switch l.Kind {
		case leafFieldLoad:
			if l.Field != w.ctrField {
				return false
			}
			li, ok := l.V.(ssa.Instruction)
			if !ok {
				return false
			}
			after := false
			for _, a := range w.advances {
				if a.Parent() == li.Parent() && dominates(a, li) {
					after = true
				}
			}
			if !after {
				return false
			}
		case leafBinOp:
			stored := false
			for _, a := range w.advances {
				if a.Val == l.V {
					stored = true
				}
			}
			if !stored {
				return false
			}
		case leafCallResult:
			f := l.Call.StaticCallee()
			if f == nil || !inModule(f) || f.Blocks == nil {
				return false
			}
			rls := returnLeaves(f, l.Idx)
			if len(rls) == 0 {
				return false
			}
			for _, rl := range rls {
				if !w.issuedValue(rl.v, depth+1) {
					return false
				}
			}
		default:
			return false
		}
	}
	return true
}

// literalsOfType lists the composite literals of the named module struct type in the module.
func (p *Program) literalsOfType(name string) []*ssa.Alloc {
	var out []*ssa.Alloc
	for _, fn := range p.LibFuncs() {
		if outermost(fn).Package() != p.Sftp {
			continue
		}
		out = append(out, literalsOf(fn, name)...)
	}
	return out
}

// responseValueIn: the value that fn hands over as the reply packet: the responsePacket stored into an orderedResponse
// literal built in fn, or the argument of a call to a function that stores that parameter into such a literal.
func (p *Program) responseValueIn(fn *ssa.Function) ssa.Value {
	isResp := func(t types.Type) bool { return typeName(t) == "responsePacket" }
	for _, a := range literalsOf(fn, "orderedResponse") {
		if v := litFieldWhere(a, isResp); v != nil {
			return v
		}
	}
	var out ssa.Value
	eachInstr(fn, func(in ssa.Instruction) {
		cc := callOf(in)
		if cc == nil || out != nil {
			return
		}
		f := cc.StaticCallee()
		if f == nil || !inModule(f) || f.Blocks == nil {
			return
		}
		for _, a := range literalsOf(f, "orderedResponse") {
			if prm, ok := litFieldWhere(a, isResp).(*ssa.Parameter); ok {
				idx := paramIndex(prm)
				args := cc.Args
				if idx < len(args) {
					out = args[idx]
				}
			}
		}
	})
	return out
}

var _ = token.ADD
