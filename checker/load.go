package main

import (
	"fmt"
	"go/ast"
	"go/token"
	"go/types"
	"os"
	"sort"
	"strings"

	"golang.org/x/tools/go/callgraph"
	"golang.org/x/tools/go/callgraph/cha"
	"golang.org/x/tools/go/callgraph/vta"
	"golang.org/x/tools/go/packages"
	"golang.org/x/tools/go/ssa"
	"golang.org/x/tools/go/ssa/ssautil"
)

const (
	pkgSftp    = "github.com/pkg/sftp"
	pkgSshfx   = "github.com/pkg/sftp/internal/encoding/ssh/filexfer"
	pkgOpenssh = "github.com/pkg/sftp/internal/encoding/ssh/filexfer/openssh"
)

// BuildConfig is one build configuration of the analysed module.
type BuildConfig struct {
	Name   string
	GOARCH string
	Tags   string
	GOOS   string // default linux
}

var (
	cfgDefault = BuildConfig{Name: "linux/amd64", GOARCH: "amd64"}
	cfg386     = BuildConfig{Name: "linux/386", GOARCH: "386"}
	cfgDebug   = BuildConfig{Name: "linux/amd64+debug", GOARCH: "amd64", Tags: "debug"}
	cfgWindows = BuildConfig{Name: "windows/amd64", GOARCH: "amd64", GOOS: "windows"}
	cfgDarwin  = BuildConfig{Name: "darwin/arm64", GOARCH: "arm64", GOOS: "darwin"}
	cfgPlan9   = BuildConfig{Name: "plan9/amd64", GOARCH: "amd64", GOOS: "plan9"}
)

// Program is the loaded, type-checked module in SSA form.
type Program struct {
	Cfg   BuildConfig
	Fset  *token.FileSet
	Pkgs  []*packages.Package
	SSA   *ssa.Program
	Sftp  *ssa.Package
	Sshfx *ssa.Package
	Ossh  *ssa.Package

	// Renames lists the symbols that were read under their reference names (rename.go)
	Renames []string

	inserters map[*ssa.Function]bool // tableInserters cache
	oidw      *oidWorld              // order-id facts cache

	byPath map[string]*packages.Package
	cgVTA  *callgraph.Graph
	cgCHA  *callgraph.Graph

	// statistics printed into every evidence file
	NFiles, NFuncs, NSSAFuncs int
	modFuncs                  []*ssa.Function // functions of the module with bodies (incl. closures)
	extTable                  map[string]types.Type
}

func loadEnv(cfg BuildConfig) []string {
	env := []string{}
	for _, e := range os.Environ() {
		k := e
		if i := strings.IndexByte(e, '='); i >= 0 {
			k = e[:i]
		}
		switch k {
		case "GOFLAGS", "GOPROXY", "GOSUMDB", "GOTOOLCHAIN", "GOWORK", "GOARCH", "GOOS", "PATH", "CGO_ENABLED":
			continue
		}
		env = append(env, e)
	}
	path := os.Getenv("PATH")
	if !strings.HasPrefix(path, "/opt/veriftools/go1.26.8/bin:") {
		path = "/opt/veriftools/go1.26.8/bin:" + path
	}
	env = append(env,
		"PATH="+path,
		"GOFLAGS=-mod=mod",
		"GOPROXY=off",
		"GOSUMDB=off",
		"GOTOOLCHAIN=local",
		"GOWORK=off",
		"GOOS="+goosOf(cfg),
		"GOARCH="+cfg.GOARCH,
		"CGO_ENABLED=0",
	)
	return env
}

func goosOf(cfg BuildConfig) string {
	if cfg.GOOS != "" {
		return cfg.GOOS
	}
	return "linux"
}

// loadPackages type-checks the whole module under repo, optionally with an overlay.
func loadPackages(repo string, cfg BuildConfig, overlay map[string][]byte) (map[string]*packages.Package, []*packages.Package, error) {
	// go/packages resolves "go" through this process's PATH, not through Config.Env
	if !strings.HasPrefix(os.Getenv("PATH"), "/opt/veriftools/go1.26.8/bin:") {
		os.Setenv("PATH", "/opt/veriftools/go1.26.8/bin:"+os.Getenv("PATH"))
	}
	pc := &packages.Config{
		Mode:    packages.LoadAllSyntax,
		Dir:     repo,
		Env:     loadEnv(cfg),
		Tests:   false,
		Overlay: overlay,
	}
	if cfg.Tags != "" {
		pc.BuildFlags = []string{"-tags=" + cfg.Tags}
	}
	pkgs, err := packages.Load(pc, "./...")
	if err != nil {
		return nil, nil, fmt.Errorf("load: %v", err)
	}
	if len(pkgs) == 0 {
		return nil, nil, fmt.Errorf("load: zero packages matched ./... in %s", repo)
	}
	byPath := map[string]*packages.Package{}
	var terrs []string
	packages.Visit(pkgs, nil, func(pk *packages.Package) {
		byPath[pk.PkgPath] = pk
		if strings.HasPrefix(pk.PkgPath, pkgSftp) {
			for _, e := range pk.Errors {
				terrs = append(terrs, e.Error())
			}
		}
	})
	if len(terrs) > 0 {
		return nil, nil, fmt.Errorf("load: %d type/parse errors in the module, first: %s", len(terrs), terrs[0])
	}
	for _, need := range []string{pkgSftp, pkgSshfx, pkgOpenssh} {
		if byPath[need] == nil {
			return nil, nil, fmt.Errorf("load: package %s not found", need)
		}
	}
	return byPath, pkgs, nil
}

// Load type-checks the whole module under repo and builds SSA.  Symbols that were merely
// renamed relative to the reference tree are renamed back in an overlay first (rename.go).
func Load(repo string, cfg BuildConfig) (*Program, error) {
	byPath, pkgs, err := loadPackages(repo, cfg, nil)
	if err != nil {
		return nil, err
	}
	var renames []string
	var overlay map[string][]byte
	ref, rerr := loadSymtab()
	if rerr != nil || len(ref) == 0 {
		ref = nil
	}
	if ref != nil && os.Getenv("VERIF_NO_RENAMES") == "" {
		cur, objs := collectSymbols(byPath)
		if recs := detectRenames(ref, cfg.Name, cur, objs); len(recs) > 0 {
			if ov, oerr := buildOverlay(pkgs[0].Fset, byPath, recs); oerr == nil {
				if bp2, pk2, err2 := loadPackages(repo, cfg, ov); err2 == nil {
					byPath, pkgs, overlay = bp2, pk2, ov
					for _, r := range recs {
						renames = append(renames, fmt.Sprintf("%s: %s read as %s", r.Key, r.New, r.Old))
					}
				} else {
					renames = append(renames, "rename overlay did not type-check, analysed as written: "+err2.Error())
				}
			}
		}
	}
	// helpers the reference tree does not know are inlined back (normalize.go)
	if os.Getenv("VERIF_DEBUG_NORMALIZE") != "" && ref != nil {
		for _, ff := range freshFunctions(ref, cfg.Name, byPath) {
			fmt.Fprintln(os.Stderr, "fresh:", ff.obj.FullName())
		}
	}
	if ref != nil && os.Getenv("VERIF_NO_INLINE") == "" && (len(freshFunctions(ref, cfg.Name, byPath)) > 0 || len(freshClosureVars(ref, cfg.Name, byPath)) > 0) {
		lightBase = byPath
		ov2, notes := deextract(repo, cfg, ref, overlay, nil)
		lightBase = nil
		for _, n := range notes {
			renames = append(renames, "de-extraction: "+n)
		}
		if ov2 != nil && len(ov2) > 0 && !sameOverlay(ov2, overlay) {
			if bp2, pk2, err2 := loadPackages(repo, cfg, ov2); err2 == nil {
				byPath, pkgs, overlay = bp2, pk2, ov2
			} else {
				renames = append(renames, "de-extraction overlay did not type-check, analysed without it: "+err2.Error())
			}
		}
	}
	if dir := os.Getenv("VERIF_DUMP_OVERLAY"); dir != "" {
		os.MkdirAll(dir, 0o755)
		for name, b := range overlay {
			os.WriteFile(dir+"/"+strings.ReplaceAll(strings.TrimPrefix(name, "/"), "/", "_"), b, 0o644)
		}
	}
	p := &Program{Cfg: cfg, Pkgs: pkgs, byPath: byPath, Renames: renames}
	p.Fset = pkgs[0].Fset
	prog, _ := ssautil.AllPackages(pkgs, ssa.InstantiateGenerics)
	prog.Build()
	p.SSA = prog
	p.Sftp = prog.Package(p.byPath[pkgSftp].Types)
	p.Sshfx = prog.Package(p.byPath[pkgSshfx].Types)
	p.Ossh = prog.Package(p.byPath[pkgOpenssh].Types)
	if p.Sftp == nil || p.Sshfx == nil || p.Ossh == nil {
		return nil, fmt.Errorf("load: SSA packages missing")
	}
	for _, pk := range pkgs {
		p.NFiles += len(pk.Syntax)
		for _, f := range pk.Syntax {
			for _, d := range f.Decls {
				if fd, ok := d.(*ast.FuncDecl); ok && fd.Body != nil {
					p.NFuncs++
				}
			}
		}
	}
	all := ssautil.AllFunctions(prog)
	for fn := range all {
		if fn.Blocks == nil {
			continue
		}
		if pk := fn.Package(); pk != nil && strings.HasPrefix(pk.Pkg.Path(), pkgSftp) {
			p.modFuncs = append(p.modFuncs, fn)
		} else if fn.Parent() != nil {
			if pp := outermost(fn).Package(); pp != nil && strings.HasPrefix(pp.Pkg.Path(), pkgSftp) {
				p.modFuncs = append(p.modFuncs, fn)
			}
		}
	}
	neverNilCall = func(v ssa.Value) bool {
		in, ok := v.(ssa.Instruction)
		if !ok || in.Block() == nil {
			return false
		}
		return p.errNeverNil(v, in.Block(), nil, 0)
	}
	sort.Slice(p.modFuncs, func(i, j int) bool { return p.modFuncs[i].String() < p.modFuncs[j].String() })
	p.NSSAFuncs = len(p.modFuncs)
	if p.NSSAFuncs < 400 {
		return nil, fmt.Errorf("load: only %d SSA functions with bodies in the module (expected > 400): partial load", p.NSSAFuncs)
	}
	return p, nil
}

func outermost(fn *ssa.Function) *ssa.Function {
	for fn.Parent() != nil {
		fn = fn.Parent()
	}
	return fn
}

// Syntax returns the go/packages view of a module package.
func (p *Program) Syntax(path string) *packages.Package { return p.byPath[path] }

// VTA returns the VTA-over-CHA call graph (built on first use).
func (p *Program) VTA() *callgraph.Graph {
	if p.cgVTA == nil {
		p.cgVTA = vta.CallGraph(ssautil.AllFunctions(p.SSA), p.CHA())
	}
	return p.cgVTA
}

// CHA returns the class-hierarchy call graph.
func (p *Program) CHA() *callgraph.Graph {
	if p.cgCHA == nil {
		p.cgCHA = cha.CallGraph(p.SSA)
	}
	return p.cgCHA
}

// ModuleFuncs lists every function (incl. closures) of the module that has a body.
func (p *Program) ModuleFuncs() []*ssa.Function { return p.modFuncs }

// SftpFuncs lists the functions of the three analysed library packages only
// (root package, filexfer, filexfer/openssh), excluding examples and server_standalone.
func (p *Program) LibFuncs() []*ssa.Function {
	var out []*ssa.Function
	for _, fn := range p.modFuncs {
		pk := outermost(fn).Package()
		if pk == nil {
			continue
		}
		switch pk.Pkg.Path() {
		case pkgSftp, pkgSshfx, pkgOpenssh:
			out = append(out, fn)
		}
	}
	return out
}

// Func finds a function of the root package by its short SSA name:
// "handlePacket", "(*Server).Serve", "(*Server).Serve$1", "(*packetManager).workerChan$1".
func (p *Program) Func(name string) *ssa.Function { return p.FuncIn(p.Sftp, name) }

func (p *Program) FuncIn(pkg *ssa.Package, name string) *ssa.Function {
	if fn := p.funcInExact(pkg, name); fn != nil {
		return fn
	}
	// re-homed: a package function that became a method (or a method that became a package function, or moved to another
	// receiver) under the same name — accepted when the name is unique among the package's functions and methods
	if strings.Contains(name, "$") {
		return nil
	}
	short := name
	if i := strings.Index(name, ")."); i >= 0 {
		short = name[i+2:]
	}
	var found []*ssa.Function
	if f := pkg.Func(short); f != nil && f.Blocks != nil {
		found = append(found, f)
	}
	for _, mem := range pkg.Members {
		t, ok := mem.(*ssa.Type)
		if !ok {
			continue
		}
		for _, rt := range []types.Type{t.Type(), types.NewPointer(t.Type())} {
			if sel := p.SSA.MethodSets.MethodSet(rt).Lookup(pkg.Pkg, short); sel != nil {
				if f := p.SSA.MethodValue(sel); f != nil && f.Blocks != nil && f.Synthetic == "" {
					dup := false
					for _, g := range found {
						if g == f {
							dup = true
						}
					}
					if !dup {
						found = append(found, f)
					}
				}
			}
		}
	}
	if len(found) == 1 {
		return found[0]
	}
	return nil
}

func (p *Program) funcInExact(pkg *ssa.Package, name string) *ssa.Function {
	base := name
	var closure []string
	if i := strings.IndexByte(name, '$'); i >= 0 {
		base = name[:i]
		closure = strings.Split(name[i+1:], "$")
	}
	var fn *ssa.Function
	if strings.HasPrefix(base, "(") {
		// method: (*T).M or (T).M
		end := strings.Index(base, ").")
		if end < 0 {
			return nil
		}
		recv, meth := base[1:end], base[end+2:]
		ptr := strings.HasPrefix(recv, "*")
		recv = strings.TrimPrefix(recv, "*")
		obj := pkg.Pkg.Scope().Lookup(recv)
		if obj == nil {
			return nil
		}
		var t types.Type = obj.Type()
		if ptr {
			t = types.NewPointer(t)
		}
		sel := p.SSA.MethodSets.MethodSet(t).Lookup(pkg.Pkg, meth)
		if sel == nil {
			return nil
		}
		fn = p.SSA.MethodValue(sel)
	} else {
		fn = pkg.Func(base)
	}
	if fn == nil {
		return nil
	}
	for _, c := range closure {
		var idx int
		fmt.Sscanf(c, "%d", &idx)
		if idx < 1 || idx > len(fn.AnonFuncs) {
			return nil
		}
		fn = fn.AnonFuncs[idx-1]
	}
	if fn.Blocks == nil {
		return nil
	}
	return fn
}

// Pos renders a position relative to the repo root.
func (p *Program) Pos(pos token.Pos) string {
	if !pos.IsValid() {
		return "?"
	}
	ps := p.Fset.Position(pos)
	f := ps.Filename
	if i := strings.Index(f, "/repo/"); i >= 0 {
		f = f[i+len("/repo/"):]
	}
	return fmt.Sprintf("%s:%d", f, ps.Line)
}

// NamedType looks up a named type of the root package.
func (p *Program) NamedType(pkg *ssa.Package, name string) *types.Named {
	obj := pkg.Pkg.Scope().Lookup(name)
	if obj == nil {
		return nil
	}
	n, _ := obj.Type().(*types.Named)
	return n
}

func sameOverlay(a, b map[string][]byte) bool {
	if len(a) != len(b) {
		return false
	}
	for k, v := range a {
		if w, ok := b[k]; !ok || string(v) != string(w) {
			return false
		}
	}
	return true
}
