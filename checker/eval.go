package main

// A small concrete interpreter over go/ssa, used where a rule needs the *table* a piece of code computes — the os
// flags for each combination of wire open flags, the mode bits for each wire mode word, the method string for each
// packet type — and must not depend on whether that table is written as an if-ladder, a switch, a lookup in a map or a
// slice, or is spread over helpers.  It is not a general evaluator: it knows integers (with the width of their type),
// booleans, strings, nil, interface values of a known dynamic type, struct objects with seeded fields and constant
// package-level tables; whatever else it meets is "unknown", an unknown branch condition stops the run, and the rule
// that asked reports undecided.  Nothing of pkg/sftp is executed: the interpreter reads SSA the checker built.

import (
	"strconv"
	"strings"
	"fmt"
	"go/constant"
	"go/token"
	"go/types"
	"os"

	"golang.org/x/tools/go/ssa"
)

type evKind int

const (
	evUnknown evKind = iota
	evConst          // integer, bool or string constant
	evNil
	evObject // pointer to / value of a struct whose fields are (partly) known
	evIface  // interface value of known dynamic type (payload in obj, may be nil)
	evTuple
	evFunc // a function value
	evSym  // an opaque token with a label (a request's field): it can be copied, converted and stored, not examined
)

type evObj struct {
	typ    types.Type
	fields map[string]evVal
	global bool // a package-level array or struct: what the initialiser did not set has its zero value
}

type evVal struct {
	k     evKind
	c     constant.Value
	t     types.Type // type of a constant; dynamic type of an interface value
	obj   *evObj
	inner *evVal // interface payload
	tup   []evVal
	fn    *ssa.Function
	sym   string
	free  []*evVal // a closure's captured variables (cells of the frame that made it)
}

func evSymbol(label string) evVal { return evVal{k: evSym, sym: label} }

// labelOf: the label of a token, of an interface that holds one, of a fresh slice that a token was copied into.
func labelOf(v evVal) string {
	switch v.k {
	case evSym:
		return v.sym
	case evIface:
		if v.inner != nil {
			return labelOf(*v.inner)
		}
	case evObject:
		if c, ok := v.obj.fields["copyof"]; ok {
			if l := labelOf(c); l != "" {
				return "copy:" + l
			}
		}
	}
	return ""
}

func (v evVal) String() string {
	switch v.k {
	case evSym:
		return "sym " + v.sym
	case evConst:
		return v.c.ExactString()
	case evNil:
		return "nil"
	case evObject:
		return "object " + typeName(v.obj.typ)
	case evIface:
		return "iface(" + v.t.String() + ")"
	case evFunc:
		return "func " + v.fn.Name()
	}
	return "?"
}

func evInt(i int64, t types.Type) evVal { return evVal{k: evConst, c: constant.MakeInt64(i), t: t} }
func evBool(b bool) evVal {
	return evVal{k: evConst, c: constant.MakeBool(b), t: types.Typ[types.Bool]}
}

// evStop is what a run ends with.
type evStop struct {
	kind string // "return", "intercept", "unknown", "panic", "limit"
	vals []evVal
	why  string
	at   ssa.Instruction
}

type evaluator struct {
	p *Program
	// intercept is asked at every call; returning true ends the run with the call's arguments
	intercept func(call *ssa.CallCommon, args []evVal) bool
	// opaque calls (by callee name) whose result is unknown but harmless
	steps   int
	globals map[*ssa.Global]*evVal
	gobjs   map[*ssa.Global]*evObj
	gscal   map[*ssa.Package]*evObj
	inited  map[*ssa.Package]bool
	lenient bool
	// nextFree: the captured cells of the closure that is about to be run (consumed by run)
	nextFree []*evVal
	// opaque, when set, is asked before a statically known callee is entered: it may give the call's value
	opaque func(callee *ssa.Function, args []evVal) (evVal, bool)
}

func newEvaluator(p *Program) *evaluator {
	return &evaluator{p: p, globals: map[*ssa.Global]*evVal{}, gobjs: map[*ssa.Global]*evObj{}, gscal: map[*ssa.Package]*evObj{}, inited: map[*ssa.Package]bool{}}
}

func wrapInt(c constant.Value, t types.Type) constant.Value {
	b, ok := t.Underlying().(*types.Basic)
	if !ok || b.Info()&types.IsInteger == 0 || c.Kind() != constant.Int {
		return c
	}
	bits := 64
	switch b.Kind() {
	case types.Int8, types.Uint8:
		bits = 8
	case types.Int16, types.Uint16:
		bits = 16
	case types.Int32, types.Uint32:
		bits = 32
	}
	unsigned := b.Info()&types.IsUnsigned != 0
	mod := constant.Shift(constant.MakeInt64(1), token.SHL, uint(bits))
	// c mod 2^bits, into range
	r := c
	q := constant.BinaryOp(r, token.QUO_ASSIGN, mod) // integer quotient
	r = constant.BinaryOp(r, token.SUB, constant.BinaryOp(q, token.MUL, mod))
	if constant.Sign(r) < 0 {
		r = constant.BinaryOp(r, token.ADD, mod)
	}
	if !unsigned {
		half := constant.Shift(constant.MakeInt64(1), token.SHL, uint(bits-1))
		if constant.Compare(r, token.GEQ, half) {
			r = constant.BinaryOp(r, token.SUB, mod)
		}
	}
	return r
}

// run evaluates fn with the given arguments (receiver first).
func (e *evaluator) run(fn *ssa.Function, args []evVal, depth int) evStop {
	if fn == nil || fn.Blocks == nil {
		return evStop{kind: "unknown", why: "function without body"}
	}
	if depth > 6 {
		return evStop{kind: "limit", why: "call depth"}
	}
	env := map[ssa.Value]evVal{}
	for i, prm := range fn.Params {
		if i < len(args) {
			env[prm] = args[i]
		}
	}
	cells := map[*ssa.Alloc]*evVal{}
	freeCells := map[*ssa.FreeVar]*evVal{}
	for i, fv := range fn.FreeVars {
		if i < len(e.nextFree) && e.nextFree[i] != nil {
			freeCells[fv] = e.nextFree[i]
		}
	}
	e.nextFree = nil
	var get func(v ssa.Value) evVal
	get = func(v ssa.Value) evVal {
		switch x := v.(type) {
		case *ssa.Const:
			if x.Value == nil {
				if _, isBasic := x.Type().Underlying().(*types.Basic); isBasic {
					// zero value of a basic type
					b := x.Type().Underlying().(*types.Basic)
					switch {
					case b.Info()&types.IsBoolean != 0:
						return evBool(false)
					case b.Info()&types.IsString != 0:
						return evVal{k: evConst, c: constant.MakeString(""), t: x.Type()}
					case b.Info()&types.IsNumeric != 0:
						return evInt(0, x.Type())
					}
				}
				return evVal{k: evNil, t: x.Type()}
			}
			return evVal{k: evConst, c: x.Value, t: x.Type()}
		case *ssa.Function:
			return evVal{k: evFunc, fn: x}
		case *ssa.FreeVar:
			// used as a value (the receiver bound by a method value)
			if c := freeCells[x]; c != nil {
				return *c
			}
			return evVal{}
		case *ssa.Global:
			if o := e.globalObj(x); o != nil {
				return evVal{k: evObject, obj: o}
			}
			return evVal{}
		}
		if r, ok := env[v]; ok {
			return r
		}
		return evVal{}
	}
	// ---- memory: objects (structs, arrays, tables) with named slots; scalars of local variables in cells ----
	isAggregate := func(t types.Type) bool {
		switch derefType(t).Underlying().(type) {
		case *types.Struct, *types.Array:
			return true
		}
		return false
	}
	newObjFor := func(t types.Type) *evObj {
		o := &evObj{typ: t, fields: map[string]evVal{}}
		if arr, ok := t.Underlying().(*types.Array); ok {
			o.fields["len"] = evInt(arr.Len(), types.Typ[types.Int])
		}
		return o
	}
	var addrOf func(a ssa.Value, d int) (*evObj, string)
	// objectAt: the object an address expression points to (created on first touch when it is a struct or array slot)
	objectAt := func(a ssa.Value, d int) *evObj {
		o, key := addrOf(a, d)
		if o == nil {
			return nil
		}
		if key == "" {
			return o
		}
		if slot, ok := o.fields[key]; ok && slot.k == evObject {
			return slot.obj
		}
		if pt, ok := a.Type().Underlying().(*types.Pointer); ok && isAggregate(pt.Elem()) {
			n := newObjFor(pt.Elem())
			o.fields[key] = evVal{k: evObject, obj: n}
			return n
		}
		return nil
	}
	addrOf = func(a ssa.Value, d int) (*evObj, string) {
		if d > 8 {
			return nil, ""
		}
		switch x := a.(type) {
		case *ssa.Alloc:
			if c := cells[x]; c != nil && c.k == evObject && isAggregate(x.Type()) {
				return c.obj, ""
			}
			return nil, ""
		case *ssa.Global:
			if isAggregate(x.Type()) {
				return e.globalObj(x), ""
			}
			return e.globalScalars(x.Pkg), "g:" + x.Name()
		case *ssa.FreeVar:
			if c := freeCells[x]; c != nil && c.k == evObject {
				return c.obj, ""
			}
			return nil, ""
		case *ssa.FieldAddr:
			base := objectAt(x.X, d+1)
			st := derefStruct(x.X.Type())
			if base == nil || st == nil {
				return nil, ""
			}
			return base, st.Field(x.Field).Name()
		case *ssa.IndexAddr:
			idx := get(x.Index)
			if idx.k != evConst {
				return nil, ""
			}
			var base *evObj
			if _, isPtr := x.X.Type().Underlying().(*types.Pointer); isPtr {
				base = objectAt(x.X, d+1)
			} else if v := get(x.X); v.k == evObject {
				base = v.obj // a slice that shares its array
			}
			if base == nil {
				return nil, ""
			}
			return base, "#" + idx.c.ExactString()
		}
		if v := get(a); v.k == evObject {
			return v.obj, ""
		}
		return nil, ""
	}
	loadFrom := func(a ssa.Value) evVal {
		if fv, ok := a.(*ssa.FreeVar); ok {
			if c := freeCells[fv]; c != nil {
				return *c
			}
			return evVal{}
		}
		if al, ok := a.(*ssa.Alloc); ok && !isAggregate(al.Type()) {
			if c := cells[al]; c != nil {
				return *c
			}
			return evVal{}
		}
		o, key := addrOf(a, 0)
		if o == nil {
			return evVal{}
		}
		if key == "" {
			return evVal{k: evObject, obj: o}
		}
		if v, ok := o.fields[key]; ok {
			return v
		}
		if pt, ok := a.Type().Underlying().(*types.Pointer); ok && isAggregate(pt.Elem()) {
			return evVal{k: evObject, obj: objectAt(a, 0)}
		}
		// an element of a package-level array that the initialiser left alone (a sparse table of constructors)
		if o.global && strings.HasPrefix(key, "#") {
			if arr, ok := o.typ.Underlying().(*types.Array); ok {
				if i, err := strconv.ParseInt(key[1:], 10, 64); err == nil && i >= 0 && i < arr.Len() {
					switch t := arr.Elem().Underlying().(type) {
					case *types.Pointer, *types.Signature, *types.Interface, *types.Slice, *types.Map, *types.Chan:
						return evVal{k: evNil}
					case *types.Basic:
						switch {
						case t.Info()&types.IsInteger != 0:
							return evInt(0, arr.Elem())
						case t.Info()&types.IsBoolean != 0:
							return evBool(false)
						case t.Info()&types.IsString != 0:
							return evVal{k: evConst, c: constant.MakeString(""), t: arr.Elem()}
						}
					}
				}
			}
		}
		return evVal{}
	}
	storeTo := func(a ssa.Value, v evVal) {
		if fv, ok := a.(*ssa.FreeVar); ok {
			if c := freeCells[fv]; c != nil && !isAggregate(fv.Type()) {
				*c = v
				return
			}
		}
		if al, ok := a.(*ssa.Alloc); ok && !isAggregate(al.Type()) {
			if c := cells[al]; c != nil {
				*c = v // in place: a closure may hold the cell
			} else {
				cells[al] = &v
			}
			return
		}
		o, key := addrOf(a, 0)
		if o == nil {
			return
		}
		if key == "" {
			if v.k == evObject {
				for k2, f := range v.obj.fields {
					o.fields[k2] = f
				}
			}
			return
		}
		o.fields[key] = v
	}
	_ = loadFrom
	_ = storeTo
	if e.lenient {
		// the package initialiser: every store is carried out, block after block, whatever the branches say
		for _, blk := range fn.Blocks {
			for _, in := range blk.Instrs {
				switch x := in.(type) {
				case *ssa.Alloc:
					if isAggregate(x.Type()) {
						o := evVal{k: evObject, obj: newObjFor(derefType(x.Type()))}
						env[x] = o
						cells[x] = &o
					}
				case *ssa.Store:
					storeTo(x.Addr, get(x.Val))
				case *ssa.MakeInterface:
					v := get(x.X)
					env[x] = evVal{k: evIface, t: x.X.Type(), inner: &v}
				case *ssa.Convert:
					v := get(x.X)
					if v.k == evConst {
						v.t = x.Type()
					}
					env[x] = v
				case *ssa.ChangeType:
					env[x] = get(x.X)
				case *ssa.Slice:
					if x.Low == nil && x.High == nil {
						if o := objectAt(x.X, 0); o != nil {
							env[x] = evVal{k: evObject, obj: o}
						}
					}
				case *ssa.UnOp:
					if x.Op == token.MUL {
						env[x] = loadFrom(x.X)
					}
				case *ssa.MakeMap:
					env[x] = evVal{k: evObject, obj: &evObj{typ: x.Type(), fields: map[string]evVal{}}}
				case *ssa.MapUpdate:
					if m, k := get(x.Map), get(x.Key); m.k == evObject && k.k == evConst {
						m.obj.fields["k:"+k.c.ExactString()] = get(x.Value)
					}
				case *ssa.MakeClosure:
					if f, ok := x.Fn.(*ssa.Function); ok && len(x.Bindings) == 0 {
						env[x] = evVal{k: evFunc, fn: f}
					}
				}
			}
		}
		return evStop{kind: "return"}
	}
	b := fn.Blocks[0]
	var pred *ssa.BasicBlock
	for {
		for _, in := range b.Instrs {
			e.steps++
			if e.steps > 200000 {
				return evStop{kind: "limit", why: "step limit", at: in}
			}
			switch x := in.(type) {
			case *ssa.Phi:
				for k, p := range b.Preds {
					if p == pred {
						env[x] = get(x.Edges[k])
					}
				}
			case *ssa.DebugRef:
			case *ssa.BinOp:
				env[x] = e.binop(x, get(x.X), get(x.Y))
			case *ssa.UnOp:
				if x.Op == token.MUL {
					env[x] = loadFrom(x.X)
					continue
				}
				env[x] = e.unop(x, get(x.X), cells)
			case *ssa.Convert:
				v := get(x.X)
				if v.k == evConst && v.c.Kind() == constant.Int {
					if bt, ok := x.Type().Underlying().(*types.Basic); ok && bt.Info()&types.IsInteger != 0 {
						v = evVal{k: evConst, c: wrapInt(v.c, x.Type()), t: x.Type()}
					} else if ok && bt.Info()&types.IsString != 0 {
						v = evVal{}
					}
				} else if v.k == evConst {
					v.t = x.Type()
				}
				env[x] = v
			case *ssa.ChangeType:
				v := get(x.X)
				if v.k == evConst {
					v.t = x.Type()
				}
				env[x] = v
			case *ssa.MakeInterface:
				v := get(x.X)
				env[x] = evVal{k: evIface, t: x.X.Type(), inner: &v}
			case *ssa.ChangeInterface:
				env[x] = get(x.X)
			case *ssa.Alloc:
				if isAggregate(x.Type()) {
					// a struct or array variable or literal: pointer and value are the same object here
					o := evVal{k: evObject, obj: newObjFor(derefType(x.Type()))}
					env[x] = o
					cells[x] = &o
				} else {
					z := evVal{}
					cells[x] = &z
				}
			case *ssa.Store:
				storeTo(x.Addr, get(x.Val))
			case *ssa.FieldAddr, *ssa.IndexAddr:
				// resolved at the load
			case *ssa.Field:
				v := get(x.X)
				if v.k == evObject {
					if st, ok := x.X.Type().Underlying().(*types.Struct); ok {
						if f, ok := v.obj.fields[st.Field(x.Field).Name()]; ok {
							env[x] = f
							continue
						}
					}
				}
				env[x] = evVal{}
			case *ssa.Extract:
				t := get(x.Tuple)
				if t.k == evTuple && x.Index < len(t.tup) {
					env[x] = t.tup[x.Index]
				} else {
					env[x] = evVal{}
				}
			case *ssa.TypeAssert:
				env[x] = e.typeAssert(x, get(x.X))
			case *ssa.Lookup:
				env[x] = e.lookup(x, get(x.X), get(x.Index))
			case *ssa.Index:
				env[x] = evVal{}
				if base, idx := get(x.X), get(x.Index); base.k == evObject && idx.k == evConst {
					if f, ok := base.obj.fields["#"+idx.c.ExactString()]; ok {
						env[x] = f
					}
				}
			case *ssa.Slice:
				env[x] = evVal{}
				if x.Low == nil && x.High == nil {
					if _, isPtr := x.X.Type().Underlying().(*types.Pointer); isPtr {
						if o := objectAt(x.X, 0); o != nil {
							env[x] = evVal{k: evObject, obj: o}
						}
					} else {
						env[x] = get(x.X)
					}
				}
			case *ssa.MakeMap:
				env[x] = evVal{k: evObject, obj: &evObj{typ: x.Type(), fields: map[string]evVal{}}}
			case *ssa.MakeClosure:
				env[x] = evVal{}
				if f, ok := x.Fn.(*ssa.Function); ok {
					fv := evVal{k: evFunc, fn: f}
					for _, b := range x.Bindings {
						var cell *evVal
						switch y := b.(type) {
						case *ssa.Alloc:
							if cells[y] == nil {
								z := evVal{}
								cells[y] = &z
							}
							cell = cells[y]
						case *ssa.FreeVar:
							cell = freeCells[y]
						}
						fv.free = append(fv.free, cell)
					}
					env[x] = fv
				}
			case *ssa.MakeSlice:
				// a fresh slice: what is copied into it is remembered (labelOf)
				env[x] = evVal{k: evObject, obj: &evObj{typ: x.Type(), fields: map[string]evVal{}}}
			case *ssa.MakeChan, *ssa.Range, *ssa.Next, *ssa.Select, *ssa.SliceToArrayPointer:
				if v, ok := in.(ssa.Value); ok {
					env[v] = evVal{}
				}
			case *ssa.MapUpdate:
				if m, k := get(x.Map), get(x.Key); m.k == evObject && k.k == evConst {
					m.obj.fields["k:"+k.c.ExactString()] = get(x.Value)
				}
			case *ssa.Send, *ssa.Go, *ssa.Defer, *ssa.RunDefers:
			case *ssa.Call:
				args := []evVal{}
				cc := &x.Call
				if cc.IsInvoke() {
					args = append(args, get(cc.Value))
				}
				for _, a := range cc.Args {
					args = append(args, get(a))
				}
				if e.intercept != nil && e.intercept(cc, args) {
					return evStop{kind: "intercept", vals: args, at: in}
				}
				env[x] = e.call(x, cc, args, get, depth)
			case *ssa.If:
				c := get(x.Cond)
				if c.k != evConst || c.c.Kind() != constant.Bool {
					if debugEval {
						if bo, ok := x.Cond.(*ssa.BinOp); ok {
							fmt.Fprintf(os.Stderr, "eval: unknown cond %s: X=%v Y=%v\n", bo, get(bo.X), get(bo.Y))
						}
					}
					return evStop{kind: "unknown", why: "branch on a value that is not known: " + x.Cond.String(), at: in}
				}
				pred = b
				if constant.BoolVal(c.c) {
					b = b.Succs[0]
				} else {
					b = b.Succs[1]
				}
				goto next
			case *ssa.Jump:
				pred = b
				b = b.Succs[0]
				goto next
			case *ssa.Return:
				var vals []evVal
				for _, r := range x.Results {
					vals = append(vals, get(r))
				}
				return evStop{kind: "return", vals: vals, at: in}
			case *ssa.Panic:
				return evStop{kind: "panic", at: in}
			default:
				if v, ok := in.(ssa.Value); ok {
					env[v] = evVal{}
				}
			}
		}
		return evStop{kind: "unknown", why: "fell off a block"}
	next:
	}
}

func (e *evaluator) unop(x *ssa.UnOp, v evVal, cells map[*ssa.Alloc]*evVal) evVal {
	switch x.Op {
	case token.NOT:
		if v.k == evConst && v.c.Kind() == constant.Bool {
			return evBool(!constant.BoolVal(v.c))
		}
	case token.SUB, token.XOR:
		if v.k == evConst && v.c.Kind() == constant.Int {
			return evVal{k: evConst, c: wrapInt(constant.UnaryOp(x.Op, v.c, 0), x.Type()), t: x.Type()}
		}
	}
	return evVal{}
}

func (e *evaluator) binop(x *ssa.BinOp, a, b evVal) evVal {
	if a.k == evNil && b.k == evNil {
		switch x.Op {
		case token.EQL:
			return evBool(true)
		case token.NEQ:
			return evBool(false)
		}
	}
	if (a.k == evNil && (b.k == evObject || b.k == evIface || b.k == evFunc)) || (b.k == evNil && (a.k == evObject || a.k == evIface || a.k == evFunc)) {
		switch x.Op {
		case token.EQL:
			return evBool(false)
		case token.NEQ:
			return evBool(true)
		}
	}
	if a.k != evConst || b.k != evConst {
		// short cuts that do not need both sides
		if x.Op == token.AND || x.Op == token.MUL {
			for _, s := range []evVal{a, b} {
				if s.k == evConst && s.c.Kind() == constant.Int && constant.Sign(s.c) == 0 {
					return evInt(0, x.Type())
				}
			}
		}
		return evVal{}
	}
	switch x.Op {
	case token.EQL, token.NEQ, token.LSS, token.LEQ, token.GTR, token.GEQ:
		if a.c.Kind() == b.c.Kind() {
			return evBool(constant.Compare(a.c, x.Op, b.c))
		}
		return evVal{}
	case token.SHL, token.SHR:
		if s, ok := constant.Uint64Val(b.c); ok && a.c.Kind() == constant.Int && s < 128 {
			return evVal{k: evConst, c: wrapInt(constant.Shift(a.c, x.Op, uint(s)), x.Type()), t: x.Type()}
		}
		return evVal{}
	case token.AND_NOT:
		if a.c.Kind() == constant.Int && b.c.Kind() == constant.Int {
			nb := constant.UnaryOp(token.XOR, b.c, 0)
			return evVal{k: evConst, c: wrapInt(constant.BinaryOp(a.c, token.AND, wrapInt(nb, x.Type())), x.Type()), t: x.Type()}
		}
		return evVal{}
	case token.QUO, token.REM:
		if b.c.Kind() == constant.Int && constant.Sign(b.c) == 0 {
			return evVal{}
		}
		op := x.Op
		if a.c.Kind() == constant.Int && op == token.QUO {
			op = token.QUO_ASSIGN // integer division
		}
		return evVal{k: evConst, c: wrapInt(constant.BinaryOp(a.c, op, b.c), x.Type()), t: x.Type()}
	case token.LAND, token.LOR:
		return evVal{}
	}
	if a.c.Kind() != b.c.Kind() {
		return evVal{}
	}
	return evVal{k: evConst, c: wrapInt(constant.BinaryOp(a.c, x.Op, b.c), x.Type()), t: x.Type()}
}

func (e *evaluator) typeAssert(x *ssa.TypeAssert, v evVal) evVal {
	fail := func() evVal {
		if x.CommaOk {
			return evVal{k: evTuple, tup: []evVal{{}, evBool(false)}}
		}
		return evVal{}
	}
	if v.k == evNil {
		return fail()
	}
	if v.k != evIface || v.t == nil {
		if x.CommaOk {
			return evVal{k: evTuple, tup: []evVal{{}, {}}}
		}
		return evVal{}
	}
	okT := false
	if it, isI := x.AssertedType.Underlying().(*types.Interface); isI {
		okT = types.Implements(v.t, it)
	} else {
		okT = types.Identical(v.t, x.AssertedType)
	}
	if !okT {
		return fail()
	}
	res := v
	if _, isI := x.AssertedType.Underlying().(*types.Interface); !isI && v.inner != nil {
		res = *v.inner
	}
	if x.CommaOk {
		return evVal{k: evTuple, tup: []evVal{res, evBool(true)}}
	}
	return res
}

func (e *evaluator) call(x *ssa.Call, cc *ssa.CallCommon, args []evVal, get func(ssa.Value) evVal, depth int) evVal {
	if name := builtinName(cc); name != "" {
		if name == "len" && len(args) == 1 {
			if args[0].k == evObject {
				if l, ok := args[0].obj.fields["len"]; ok {
					return l
				}
			}
			if args[0].k == evConst && args[0].c.Kind() == constant.String {
				return evInt(int64(len(constant.StringVal(args[0].c))), types.Typ[types.Int])
			}
			if args[0].k == evNil {
				return evInt(0, types.Typ[types.Int])
			}
		}
		if name == "append" && len(args) == 2 && args[0].k == evNil {
			if l := labelOf(args[1]); l != "" {
				return evSymbol("copy:" + l) // append([]T(nil), x...): a fresh slice with x's contents
			}
		}
		if name == "copy" && len(args) == 2 && args[0].k == evObject {
			if l := labelOf(args[1]); l != "" {
				args[0].obj.fields["copyof"] = evSymbol(l)
			}
		}
		return evVal{}
	}
	var callee *ssa.Function
	if cc.IsInvoke() {
		recv := args[0]
		if recv.k == evIface && recv.t != nil {
			callee = e.p.methodOf(recv.t, cc.Method.Name())
			if recv.inner != nil {
				args = append([]evVal{*recv.inner}, args[1:]...)
			}
		}
	} else if f := cc.StaticCallee(); f != nil {
		callee = f
		if _, isClosure := cc.Value.(*ssa.MakeClosure); isClosure {
			if fv := get(cc.Value); fv.k == evFunc {
				e.nextFree = fv.free
			}
		}
	} else if fv := get(cc.Value); fv.k == evFunc {
		callee = fv.fn
		e.nextFree = fv.free
	}
	free := e.nextFree
	e.nextFree = nil
	// constructors of errors never return nil
	if callee != nil && callee.Pkg != nil && !inModule(callee) {
		switch callee.Pkg.Pkg.Path() + "." + callee.Name() {
		case "fmt.Errorf", "errors.New":
			return evVal{k: evIface}
		}
	}
	if callee != nil && e.opaque != nil {
		if v, ok := e.opaque(callee, args); ok {
			return v
		}
	}
	if callee == nil || callee.Blocks == nil || !inModule(callee) {
		return evVal{}
	}
	e.nextFree = free
	st := e.run(callee, args, depth+1)
	if debugEval && st.kind != "return" {
		fmt.Fprintf(os.Stderr, "eval: call %s with %v ended %s: %s\n", callee.Name(), args, st.kind, st.why)
	}
	switch st.kind {
	case "return":
		if len(st.vals) == 1 {
			return st.vals[0]
		}
		return evVal{k: evTuple, tup: st.vals}
	}
	return evVal{}
}

// ---- package-level variables ----
//
// The package initialiser is run once in a lenient mode (every store carried out, branches ignored): that gives the
// contents of constant tables (maps, arrays and slices of constants, of small structs, of function literals).

func (e *evaluator) initPackage(pkg *ssa.Package) {
	if pkg == nil || e.inited[pkg] {
		return
	}
	e.inited[pkg] = true
	init := pkg.Func("init")
	if init == nil || init.Blocks == nil {
		return
	}
	sub := &evaluator{p: e.p, globals: e.globals, gobjs: e.gobjs, gscal: e.gscal, inited: e.inited, lenient: true}
	sub.run(init, nil, 0)
}

func (e *evaluator) globalObj(g *ssa.Global) *evObj {
	if o, ok := e.gobjs[g]; ok {
		e.initPackage(g.Pkg)
		return o
	}
	switch derefType(g.Type()).Underlying().(type) {
	case *types.Struct, *types.Array:
	default:
		return nil
	}
	o := &evObj{typ: derefType(g.Type()), fields: map[string]evVal{}, global: true}
	if arr, ok := derefType(g.Type()).Underlying().(*types.Array); ok {
		o.fields["len"] = evInt(arr.Len(), types.Typ[types.Int])
	}
	e.gobjs[g] = o
	e.initPackage(g.Pkg)
	return o
}

// globalScalars holds the package-level variables that are not aggregates (maps, slices, scalars), one slot each.
func (e *evaluator) globalScalars(pkg *ssa.Package) *evObj {
	if o, ok := e.gscal[pkg]; ok {
		e.initPackage(pkg)
		return o
	}
	o := &evObj{fields: map[string]evVal{}}
	e.gscal[pkg] = o
	e.initPackage(pkg)
	return o
}

func (e *evaluator) lookup(x *ssa.Lookup, m, k evVal) evVal {
	// a key that is not there: the zero value of the element type
	zero := evVal{k: evNil}
	if mt, ok := x.X.Type().Underlying().(*types.Map); ok {
		if bt, ok := mt.Elem().Underlying().(*types.Basic); ok {
			switch {
			case bt.Info()&types.IsInteger != 0:
				zero = evInt(0, mt.Elem())
			case bt.Info()&types.IsBoolean != 0:
				zero = evBool(false)
			case bt.Info()&types.IsString != 0:
				zero = evVal{k: evConst, c: constant.MakeString(""), t: mt.Elem()}
			}
		}
	}
	miss := func() evVal {
		if x.CommaOk {
			return evVal{k: evTuple, tup: []evVal{zero, evBool(false)}}
		}
		return zero
	}
	if m.k != evObject || k.k != evConst {
		if x.CommaOk {
			return evVal{k: evTuple, tup: []evVal{{}, {}}}
		}
		return evVal{}
	}
	if v, ok := m.obj.fields["k:"+k.c.ExactString()]; ok {
		if x.CommaOk {
			return evVal{k: evTuple, tup: []evVal{v, evBool(true)}}
		}
		return v
	}
	return miss()
}

var debugEval = os.Getenv("VERIF_DEBUG_EVAL") != ""
