// sftpcheck decides the properties in /verif/properties.jsonl for the pkg/sftp
// working tree by static analysis: it type-checks /repo, builds SSA and call
// graphs, and evaluates repository-specific rules. It never runs pkg/sftp code.
package main

import (
	"encoding/json"
	"flag"
	"fmt"
	"os"
	"path/filepath"
	"runtime/debug"
	"sort"
	"strconv"
	"strings"
	"time"
)

type propSpec struct {
	level       string
	explanation string
	run         func(c *Ctx)
	// configs beyond the default that the thorough tier adds
	extra []BuildConfig
	// configs beyond the default that the quick tier runs too (integer widths: GOARCH=386)
	quickExtra []BuildConfig
	// selftest runs positive controls (in-memory mutants); returns human lines and failures
	assumptions []string
	trusted     []string
}

var registry = map[string]*propSpec{}

// properties whose rules compare against POSIX tables and are therefore not evaluated on GOOS=windows
var posixOnly = map[string]bool{"C05": true, "C09": true, "C11": true, "C17": true, "DBG": true}

func register(id string, s *propSpec) { registry[id] = s }

func main() {
	prop := flag.String("property", "", "property id (C01..C20) or 'all'")
	tier := flag.String("tier", "", "quick|thorough (default: $VERIF_TIER or quick)")
	repo := flag.String("repo", "/repo", "repository to analyse")
	out := flag.String("out", "/verif/evidence", "evidence directory")
	knownPath := flag.String("known", "/verif/known_findings.txt", "known findings file (read only)")
	replay := flag.String("replay", "", "print a stored violation")
	list := flag.Bool("list", false, "list obligations")
	seeds := flag.String("seeds", "/verif/seeded", "directory of seeded faults used as positive controls in the thorough tier")
	refactors := flag.String("refactors", "/verif/refactors", "directory of behaviour-preserving refactorings used as negative controls in the thorough tier")
	symtabOut := flag.String("write-symtab", "", "write the reference symbol table of -repo to this file and exit")
	flag.Parse()
	if *symtabOut != "" {
		if err := writeSymtab(*repo, *symtabOut); err != nil {
			fmt.Println(err)
			os.Exit(2)
		}
		// the digest of the tree the table (and the stored controls) belong to
		os.WriteFile(filepath.Join(filepath.Dir(*symtabOut), "refdigest.txt"), []byte(treeDigest(*repo)+"\n"), 0o644)
		os.Exit(0)
	}

	if *replay != "" {
		b, err := os.ReadFile(*replay)
		if err != nil {
			fmt.Println(err)
			os.Exit(2)
		}
		var m map[string]any
		json.Unmarshal(b, &m)
		fmt.Printf("stored violation %s:\n%s\nre-run: %v\n", *replay, b, m["cmd"])
		os.Exit(0)
	}
	if *tier == "" {
		*tier = os.Getenv("VERIF_TIER")
	}
	if *tier != "thorough" {
		*tier = "quick"
	}
	seed, _ := strconv.Atoi(os.Getenv("VERIF_SEED"))

	var ids []string
	if *prop == "all" {
		for id := range registry {
			if id != "DBG" {
				ids = append(ids, id)
			}
		}
		sort.Strings(ids)
	} else {
		ids = strings.Split(*prop, ",")
	}
	known, err := loadKnown(*knownPath)
	if err != nil {
		fmt.Printf("VIOLATION property=%s replay=%s\n%v\n", *prop, *knownPath, err)
		os.Exit(1)
	}

	progs := map[string]*Program{}
	get := func(cfg BuildConfig) (*Program, error) {
		if p, ok := progs[cfg.Name]; ok {
			return p, nil
		}
		p, err := Load(*repo, cfg)
		if err != nil {
			return nil, err
		}
		progs[cfg.Name] = p
		return p, nil
	}

	exit := 0
	for _, id := range ids {
		spec := registry[id]
		if spec == nil {
			fmt.Printf("unknown property %q\n", id)
			os.Exit(2)
		}
		start := time.Now()
		cmdline := fmt.Sprintf("bin/sftpcheck -property %s -tier %s", id, *tier)
		cfgs := []BuildConfig{cfgDefault}
		if forced := os.Getenv("VERIF_CONFIG"); forced != "" {
			// experiment switch: run the rules on one other build configuration only
			for _, k := range []BuildConfig{cfg386, cfgDebug, cfgWindows, cfgDarwin, cfgPlan9} {
				if k.Name == forced {
					cfgs = []BuildConfig{k}
				}
			}
		}
		if os.Getenv("VERIF_CONFIG") == "" && *tier != "thorough" {
			cfgs = append(cfgs, spec.quickExtra...)
		}
		if *tier == "thorough" {
			cfgs = append(cfgs, spec.quickExtra...)
			cfgs = append(cfgs, spec.extra...)
			// the build-tagged files of the other targets: darwin shares the unix files with other syscall tables;
			// windows brings server_windows.go, request_windows.go and the stub files.  Rules whose oracle tables are
			// POSIX by construction (errno values, Stat_t, statvfs, the toLocalPath of server_unix.go) are not run there.
			cfgs = append(cfgs, cfgDarwin)
			if !posixOnly[id] {
				cfgs = append(cfgs, cfgWindows)
			}
		}
		res := &runResult{stats: map[string]any{}}
		for _, cfg := range cfgs {
			p, err := get(cfg)
			if err != nil {
				// a tree that does not load cannot be decided: that is a failure, not a pass
				c := newCtx(&Program{Cfg: cfg}, id, *tier)
				c.und("LOAD", "load:"+cfg.Name, "?", err.Error())
				res.merge(c)
				continue
			}
			c := newCtx(p, id, *tier)
			for _, r := range p.Renames {
				c.note("[%s] renamed symbol: %s", cfg.Name, r)
			}
			func() {
				defer func() {
					if r := recover(); r != nil {
						c.und("PANIC", "checker-panic", "?", fmt.Sprintf("checker panicked: %v\n%s", r, debug.Stack()))
					}
				}()
				spec.run(c)
			}()
			c.assumes(spec.assumptions...)
			c.trusted(spec.trusted...)
			res.merge(c)
			res.stats["packages"] = len(p.Pkgs)
			res.stats["files"] = p.NFiles
			res.stats["source_functions"] = p.NFuncs
			res.stats["ssa_functions_in_module"] = p.NSSAFuncs
			if *list {
				for _, o := range c.obs {
					fmt.Printf("  %-10s %-12s %s  [%s] %s\n", o.Status, o.Rule, o.Key, o.Pos, o.Detail)
				}
			}
		}
		missedControls, falseAlarms := 0, 0
		runCtl := *tier == "thorough" && os.Getenv("VERIF_NO_CONTROLS") == ""
		if runCtl {
			lines, applied, missed := runControls(id, *repo, *knownPath, *seeds)
			res.selftests = append(res.selftests, lines...)
			res.stats["controls_applied"] = applied
			res.stats["controls_missed"] = missed
			missedControls = missed
			for _, l := range lines {
				fmt.Println("CONTROL " + l)
			}
		}
		if runCtl && !hasUnlisted(id, res, known) {
			// negative controls only make sense on a tree the rules accept
			lines, applied, alarms := runNegativeControls(id, *repo, *knownPath, *refactors)
			falseAlarms = alarms
			res.selftests = append(res.selftests, lines...)
			res.stats["refactorings_applied"] = applied
			res.stats["refactorings_reported"] = alarms
			for _, l := range lines {
				fmt.Println("CONTROL " + l)
			}
		}
		code := finish(id, *tier, spec.level, spec.explanation, seed, res, known, *out, start, cmdline)
		strict := isReferenceTree(*repo) || os.Getenv("VERIF_STRICT_CONTROLS") != ""
		if code == 0 && missedControls > 0 {
			// not a violation of the property: the check itself has lost sensitivity
			fmt.Printf("CONTROL-MISSED property=%s: %d seeded fault(s) that apply to this tree are no longer reported\n", id, missedControls)
			if strict {
				code = 2
			}
		}
		if code == 0 && falseAlarms > 0 {
			fmt.Printf("CONTROL-FALSE-ALARM property=%s: %d behaviour-preserving refactoring(s) are reported as violations\n", id, falseAlarms)
			if strict {
				code = 2
			}
		}
		if code > exit {
			exit = code
		}
	}
	os.Exit(exit)
}

// hasUnlisted: is there an obligation that is not discharged and not a known finding?
func hasUnlisted(prop string, r *runResult, known []knownFinding) bool {
	for _, o := range r.obs {
		if o.status == Discharged {
			continue
		}
		matched := false
		for _, k := range known {
			if k.Prop == prop && prop+"."+k.Rule == o.Rule && k.Key == o.Key {
				matched = true
			}
		}
		if !matched {
			return true
		}
	}
	return false
}
