package main

import (
	"sort"
	"fmt"
	"go/token"
	"go/types"
	"strings"

	"golang.org/x/tools/go/ssa"
)

func init() {
	register("C07", &propSpec{
		level:       "other",
		explanation: "Server robustness decided structurally for both receive loops and the handling cones: a packet whose decoding failed (other than an unknown extension name) is never handed to the dispatcher and a nil packet never is; on that path the connection is closed and Serve reports the error; on every exit the shutdown sequence close(pktChan) → workers joined → handle sweep runs, the dispatcher closes both worker channels, and a worker's response is queued before the barrier counter is released (so the join cannot wedge); no panic-capable instruction on request-derived data in the handling cones is left undischarged by the bounds prover (type assertions on attribute blobs, allocator page slicing), the decoders of requests that carry an ATTRS block (OPEN, MKDIR, SETSTAT, FSETSTAT) refuse a block shorter than its flags announce, and no WaitGroup.Wait runs while holding a mutex the awaited goroutines can acquire. 'Emitted responses are a prefix of the correct ones' and goroutine leaks in general are not decided.",
		run:         runC07,
		assumptions: []string{"user handlers do not panic", "maxTxPacket is below 2^31 (WithMaxTxPacket has no upper bound; larger values are outside what the prover assumes)"},
		extra:       []BuildConfig{cfgDebug},
	})
}

func runC07(c *Ctx) {
	p := c.P
	pos := func(in ssa.Instruction) string { return p.Pos(in.Pos()) }
	isSend := func(in ssa.Instruction) bool { _, ok := in.(*ssa.Send); return ok }
	isClose := func(in ssa.Instruction) bool {
		cc := callOf(in)
		return cc != nil && calleeName(cc) == "Close"
	}

	checkBadPacketEndsSession(c)
	// makePacket: a nil packet only together with a non-nil error
	if mk := p.Func("makePacket"); mk == nil {
		c.missing("R1", "makePacket")
	} else {
		eachInstr(mk, func(in ssa.Instruction) {
			r, ok := in.(*ssa.Return)
			if !ok || !isReturn(in) {
				return
			}
			if isNilConst(r.Results[0]) {
				c.check(definitelyNonNil(r.Results[1], in), "R1", "makePacket nil packet has an error", pos(in), "unknown type byte is an error", "makePacket can return a nil packet with a nil error: the servers dispatch it and crash")
			}
			if isNilConst(r.Results[1]) {
				// success: the packet was decoded (UnmarshalBinary returned nil on this path)
				okDec := false
				for _, u := range callsWhere(mk, func(cc *ssa.CallCommon) bool { return cc.IsInvoke() && cc.Method.Name() == "UnmarshalBinary" }) {
					if dominates(u, in) {
						okDec = true
					}
				}
				c.check(okDec, "R1", "makePacket success means decoded", pos(in), "nil error only after UnmarshalBinary succeeded", "makePacket reports success without decoding the body")
			}
		})
	}

	// ---------- R3 shutdown sequence ----------
	if sv := p.Func("(*Server).Serve"); sv != nil {
		var closeChan, wait, sweep ssa.Instruction
		eachInstr(sv, func(in ssa.Instruction) {
			cc := callOf(in)
			if cc == nil {
				return
			}
			if builtinName(cc) == "close" {
				closeChan = in
			}
			if isWGCall(cc, "Wait") {
				wait = in
			}
		})
		eachInstr(sv, func(in ssa.Instruction) {
			if r, ok := in.(*ssa.Range); ok {
				for _, l := range leavesOf(r.X) {
					if l.Kind == leafFieldLoad && l.Field == "openFiles" {
						sweep = in
					}
				}
			}
		})
		good := closeChan != nil && wait != nil && sweep != nil && dominates(closeChan, wait) && dominates(wait, sweep)
		if good {
			for _, r := range findInstrs(sv, isReturn) {
				if !dominates(sweep, r) {
					good = false
				}
			}
		}
		c.check(good, "R3", "Server.Serve shutdown sequence", p.Pos(sv.Pos()), "close(pktChan) → wg.Wait() → sweep → return on every exit", "Serve can return without closing the request channel, joining the workers and sweeping the open files in that order")
	} else {
		c.missing("R3", "(*Server).Serve")
	}
	if sl := p.Func("(*RequestServer).serveLoop"); sl != nil {
		okDefer := false
		eachInstr(sl, func(in ssa.Instruction) {
			if d, ok := in.(*ssa.Defer); ok && builtinName(&d.Call) == "close" {
				okDefer = true
				for _, r := range findInstrs(sl, isReturn) {
					if !dominates(in, r) {
						okDefer = false
					}
				}
			}
		})
		c.check(okDefer, "R3", "serveLoop closes the request channel", p.Pos(sl.Pos()), "defer close(pktChan)", "serveLoop can return without closing the request channel: the workers never end and Serve blocks in wg.Wait")
	} else {
		c.missing("R3", "(*RequestServer).serveLoop")
	}
	if rs := p.Func("(*RequestServer).Serve"); rs != nil {
		var loopCall, wait, sweep ssa.Instruction
		eachInstr(rs, func(in ssa.Instruction) {
			cc := callOf(in)
			if cc == nil {
				return
			}
			if calleeName(cc) == "serveLoop" {
				loopCall = in
			}
			if isWGCall(cc, "Wait") {
				wait = in
			}
		})
		eachInstr(rs, func(in ssa.Instruction) {
			if r, ok := in.(*ssa.Range); ok {
				for _, l := range leavesOf(r.X) {
					if l.Kind == leafFieldLoad && l.Field == "openRequests" {
						sweep = in
					}
				}
			}
		})
		good := loopCall != nil && wait != nil && sweep != nil && dominates(loopCall, wait) && dominates(wait, sweep)
		if good {
			for _, r := range findInstrs(rs, isReturn) {
				if !dominates(sweep, r) && !behindEmptyTableTest(rs, r, "openRequests", wait) {
					good = false
				}
			}
		}
		c.check(good, "R3", "RequestServer.Serve shutdown sequence", p.Pos(rs.Pos()), "serveLoop → wg.Wait() → sweep → return on every exit", "RequestServer.Serve can return without joining the workers and sweeping the open requests")
	} else {
		c.missing("R3", "(*RequestServer).Serve")
	}
	if d := getDispatcher(c, "R3"); d != nil {
		// after the range loop: both worker channels closed, then the manager closed
		n := 0
		var mgrClose ssa.Instruction
		eachInstr(d.disp, func(in ssa.Instruction) {
			cc := callOf(in)
			if cc == nil {
				return
			}
			if builtinName(cc) == "close" && !inLoop(in) {
				n++
			}
			if calleeName(cc) == "close" && cc.StaticCallee() != nil {
				mgrClose = in
			}
		})
		c.check(n == 2 && mgrClose != nil, "R3", "dispatcher closes both worker channels", p.Pos(d.disp.Pos()), "close(rwChan); close(cmdChan); s.close()", "the dispatcher does not close both worker channels when the request channel ends: workers never terminate")
	}
	if rp := p.Func("(*packetManager).readyPacket"); rp != nil {
		var snd, done ssa.Instruction
		eachInstr(rp, func(in ssa.Instruction) {
			if isSend(in) {
				snd = in
			}
			if cc := callOf(in); cc != nil && isWGCall(cc, "Done") {
				done = in
			}
		})
		_, plain := done.(*ssa.Call)
		c.check(snd != nil && done != nil && plain && dominates(snd, done), "R3", "response queued before the barrier is released", p.Pos(rp.Pos()), "responses <- pkt; working.Done()", "working.Done() runs before the response is queued: at shutdown the controller can stop while workers still block on the responses channel, and Serve never returns")
	} else {
		c.missing("R3", "(*packetManager).readyPacket")
	}
	if cl := p.Func("(*packetManager).close"); cl != nil {
		var wait, fin ssa.Instruction
		eachInstr(cl, func(in ssa.Instruction) {
			cc := callOf(in)
			if cc == nil {
				return
			}
			if isWGCall(cc, "Wait") {
				wait = in
			}
			if builtinName(cc) == "close" {
				fin = in
			}
		})
		c.check(wait != nil && fin != nil && dominates(wait, fin), "R3", "packet manager stops after pending work", p.Pos(cl.Pos()), "working.Wait(); close(fini)", "the controller is stopped before pending requests were answered")
	} else {
		c.missing("R3", "(*packetManager).close")
	}
	// a failing worker closes the connection so that the receive loop ends
	for _, name := range []string{"(*Server).Serve", "(*RequestServer).Serve"} {
		fn := p.Func(name)
		if fn == nil {
			continue
		}
		okc := false
		eachInstrDeep(fn, func(f *ssa.Function, in ssa.Instruction) {
			if f != fn && isClose(in) {
				// inside the worker goroutine, on the worker's error branch
				okc = true
			}
		})
		c.check(okc, "R3", name+" worker failure closes the connection", p.Pos(fn.Pos()), "conn.Close() when a worker returns an error", "a worker that stops with an error leaves the receive loop blocked")
	}

	checkServerPanicSites(c)
	checkJoinUnderLock(c, "R5")
	checkAttrsValidatedAtDecode(c, "R6")
	// R7: a handler blocked on its request context must be released before Serve joins the workers (shared with C11.R11)
	checkContextCancelledBeforeJoin(c, "R7")
	checkHandleCommandsOrdered(c, "R8")
	// R9: no reply bypasses the packet manager ("responses emitted are a prefix of the correct ones"): shared with C02.R3
	if se := p.Func("(*serverConn).sendError"); se != nil {
		n := len(p.callersOfStatic(se)) + len(p.refsAsValue(se))
		c.check(n == 0, "R9", "sendError unused", p.Pos(se.Pos()), "serverConn.sendError has no caller", "a receive loop answers a request directly with serverConn.sendError: that reply is written at once and overtakes the replies to earlier requests that are still being served")
	}
	// R10: oversized and empty frames are refused before the body is read, with and without the allocator (shared with C08.O3)
	c.withRule("R10", func() { checkFrameLimits(c, newZWorld(p)) })
	checkDecodeErrorsNotOverwritten(c, "R12")
	checkMakePacketTable(c, "R14")
	// R15 (shared with C18.R8): a length field larger than the bytes received must be refused — a decoder that measures
	// against the capacity accepts it when the frame lies in a recycled page, and the request is acted upon with stale bytes
	checkNoSliceExtension(c, "R15")
	checkSpecificPacketGuarded(c, "R16")
	// R17 (shared with C02.R1): each iteration of a worker answers its request exactly once — a second answer to the same
	// request releases the packet manager's barrier twice (WaitGroup goes negative: panic) and a refused request is
	// carried out after all
	c.withOnly("R1", "R17", func() { runC02(c) })
	// R18 (shared with C11.R1): handles are issued from a counter that only advances — a handle issued twice replaces
	// a live table entry, whose object is then never closed, neither by CLOSE nor by the sweep when Serve returns
	c.withOnly("R1", "R18", func() { runC11(c) })
	checkWorkersAccountedFor(c, "R19")
	// R20 (shared with C02.R3): what is emitted is a prefix of the correct responses only if responses leave by order id
	c.withOnlyKeys("R3", "R20", []string{"maybeSendPackets"}, func() { runC02(c) })
	// R21 (shared with C01.R4): what a READ makes the server allocate and send is bounded by the configured maximum, not by the request
	c.withOnly("R4", "R21", func() { runC01Server(c) })
	// R23 (= C08.O13): a read from the stream that failed is the last one (a time-out in the middle of a frame must
	// not be followed by a read that takes the rest of the payload for frame headers)
	checkFailedReadIsFinal(c, "R23", 8)
	// R24 (= C04.R10): after a reply write that failed part-way nothing more is written into the torn frame
	checkWriteFailureLatched(c, "R24")
	// R25 (= C20.Z16) on the servers' side: the pointer of a failed comma-ok assertion is nil
	checkCommaOkPointerUsedUnderOk(c, "R25", func(fn *ssa.Function) bool { return !isClientSide(fn) }, 3)
	checkShortInputIsReported(c, "R22")
	// R13 (shared with C02.R0): a well-formed request of every type makePacket can build lands in a case of the os
	// server's dispatcher that answers it; the default arm returns an error, which ends the command worker without a
	// reply — with more requests in the stream Serve then waits for a worker that is gone
	if handle := p.Func("handlePacket"); handle == nil {
		c.missing("R13", "handlePacket")
	} else if hv := requestSwitchValue(handle); hv == nil {
		c.und("R13", "type switch of handlePacket", p.Pos(handle.Pos()), "cannot find the type switch on the request packet")
	} else {
		top, _ := requestTypes(c, "R13")
		hHead := switchHead(handle, hv)
		for _, t := range top {
			body, def, _ := simulate(hHead, t)
			c.check(!def, "R13", "handlePacket dispatch of "+typeName(t), p.Pos(body.Instrs[0].Pos()),
				"lands in a case that builds a response", "falls into the default arm of handlePacket: the request is never answered and the worker exits")
		}
		c.floor("R13", 20)
	}
	// R11 (prover, shared with C08.O1/O5): what every received frame goes through before it is a packet of a known type
	// — recvPacket, makePacket and the constructors makePacket picks from — cannot panic on any type byte or length:
	// a panic there takes the whole server down, not one request
	{
		w := newZWorld(p)
		ord := map[string]int{}
		lifted := map[*ssa.Function][]zreq{}
		fns := []*ssa.Function{}
		for _, name := range []string{"recvPacket", "makePacket"} {
			if fn := p.Func(name); fn != nil {
				fns = append(fns, fn)
				fns = append(fns, allAnon(fn)...)
			} else {
				c.missing("R11", name)
			}
		}
		n := 0
		for _, fn := range fns {
			z := w.get(fn)
			for _, o := range z.obligationsOf() {
				switch o.Kind {
				case "slice", "index", "panic", "assert", "div", "make":
					n++
					decideObl(c, w, z, o, "R11", oblKey(o, fn, ord), lifted)
				}
			}
		}
		c.check(n >= 3, "R11", "receive-path obligations", "?", fmt.Sprintf("%d obligations", n), fmt.Sprintf("only %d obligations found in recvPacket/makePacket", n))
	}
}

// checkJoinUnderLock: a function that waits for goroutines (WaitGroup.Wait) must not hold a mutex that the
// goroutines it waits for can acquire, or the stream's end wedges Serve with requests still in flight.
// Held locks come from the lockset engine; "can acquire" = some function reachable (VTA) from a go statement
// of the module locks the same mutex field.
func checkJoinUnderLock(c *Ctx, rule string) {
	p := c.P
	var goRoots []*ssa.Function
	for _, fn := range p.LibFuncs() {
		eachInstr(fn, func(in ssa.Instruction) {
			if g, ok := in.(*ssa.Go); ok {
				if sc := g.Call.StaticCallee(); sc != nil {
					goRoots = append(goRoots, sc)
				} else {
					goRoots = append(goRoots, p.calleesAt(g)...)
				}
			}
		})
	}
	workerLocks := map[string]*ssa.Function{}
	for fn := range p.cone(goRoots...) {
		ls, _ := lockCallsIn(fn)
		for _, l := range ls {
			if workerLocks[l.Key] == nil {
				workerLocks[l.Key] = fn
			}
		}
		// deferred and plain alike
		eachInstr(fn, func(in ssa.Instruction) {
			if cc := callOf(in); cc != nil {
				if op, _, key, ok := mutexOp(cc); ok && (op == "Lock" || op == "RLock") && workerLocks[key] == nil {
					workerLocks[key] = fn
				}
			}
		})
	}
	n := 0
	for _, fn := range p.LibFuncs() {
		if !isServerSide(fn) {
			continue
		}
		ord := 0
		eachInstr(fn, func(in ssa.Instruction) {
			cc := callOf(in)
			if cc == nil || !isWGCall(cc, "Wait") {
				return
			}
			if _, plain := in.(*ssa.Call); !plain {
				return
			}
			n++
			ord++
			key := fmt.Sprintf("%s: join #%d", fnName(fn), ord)
			locks, _ := lockCallsIn(fn)
			held := ""
			for _, l := range locks {
				if heldAt(in, l.Root, l.Key) != "" && workerLocks[l.Key] != nil {
					held = l.Key + " (acquired by " + fnName(workerLocks[l.Key]) + ")"
				}
			}
			c.check(held == "", rule, key, p.Pos(in.Pos()), "no lock that a worker needs is held while waiting for the workers", "Wait() is called while holding "+held+": a worker that still needs the lock blocks for ever and Serve never returns")
		})
	}
	c.check(n >= 2, rule, "join points on the server side", "?", fmt.Sprintf("%d WaitGroup.Wait sites", n), fmt.Sprintf("only %d WaitGroup.Wait sites found on the server side", n))
}

// storeCellOf: the local variable cell that v is stored into (if any).
func storeCellOf(fn *ssa.Function, v ssa.Value) ssa.Value {
	refs := v.Referrers()
	if refs == nil {
		return nil
	}
	for _, r := range *refs {
		if st, ok := r.(*ssa.Store); ok && st.Val == v {
			if a, ok := st.Addr.(*ssa.Alloc); ok {
				return a
			}
		}
	}
	return nil
}

// requestTainted: the value derives from a field of a decoded request packet.
func requestTainted(p *Program, v ssa.Value) bool { return requestTaintedD(p, v, 0) }

func requestTaintedD(p *Program, v ssa.Value, d int) bool {
	if v == nil || d > 6 {
		return false
	}
	for _, l := range leavesOf(v) {
		switch l.Kind {
		case leafFieldLoad:
			if p.isRequestType(l.Base.Type()) {
				return true
			}
			if typeName(l.Base.Type()) == "Request" && (l.Field == "Attrs" || l.Field == "Flags") {
				return true
			}
		case leafCallResult:
			switch calleeName(l.Call) {
			case "getDataSlice", "packetData", "GetPage":
				return true
			}
		case leafBinOp:
			if b, ok := l.V.(*ssa.BinOp); ok {
				if requestTaintedD(p, b.X, d+1) || requestTaintedD(p, b.Y, d+1) {
					return true
				}
			}
		}
	}
	if s, ok := v.(*ssa.Slice); ok {
		return requestTaintedD(p, s.X, d+1)
	}
	return false
}

// checkPageInvariant: the justification of the axiom used by the prover for GetPage's result.
func checkPageInvariant(c *Ctx, rule string) {
	p := c.P
	okAll := true
	n := 0
	var bad ssa.Instruction
	pageLike := func(v ssa.Value) bool {
		for _, l := range leavesOfIface(v) {
			switch x := l.(type) {
			case *ssa.Slice:
				// make([]byte, maxMsgLength) is a slice of a fresh [262144]byte
				if a, ok := x.X.(*ssa.Alloc); ok {
					if arr, ok := derefType(a.Type()).Underlying().(*types.Array); ok && arr.Len() == 256*1024 {
						continue
					}
				}
				return false
			case *ssa.MakeSlice:
				if k, ok := constInt(x.Len); ok && k == 256*1024 {
					continue
				}
				return false
			case *ssa.UnOp:
				// an element of / the list available or used[...]
				_, path := accessPath(x.X)
				if ia, ok := x.X.(*ssa.IndexAddr); ok {
					_, path = accessPath(ia.X)
				}
				if path == "available" || path == "used" {
					continue
				}
				return false
			case *ssa.Lookup:
				if _, path := accessPath(x.X); path == "used" {
					continue
				}
				return false
			case *ssa.Const:
				continue
			case *ssa.Call:
				if builtinName(&x.Call) == "append" {
					continue // checked at the append itself
				}
				return false
			default:
				return false
			}
		}
		return true
	}
	for _, fn := range p.LibFuncs() {
		if typeName(recvTypeOf(outermost(fn))) != "allocator" && fn.Name() != "newAllocator" {
			// nobody else may touch the lists (locksets of C18.R4 enumerate the accesses)
			continue
		}
		eachInstr(fn, func(in ssa.Instruction) {
			switch x := in.(type) {
			case *ssa.Call:
				if builtinName(&x.Call) != "append" {
					return
				}
				_, path := accessPath(x.Call.Args[0])
				if l, ok := x.Call.Args[0].(*ssa.Lookup); ok {
					_, path = accessPath(l.X)
				}
				if path != "available" && path != "used" {
					return
				}
				n++
				// appended elements
				el := x.Call.Args[1]
				if s, ok := el.(*ssa.Slice); ok {
					if a, ok := s.X.(*ssa.Alloc); ok {
						if _, isArr := derefType(a.Type()).Underlying().(*types.Array); isArr {
							for _, r := range *a.Referrers() {
								if ia, ok := r.(*ssa.IndexAddr); ok {
									for _, rr := range *ia.Referrers() {
										if st, ok := rr.(*ssa.Store); ok && !pageLike(st.Val) {
											okAll, bad = false, in
										}
									}
								}
							}
							return
						}
					}
				}
				// append(available, used...) : a list of pages
				if !pageLike(el) {
					okAll, bad = false, in
				}
			case *ssa.Store:
				if ia, ok := x.Addr.(*ssa.IndexAddr); ok {
					if _, path := accessPath(ia.X); path == "available" && !isNilConst(x.Val) && !pageLike(x.Val) {
						okAll, bad = false, in
					}
				}
			}
		})
	}
	posS := "allocator.go"
	if bad != nil {
		posS = p.Pos(bad.Pos())
	}
	c.check(okAll && n >= 2, rule, "allocator pages are maxMsgLength long", posS, "everything put on the page lists is a make([]byte, maxMsgLength) or came from the lists",
		"a slice that is not a full maxMsgLength page can enter the allocator's lists: recvPacket and getDataSlice slice pages up to 256 KiB")
}

// checkAttrsValidatedAtDecode (C07.R6): a request that carries an ATTRS block (OPEN, MKDIR, SETSTAT, FSETSTAT) is
// malformed when the block is shorter than its flags word announces.  The handlers consume the block only partly
// (OPEN reads the permissions, MKDIR nothing, Request.Attributes() discards the decoding error), so the only place
// that can refuse such a packet for both servers is its decoder: UnmarshalBinary must return nil only after
// unmarshalFileStat(flags, rest) succeeded on the very flags and bytes it stores.
func checkAttrsValidatedAtDecode(c *Ctx, rule string) {
	p := c.P
	n := 0
	for _, tn := range p.Sftp.Pkg.Scope().Names() {
		obj, ok := p.Sftp.Pkg.Scope().Lookup(tn).(*types.TypeName)
		if !ok {
			continue
		}
		st, ok := obj.Type().Underlying().(*types.Struct)
		if !ok || !p.isRequestType(types.NewPointer(obj.Type())) {
			continue
		}
		hasFlags := false
		for i := 0; i < st.NumFields(); i++ {
			if st.Field(i).Name() == "Flags" {
				hasFlags = true
			}
		}
		if !hasFlags {
			continue
		}
		fn := p.Func("(*" + tn + ").UnmarshalBinary")
		if fn == nil {
			continue
		}
		n++
		key := tn + " decoder validates its attribute block"
		// the value stored to p.Flags and the bytes that follow it
		var flagsV, restV ssa.Value
		var attrsStored ssa.Value
		eachInstr(fn, func(in ssa.Instruction) {
			st, ok := in.(*ssa.Store)
			if !ok {
				return
			}
			_, name, _, ok := fieldOf(st.Addr)
			if !ok {
				return
			}
			switch name {
			case "Flags":
				flagsV = st.Val
				if ex, ok := st.Val.(*ssa.Extract); ok {
					for _, r := range *ex.Tuple.Referrers() {
						if ex2, ok := r.(*ssa.Extract); ok && ex2.Index == 1 {
							restV = ex2
						}
					}
				}
			case "Attrs":
				attrsStored = st.Val
				if mi, ok := st.Val.(*ssa.MakeInterface); ok {
					attrsStored = mi.X
				}
			}
		})
		if flagsV == nil || restV == nil {
			c.und(rule, key, p.Pos(fn.Pos()), "cannot find the decoded flags word and the bytes after it")
			continue
		}
		var val *ssa.Call
		eachInstr(fn, func(in ssa.Instruction) {
			call, ok := in.(*ssa.Call)
			if !ok || calleeName(&call.Call) != "unmarshalFileStat" || len(call.Call.Args) != 2 {
				return
			}
			a0ok := call.Call.Args[0] == flagsV
			for _, l := range leavesOf(call.Call.Args[0]) {
				if l.Kind == leafFieldLoad && l.Field == "Flags" {
					a0ok = true
				}
			}
			if a0ok && call.Call.Args[1] == restV {
				val = call
			}
		})
		if val == nil {
			c.bad(rule, key, p.Pos(fn.Pos()), tn+" is decoded without checking that the attribute bytes announced by its flags word are present: a truncated attribute block is handed on and the request is acted upon (file opened or truncated, directory made, handler called with undecodable attributes)")
			continue
		}
		var errEx ssa.Value
		for _, r := range *val.Referrers() {
			if ex, ok := r.(*ssa.Extract); ok && ex.Index == 2 {
				errEx = ex
			}
		}
		good := errEx != nil
		why := "the error of unmarshalFileStat is not examined"
		if good {
			// from the side of every test of the validation's error on which it is not nil, no return that can be
			// reached hands back a nil error (followed path by path: the error may first be joined with the earlier
			// fields' errors and tested once, behind the join)
			tests := nilTests(errEx)
			if len(tests) == 0 {
				if refs := errEx.Referrers(); refs != nil {
					for _, r := range *refs {
						if ph, ok := r.(*ssa.Phi); ok {
							tests = append(tests, nilTests(ph)...)
						}
					}
				}
			}
			if len(tests) == 0 {
				good = false
			}
			for _, nt := range tests {
				if reachFromNilSide(nt, true, func(in ssa.Instruction) bool {
					r, ok := in.(*ssa.Return)
					if !ok || len(r.Results) == 0 {
						return false
					}
					cls, _ := classify(r.Results[0], reachEnv, 0)
					return cls != clsNonNil
				}, nil) {
					good = false
					why = "a nil return is reachable without a successful validation of the attribute block"
				}
			}
		}
		if good && attrsStored != nil && attrsStored != restV {
			// a join of "nil on the failing paths" and the validated bytes is the validated bytes where it counts
			same := false
			if ph, isPhi := attrsStored.(*ssa.Phi); isPhi {
				same = true
				seenRest := false
				for _, e := range ph.Edges {
					switch {
					case isNilConst(e):
					case e == restV:
						seenRest = true
					default:
						same = false
					}
				}
				same = same && seenRest
			}
			if !same {
				good = false
				why = "the bytes stored in Attrs are not the bytes that were validated"
			}
		}
		c.check(good, rule, key, p.Pos(val.Pos()), "nil only after unmarshalFileStat(flags, rest) succeeded on the stored flags and bytes", tn+": "+why)
	}
	c.check(n >= 4, rule, "requests with an attribute block", "?", fmt.Sprintf("%d decoders", n), fmt.Sprintf("only %d request decoders with a Flags word found (OPEN, MKDIR, SETSTAT, FSETSTAT expected)", n))
}

// checkHandleCommandsOrdered (C07.R8): the draft requires requests on one file to be processed in the order received.
// READ and WRITE run on parallel workers; a command on the same handle (FSTAT, FSETSTAT) that the dispatcher hands to
// the command worker without waiting for them overtakes them.  CLOSE waits (C14); the others are decided here, one
// obligation per request type.
func checkHandleCommandsOrdered(c *Ctx, rule string) {
	p := c.P
	d := getDispatcher(c, rule)
	if d == nil || d.pktVal == nil {
		return
	}
	head := switchHead(d.disp, d.pktVal)
	isWait := func(in ssa.Instruction) bool {
		cc := callOf(in)
		return cc != nil && isWGCall(cc, "Wait")
	}
	isSend := func(in ssa.Instruction) bool { _, ok := in.(*ssa.Send); return ok }
	for _, tn := range []string{"sshFxpFstatPacket", "sshFxpFsetstatPacket"} {
		nt := p.NamedType(p.Sftp, tn)
		if nt == nil {
			c.missing(rule, tn)
			continue
		}
		body, _, _, from := simulateFrom(head, newPtr(nt))
		start := body
		if start == nil {
			start = from
		}
		if start == nil {
			c.und(rule, tn+" is ordered after earlier reads and writes", p.Pos(d.disp.Pos()), "cannot follow the dispatcher for this type")
			continue
		}
		overtakes := reachFromBlock(start, isSend, isWait)
		c.check(!overtakes, rule, strings.TrimSuffix(strings.TrimPrefix(tn, "sshFxp"), "Packet")+" is ordered after earlier reads and writes", p.Pos(start.Instrs[0].Pos()),
			"working.Wait() before the hand-off", "the request is handed to the command worker while earlier READs/WRITEs of the same handle may still be running on the parallel workers: it is applied before them (pipelined WRITE | FSTAT | FSETSTAT size=5 | CLOSE: FSTAT reports the old size, the file ends with the WRITE's length)")
	}
}

// checkDecodeErrorsNotOverwritten (C07.R12): package sftp's request decoders read their fields with the unmarshal…Safe
// helpers, each of which reports a short packet through its error result.  A malformed packet must not be taken for a
// well-formed one: between one such call and the next (or the return) its error is looked at — tested against nil, or
// returned.  A decoder that carries the error in a variable and lets the next field's result replace it accepts a
// packet whose earlier field ran past the end whenever the later field happens to decode.
func checkDecodeErrorsNotOverwritten(c *Ctx, rule string) {
	p := c.P
	isSafe := func(cc *ssa.CallCommon) bool {
		f := cc.StaticCallee()
		if f == nil || f.Pkg != p.Sftp {
			return false
		}
		n := f.Name()
		if !strings.HasPrefix(n, "unmarshal") || !strings.HasSuffix(n, "Safe") {
			return false
		}
		res := f.Signature.Results()
		return res.Len() > 0 && isErrorType(res.At(res.Len()-1).Type())
	}
	n := 0
	ord := map[string]int{}
	// the decoders of requests: the UnmarshalBinary methods of the request types and what they call (the client's
	// decoding of replies is C20's; a STATUS reply's optional message and language are read leniently on purpose)
	var roots []*ssa.Function
	for _, fn := range p.LibFuncs() {
		if fn.Name() == "UnmarshalBinary" && fn.Signature.Recv() != nil && p.isRequestType(fn.Signature.Recv().Type()) {
			roots = append(roots, fn)
		}
	}
	cone := p.cone(roots...)
	var fns []*ssa.Function
	for fn := range cone {
		fns = append(fns, fn)
	}
	sort.Slice(fns, func(i, j int) bool { return fns[i].String() < fns[j].String() })
	for _, fn := range fns {
		if fn.Pkg != p.Sftp && outermost(fn).Pkg != p.Sftp {
			continue
		}
		if strings.HasSuffix(fn.Name(), "Safe") && strings.HasPrefix(fn.Name(), "unmarshal") {
			continue // the helpers themselves are built from one another
		}
		calls := callsWhere(fn, isSafe)
		for _, k := range calls {
			k := k
			n++
			key0 := fnName(fn) + ": error of " + calleeName(callOf(k))
			ord[key0]++
			key := fmt.Sprintf("%s #%d is looked at before the next field", key0, ord[key0])
			mentions := func(v ssa.Value) bool {
				for _, l := range leavesOf(v) {
					if l.Kind == leafCallResult && l.CallIn == k {
						return true
					}
				}
				return false
			}
			looked := func(in ssa.Instruction) bool {
				switch x := in.(type) {
				case *ssa.If:
					if bo, ok := x.Cond.(*ssa.BinOp); ok && (bo.Op == token.EQL || bo.Op == token.NEQ) {
						if isNilConst(bo.Y) && isErrorType(bo.X.Type()) && mentions(bo.X) {
							return true
						}
						if isNilConst(bo.X) && isErrorType(bo.Y.Type()) && mentions(bo.Y) {
							return true
						}
					}
				case *ssa.Return:
					for _, r := range x.Results {
						if isErrorType(r.Type()) && mentions(r) {
							return true
						}
					}
				}
				return false
			}
			next := func(in ssa.Instruction) bool {
				if in == k {
					return false
				}
				if cc := callOf(in); cc != nil && isSafe(cc) {
					return true
				}
				return isReturn(in)
			}
			c.check(!reachAvoiding(fn, k, next, looked), rule, key, p.Pos(k.Pos()), "tested or returned first",
				"the next field is decoded (or the decoder returns) without this call's error having been looked at: if a later field decodes, a packet whose earlier field ran past the end is accepted as well-formed")
		}
	}
	c.check(n >= 25, rule, "safe decode calls", "?", fmt.Sprintf("%d calls", n), fmt.Sprintf("only %d unmarshal…Safe calls found in package sftp", n))
}

// makePacketOracle: SFTP v3 request type bytes (draft-ietf-secsh-filexfer-02 section 3) and the packet type that decodes each.
var makePacketOracle = map[int64]string{
	1: "sshFxInitPacket", 3: "sshFxpOpenPacket", 4: "sshFxpClosePacket", 5: "sshFxpReadPacket", 6: "sshFxpWritePacket",
	7: "sshFxpLstatPacket", 8: "sshFxpFstatPacket", 9: "sshFxpSetstatPacket", 10: "sshFxpFsetstatPacket",
	11: "sshFxpOpendirPacket", 12: "sshFxpReaddirPacket", 13: "sshFxpRemovePacket", 14: "sshFxpMkdirPacket",
	15: "sshFxpRmdirPacket", 16: "sshFxpRealpathPacket", 17: "sshFxpStatPacket", 18: "sshFxpRenamePacket",
	19: "sshFxpReadlinkPacket", 20: "sshFxpSymlinkPacket", 200: "sshFxpExtendedPacket",
}

// checkMakePacketTable (C07.R14): makePacket is run by the interpreter for every type byte 0..255, up to the call of
// the chosen packet's UnmarshalBinary.  A request byte must pick its own packet type; every other byte must pick none
// (the run returns without decoding anything): a reply type byte or an undefined one decoded as some request is acted
// upon by the workers instead of ending the session.  Independent of how the table is written (switch, map, slice of
// constructors).
func checkMakePacketTable(c *Ctx, rule string) {
	p := c.P
	mk := p.Func("makePacket")
	if mk == nil {
		c.missing(rule, "makePacket")
		return
	}
	// the type byte arrives as a field of the received-packet struct, or as a parameter of its own
	buildArgs := func(k int64) []evVal { return nil }
	found := false
	for pi, prm := range mk.Params {
		pi := pi
		if b, ok := prm.Type().Underlying().(*types.Basic); ok && b.Kind() == types.Uint8 {
			typeT := prm.Type()
			buildArgs = func(k int64) []evVal {
				args := make([]evVal, len(mk.Params))
				args[pi] = evInt(k, typeT)
				return args
			}
			found = true
			break
		}
		if st, ok := prm.Type().Underlying().(*types.Struct); ok {
			for i := 0; i < st.NumFields(); i++ {
				if b, ok := st.Field(i).Type().Underlying().(*types.Basic); ok && b.Kind() == types.Uint8 {
					fname, typeT, structT := st.Field(i).Name(), st.Field(i).Type(), prm.Type()
					buildArgs = func(k int64) []evVal {
						args := make([]evVal, len(mk.Params))
						args[pi] = evVal{k: evObject, obj: &evObj{typ: structT, fields: map[string]evVal{fname: evInt(k, typeT)}}}
						return args
					}
					found = true
				}
			}
			if found {
				break
			}
		}
	}
	if !found {
		c.und(rule, "makePacket table", p.Pos(mk.Pos()), "no type byte among makePacket's arguments")
		return
	}
	bad, und := 0, 0
	for k := int64(0); k < 256; k++ {
		ev := newEvaluator(p)
		ev.intercept = func(call *ssa.CallCommon, args []evVal) bool {
			return call.IsInvoke() && call.Method.Name() == "UnmarshalBinary"
		}
		res := ev.run(mk, buildArgs(k), 0)
		got := ""
		switch res.kind {
		case "intercept":
			if len(res.vals) > 0 && res.vals[0].k == evIface && res.vals[0].t != nil {
				got = typeName(res.vals[0].t)
			} else {
				und++
				c.und(rule, fmt.Sprintf("makePacket(type %d)", k), p.Pos(mk.Pos()), "the packet whose UnmarshalBinary is called is not known")
				continue
			}
		case "return":
		default:
			und++
			c.und(rule, fmt.Sprintf("makePacket(type %d)", k), p.Pos(mk.Pos()), "makePacket cannot be run for this type byte: "+res.why)
			continue
		}
		want := makePacketOracle[k]
		if got != want {
			bad++
			switch {
			case want == "":
				c.bad(rule, fmt.Sprintf("makePacket(type %d)", k), p.Pos(mk.Pos()), fmt.Sprintf("type byte %d is not a request of SFTP v3 but makePacket decodes it as a %s: the packet is acted upon instead of ending the session", k, got))
			case got == "":
				c.bad(rule, fmt.Sprintf("makePacket(type %d)", k), p.Pos(mk.Pos()), fmt.Sprintf("type byte %d (%s) is not decoded by makePacket: a well-formed request ends the session", k, want))
			default:
				c.bad(rule, fmt.Sprintf("makePacket(type %d)", k), p.Pos(mk.Pos()), fmt.Sprintf("type byte %d is decoded as a %s, it is a %s", k, got, want))
			}
		}
	}
	if bad == 0 && und == 0 {
		c.ok(rule, "makePacket table", p.Pos(mk.Pos()), "256 type bytes: the 20 request types pick their own packet, every other byte picks none")
	}
}

// checkSpecificPacketGuarded (C07.R16, shared as C19.R12): an EXTENDED request whose name no decoder knows arrives with a
// nil SpecificPacket (makePacket passes it on for the workers to answer with "operation unsupported").  Every place
// that calls a method of the specific packet, or lets it stand in for the request, does so behind a test that it is
// not nil: otherwise one unknown extension name panics a worker and takes the server down.
func checkSpecificPacketGuarded(c *Ctx, rule string) {
	p := c.P
	n := 0
	for _, fn := range p.LibFuncs() {
		if outermost(fn).Package() != p.Sftp {
			continue
		}
		storesIt := false
		var loads []*ssa.UnOp
		eachInstr(fn, func(in ssa.Instruction) {
			switch x := in.(type) {
			case *ssa.Store:
				if _, name, _, ok := fieldOf(x.Addr); ok && name == "SpecificPacket" {
					storesIt = true
				}
			case *ssa.UnOp:
				if x.Op == token.MUL {
					if _, name, _, ok := fieldOf(x.X); ok && name == "SpecificPacket" {
						loads = append(loads, x)
					}
				}
			}
		})
		if storesIt || len(loads) == 0 {
			continue // the decoder itself: it calls the packet it has just stored
		}
		baseOf := func(u *ssa.UnOp) ssa.Value {
			if fa, ok := u.X.(*ssa.FieldAddr); ok {
				return fa.X
			}
			return nil
		}
		guarded := func(u *ssa.UnOp, at ssa.Instruction) bool {
			for _, u2 := range loads {
				if baseOf(u2) == nil || baseOf(u2) != baseOf(u) {
					continue
				}
				for _, nt := range nilTests(u2) {
					if nt.nonNil != nil && nt.nonNil != nt.isNil && (nt.nonNil == at.Block() || nt.nonNil.Dominates(at.Block())) && edgeOnly(nt.iff.Block(), nt.nonNil) {
						return true
					}
				}
			}
			return false
		}
		for _, u := range loads {
			refs := u.Referrers()
			if refs == nil {
				continue
			}
			for _, r := range *refs {
				what := ""
				switch x := r.(type) {
				case *ssa.Call:
					if x.Call.IsInvoke() && x.Call.Value == ssa.Value(u) {
						what = "a call of its method " + x.Call.Method.Name()
					}
				case *ssa.Defer:
					if x.Call.IsInvoke() && x.Call.Value == ssa.Value(u) {
						what = "a call of its method " + x.Call.Method.Name()
					}
				case *ssa.ChangeInterface:
					if it, ok := x.Type().Underlying().(*types.Interface); ok && it.NumMethods() > 0 {
						what = "its use as a " + typeName(x.Type())
					}
				case *ssa.TypeAssert:
					if !x.CommaOk {
						what = "a type assertion"
					}
				}
				if what == "" {
					continue
				}
				n++
				c.check(guarded(u, r), rule, "SpecificPacket is not nil at "+what+" in "+fnName(fn), p.Pos(r.Pos()), "behind a test that it is not nil",
					"the specific packet of an EXTENDED request is used ("+what+") without a test that it is not nil: a request for an extension no decoder knows panics the worker")
			}
		}
	}
	c.check(n >= 2, rule, "uses of the specific packet", "?", fmt.Sprintf("%d uses", n), fmt.Sprintf("only %d uses of SpecificPacket found (respond and the request server's worker expected)", n))
}

// checkBadPacketEndsSession (C07.R1/R2; the R2 part shared as C11.R14): per receive loop, a packet that failed to decode
// is not dispatched, the connection is closed, and the decoding error is what the loop reports.
func checkBadPacketEndsSession(c *Ctx) {
	p := c.P
	pos := func(in ssa.Instruction) string { return p.Pos(in.Pos()) }
	isSend := func(in ssa.Instruction) bool { _, ok := in.(*ssa.Send); return ok }
	isClose := func(in ssa.Instruction) bool {
		cc := callOf(in)
		return cc != nil && calleeName(cc) == "Close"
	}
	_ = pos
	// ---------- R1 / R2 per receive loop ----------
	for _, name := range []string{"(*Server).Serve", "(*RequestServer).serveLoop"} {
		fn := p.Func(name)
		if fn == nil {
			c.missing("R1", name)
			continue
		}
		c.looked(name)
		mks := callsWhere(fn, func(cc *ssa.CallCommon) bool { return calleeName(cc) == "makePacket" })
		if len(mks) != 1 {
			c.und("R1", name+" makePacket", p.Pos(fn.Pos()), fmt.Sprintf("%d makePacket calls", len(mks)))
			continue
		}
		mk := mks[0].(*ssa.Call)
		var errEx *ssa.Extract
		for _, r := range *mk.Referrers() {
			if ex, ok := r.(*ssa.Extract); ok && ex.Index == 1 {
				errEx = ex
			}
		}
		if errEx == nil {
			c.bad("R1", name+" examines the decoding error", pos(mk), "the error of makePacket is ignored: every malformed packet is dispatched")
			continue
		}
		// the "bad packet" region: err != nil and not the unknown-extension sentinel
		var bad *ssa.BasicBlock
		var errNonNil *ssa.BasicBlock
		// err may pass through a local variable: collect values equal to errEx
		vals := map[ssa.Value]bool{errEx: true}
		if cell := storeCellOf(fn, errEx); cell != nil {
			eachInstr(fn, func(in ssa.Instruction) {
				if u, ok := in.(*ssa.UnOp); ok && u.Op == token.MUL && u.X == cell && dominates(mk, in) {
					// loads after the call and before the next iteration's store
					vals[u] = true
				}
			})
		}
		for v := range vals {
			refs := v.Referrers()
			if refs == nil {
				continue
			}
			for _, r := range *refs {
				if b, ok := r.(*ssa.BinOp); ok && (b.Op == token.NEQ || b.Op == token.EQL) && (isNilConst(b.Y) || isNilConst(b.X)) {
					for _, nt := range nilTests(v) {
						errNonNil = nt.nonNil
					}
				}
				if call, ok := r.(*ssa.Call); ok && callIs(&call.Call, "errors.Is") && call.Call.Args[0] == v {
					for _, rr := range *call.Referrers() {
						if iff, ok := rr.(*ssa.If); ok {
							bad = iff.Block().Succs[1]
						}
						if u, ok := rr.(*ssa.UnOp); ok && u.Op == token.NOT {
							for _, r3 := range *u.Referrers() {
								if iff, ok := r3.(*ssa.If); ok {
									bad = iff.Block().Succs[0]
								}
							}
						}
					}
				}
			}
		}
		if bad == nil {
			bad = errNonNil // no special case for unknown extensions: every error is "bad"
		}
		if bad == nil {
			c.bad("R1", name+" examines the decoding error", pos(mk), "no branch on makePacket's error: a packet that failed to decode is dispatched")
			continue
		}
		// what the bad-packet branch knows: the error it was entered on is not nil
		seed := func() {
			if errNonNil != nil && (errNonNil == bad || errNonNil.Dominates(bad)) {
				f := pathFacts{}
				for v := range vals {
					f[v] = clsNonNil
				}
				seedFacts = f
			}
		}
		seed()
		dispatched := reachFromBlock(bad, isSend, nil)
		c.check(!dispatched, "R1", name+" never dispatches a packet that failed to decode", p.Pos(bad.Instrs[0].Pos()),
			"the bad-packet branch leaves the receive loop without handing the packet on", "after makePacket failed the packet can still be sent to the dispatcher: a truncated request is acted upon, an unknown type byte dispatches a nil packet")
		seed()
		noClose := reachFromBlock(bad, func(in ssa.Instruction) bool {
			return isReturn(in) || (isSend(in))
		}, isClose)
		// for Serve the path continues after the loop to the sweep and return: Close must come before
		c.check(!noClose, "R2", name+" closes the connection on a bad packet", p.Pos(bad.Instrs[0].Pos()), "conn.Close() on the bad-packet path", "a malformed packet does not close the connection")
		// the error reaches Serve's caller
		if name == "(*RequestServer).serveLoop" {
			retErr := false
			for _, b := range fn.Blocks {
				if bad == b || bad.Dominates(b) {
					for _, in := range b.Instrs {
						if r, ok := in.(*ssa.Return); ok && !isNilConst(r.Results[0]) {
							// the decoding error itself (or something wrapped around it), not the result of another call
							for _, l := range leavesOf(r.Results[0]) {
								if l.Kind == leafCallResult && l.CallIn == ssa.Instruction(mk) && l.Idx == 1 {
									retErr = true
								}
							}
							if vals[r.Results[0]] {
								retErr = true
							}
						}
						if st, ok := in.(*ssa.Store); ok && vals[st.Val] {
							retErr = true
						}
					}
				}
			}
			if !retErr {
				// the return may lie behind a join (the receive step inlined back from a helper): every return that
				// the bad-packet branch can reach gives a non-nil error, and it cannot reach the next receive
				seed()
				retErr = !reachFromBlock(bad, func(in ssa.Instruction) bool {
					if r, ok := in.(*ssa.Return); ok && len(r.Results) > 0 {
						cls, _ := classify(r.Results[0], reachEnv, 0)
						return cls != clsNonNil
					}
					cc := callOf(in)
					return cc != nil && cc.StaticCallee() != nil && cc.StaticCallee() == mk.Call.StaticCallee()
				}, nil)
			}
			c.check(retErr, "R2", name+" reports the decoding error", p.Pos(bad.Instrs[0].Pos()), "returns the error", "the decoding error is not returned")
		} else {
			// Server.Serve returns the err variable; on the bad path nothing overwrites it with nil
			var ret *ssa.Return
			eachInstr(fn, func(in ssa.Instruction) {
				if r, ok := in.(*ssa.Return); ok && isReturn(in) {
					ret = r
				}
			})
			okRet := false
			if ret != nil {
				for _, l := range leavesOf(ret.Results[0]) {
					if l.Kind == leafCallResult && l.CallIn == ssa.Instruction(mk) && l.Idx == 1 {
						okRet = true
					}
				}
			}
			seed()
			nilStore := reachFromBlock(bad, func(in ssa.Instruction) bool {
				st, ok := in.(*ssa.Store)
				return ok && isNilConst(st.Val) && typeName(st.Val.Type()) == "error"
			}, nil)
			c.check(okRet && !nilStore, "R2", name+" reports the decoding error", p.Pos(bad.Instrs[0].Pos()), "Serve returns makePacket's error", "Serve returns nil although it stopped because of a malformed packet")
		}
	}
}

// checkServerPanicSites (C07.R4; shared as C02.R10): no panic on request-derived data in the handling cones — a panic in
// a worker ends the process (or, recovered by nobody, leaves every outstanding request unanswered).
func checkServerPanicSites(c *Ctx) {
	p := c.P
	{
		w := newZWorld(p)
		var roots []*ssa.Function
		for _, n := range []string{"handlePacket", "(*RequestServer).packetWorker", "(*Server).sftpServerWorker", "requestFromPacket", "(*packetManager).controller", "(*packetManager).maybeSendPackets"} {
			if f := p.Func(n); f != nil {
				roots = append(roots, f)
			}
		}
		cone := p.cone(roots...)
		ord := map[string]int{}
		lifted := map[*ssa.Function][]zreq{}
		n := 0
		for _, fn := range p.LibFuncs() {
			if !cone[fn] || outermost(fn).Package() != p.Sftp {
				continue
			}
			nm := outermost(fn).Name()
			if strings.HasPrefix(nm, "Marshal") || strings.HasPrefix(nm, "marshal") || nm == "sendPacket" || nm == "runLs" || nm == "lsFormatID" || typeName(recvTypeOf(outermost(fn))) == "root" ||
				typeName(recvTypeOf(outermost(fn))) == "memFile" || typeName(recvTypeOf(outermost(fn))) == "listerat" {
				continue // encoders work on server-produced data; the in-memory example handler is user code
			}
			z := w.get(fn)
			for _, o := range z.obligationsOf() {
				keep := false
				switch x := o.In.(type) {
				case *ssa.TypeAssert:
					keep = true
				case *ssa.Slice:
					keep = requestTainted(p, x.X) || requestTainted(p, x.High) || requestTainted(p, x.Low)
				case *ssa.IndexAddr:
					keep = requestTainted(p, x.X) || requestTainted(p, x.Index)
				case *ssa.Index:
					keep = requestTainted(p, x.X) || requestTainted(p, x.Index)
				case *ssa.Panic:
					keep = false
				case *ssa.MakeSlice:
					// a size computed from a request field: len <= cap, and no wrap-around in the size arithmetic
					// (how large the allocation may be is the option's business and is not judged here)
					keep = (o.Kind == "make" || o.Kind == "wrap") && (requestTainted(p, x.Len) || requestTainted(p, x.Cap))
				}
				if fnName(fn) == "(*packetManager).maybeSendPackets" || fnName(fn) == "(*allocator).GetPage" {
					if o.Kind == "slice" || o.Kind == "index" {
						keep = true
					}
				}
				if !keep {
					continue
				}
				n++
				decideObl(c, w, z, o, "R4", oblKey(o, fn, ord), lifted)
			}
		}
		c.check(n >= 8, "R4", "panic-capable sites on request data", "?", fmt.Sprintf("%d sites examined", n), fmt.Sprintf("only %d sites found", n))
		// the in-package backend behind InMemHandler() receives offsets and sizes straight from the wire
		// (uint64 converted to int64, so also negative): its slicing and growing must not panic for any of them
		nb := 0
		for _, name := range []string{"(*memFile).ReadAt", "(*memFile).WriteAt", "(*memFile).Truncate", "(*memFile).grow"} {
			fn := p.Func(name)
			if fn == nil {
				c.missing("R4", name)
				continue
			}
			z := w.get(fn)
			for _, o := range z.obligationsOf() {
				if o.Kind != "slice" && o.Kind != "index" && o.Kind != "make" && o.Kind != "alloc" {
					continue
				}
				// decided here: the sanity of the wire values themselves (sign, absolute bound).  Goals that relate
				// them to the file's current length after a call that grows it are beyond the field memory of the
				// prover (a method call invalidates the receiver's cells) and are left to the backend's own logic.
				if o.Kind == "slice" || o.Kind == "index" {
					var goals []lin
					for _, g := range o.Goals {
						onlyParams := true
						for k := range g.coef {
							if !strings.HasPrefix(k, "p:") {
								onlyParams = false
							}
						}
						if onlyParams {
							goals = append(goals, g)
						}
					}
					if len(goals) == 0 {
						continue
					}
					o.Goals = goals
					o.Desc = "offset/size from the wire is not negative"
				}
				if o.Kind == "alloc" {
					// not a question of proportion here (a sparse write legitimately grows the file): the size must
					// be bounded by some constant that make() accepts on every platform, or a large offset panics
					if ms, ok := o.In.(*ssa.MakeSlice); ok {
						up := z.term(ms.Len)
						up.c -= 1 << 31
						o.Alt = nil
						o.Goals = []lin{up}
						o.Desc = "growth bounded by a constant (at most 2 GiB)"
					}
				}
				nb++
				decideObl(c, w, z, o, "R4", oblKey(o, fn, ord), lifted)
			}
		}
		c.check(nb >= 3, "R4", "in-memory backend sites", "?", fmt.Sprintf("%d sites", nb), fmt.Sprintf("only %d sites found in the in-memory backend", nb))
		// allocator page invariant: everything stored in the page lists is a maxMsgLength page or came from them
		checkPageInvariant(c, "R4")
	}
}
