package main

// Rename canonicalisation.
//
// The rules name their anchors (functions, methods, types, fields) the way the
// reference tree names them.  A behaviour-preserving rename in /repo would make
// those anchors unresolvable and every rule that needs them undecided.  To keep
// the checks silent on such edits the loader compares the package-level symbols
// of the tree it loaded with a committed symbol table of the reference tree
// (symtab.json: names, type strings, member lists — no positions, no bodies).
// When a reference symbol is absent and exactly one symbol that the reference
// tree does not know has the same owner, the same kind and the same type, the
// loader treats it as a rename, rewrites the identifiers back in an in-memory
// overlay (the files on disk are not touched) and loads the module again.  The
// rules then run on the renamed code under the names they know.  A symbol that
// cannot be matched stays missing, and the rules that need it stay undecided.
// The table is only ever used to recover names: it never makes a rule fire.

import (
	_ "embed"
	"encoding/json"
	"fmt"
	"go/ast"
	"go/token"
	"go/types"
	"os"
	"regexp"
	"sort"
	"strings"

	"golang.org/x/tools/go/packages"
)

//go:embed symtab.json
var symtabJSON []byte

type symEntry struct {
	Kind    string   `json:"kind"`            // func | method | type | field | var | const
	Owner   string   `json:"owner,omitempty"` // type name for fields and methods
	Sig     string   `json:"sig"`             // type string, module type names package-qualified
	Members []string `json:"members,omitempty"`
	Index   int      `json:"index,omitempty"` // field position
	Shape   string   `json:"shape,omitempty"` // types only: the ordered field types of a struct
	// Closures: functions and methods only, the local variables bound to a function literal in the body
	Closures []string `json:"closures,omitempty"`
	// MembersBy holds the member list under a configuration where it differs from Members (build-tagged variants)
	MembersBy map[string][]string `json:"members_by,omitempty"`
	Configs   []string            `json:"configs,omitempty"`
}

type symTable map[string]*symEntry // key: pkgpath|name or pkgpath|Owner.name

type renameRec struct {
	Key, Old, New string
	obj           types.Object
}

func qualifier(p *types.Package) string { return p.Path() }

// collectSymbols lists the package-level symbols, fields and methods of the module's packages.
func collectSymbols(pkgs map[string]*packages.Package) (symTable, map[string]types.Object) {
	tab := symTable{}
	objs := map[string]types.Object{}
	for path, pk := range pkgs {
		if !strings.HasPrefix(path, pkgSftp) || pk.Types == nil || strings.Contains(path, "/examples/") {
			continue
		}
		uses := usedNames(pk)
		lc := localClosures(pk)
		sc := pk.Types.Scope()
		for _, name := range sc.Names() {
			obj := sc.Lookup(name)
			key := path + "|" + name
			switch o := obj.(type) {
			case *types.Func:
				tab[key] = &symEntry{Kind: "func", Sig: sigNoRecv(o), Members: uses[o], Closures: lc[o]}
				objs[key] = o
			case *types.Var:
				tab[key] = &symEntry{Kind: "var", Sig: types.TypeString(o.Type(), qualifier)}
				objs[key] = o
			case *types.Const:
				tab[key] = &symEntry{Kind: "const", Sig: types.TypeString(o.Type(), qualifier) + "=" + o.Val().ExactString()}
				objs[key] = o
			case *types.TypeName:
				if o.IsAlias() {
					tab[key] = &symEntry{Kind: "type", Sig: "alias " + types.TypeString(types.Unalias(o.Type()), qualifier)}
					objs[key] = o
					continue
				}
				n, ok := o.Type().(*types.Named)
				if !ok {
					continue
				}
				e := &symEntry{Kind: "type"}
				switch u := n.Underlying().(type) {
				case *types.Struct:
					e.Sig = "struct"
					for i := 0; i < u.NumFields(); i++ {
						f := u.Field(i)
						e.Shape += types.TypeString(f.Type(), qualifier) + ";"
						e.Members = append(e.Members, "."+f.Name())
						fk := path + "|" + name + "." + f.Name()
						tab[fk] = &symEntry{Kind: "field", Owner: name, Sig: types.TypeString(f.Type(), qualifier), Index: i}
						objs[fk] = f
					}
				case *types.Interface:
					e.Sig = "interface"
					for i := 0; i < u.NumExplicitMethods(); i++ {
						m := u.ExplicitMethod(i)
						e.Members = append(e.Members, m.Name()+"()")
						mk := path + "|" + name + "." + m.Name()
						tab[mk] = &symEntry{Kind: "method", Owner: name, Sig: sigNoRecv(m)}
						objs[mk] = m
					}
				default:
					e.Sig = types.TypeString(u, qualifier)
				}
				for i := 0; i < n.NumMethods(); i++ {
					m := n.Method(i)
					e.Members = append(e.Members, m.Name()+"()")
					mk := path + "|" + name + "." + m.Name()
					tab[mk] = &symEntry{Kind: "method", Owner: name, Sig: sigNoRecv(m), Members: uses[m], Closures: lc[m]}
					objs[mk] = m
				}
				sort.Strings(e.Members)
				tab[key] = e
				objs[key] = o
			}
		}
	}
	return tab, objs
}

// sigNoRecv renders a signature by the types of its parameters and results only (no receiver, no parameter names: a
// renamed parameter does not make it another function).
func sigNoRecv(m *types.Func) string {
	sig := m.Type().(*types.Signature)
	var ps, rs []string
	for i := 0; i < sig.Params().Len(); i++ {
		t := types.TypeString(sig.Params().At(i).Type(), qualifier)
		if sig.Variadic() && i == sig.Params().Len()-1 {
			t = "..." + strings.TrimPrefix(t, "[]")
		}
		ps = append(ps, t)
	}
	for i := 0; i < sig.Results().Len(); i++ {
		rs = append(rs, types.TypeString(sig.Results().At(i).Type(), qualifier))
	}
	return "func(" + strings.Join(ps, ", ") + ") (" + strings.Join(rs, ", ") + ")"
}

// usedNames maps every function and method declared in pk to the sorted set of names of the
// package-level objects, methods and fields its body mentions: a neighbourhood fingerprint
// that tells same-signature candidates apart.
// localClosures lists, per declared function, the local variables its body binds to a function literal.
func localClosures(pk *packages.Package) map[types.Object][]string {
	out := map[types.Object][]string{}
	for _, f := range pk.Syntax {
		for _, d := range f.Decls {
			fd, ok := d.(*ast.FuncDecl)
			if !ok || fd.Body == nil {
				continue
			}
			self := pk.TypesInfo.Defs[fd.Name]
			if self == nil {
				continue
			}
			set := map[string]bool{}
			for _, id := range closureVarIdents(fd.Body) {
				set[id.Name] = true
			}
			var l []string
			for k := range set {
				l = append(l, k)
			}
			sort.Strings(l)
			if len(l) > 0 {
				out[self] = l
			}
		}
	}
	return out
}

// closureVarIdents: the identifiers defined by `f := func…` or `var f = func…` / `var f T = func…` under n.
func closureVarIdents(n ast.Node) []*ast.Ident {
	var out []*ast.Ident
	ast.Inspect(n, func(n ast.Node) bool {
		switch x := n.(type) {
		case *ast.AssignStmt:
			if x.Tok == token.DEFINE && len(x.Lhs) == len(x.Rhs) {
				for i, l := range x.Lhs {
					if id, ok := l.(*ast.Ident); ok && id.Name != "_" {
						if _, ok := ast.Unparen(x.Rhs[i]).(*ast.FuncLit); ok {
							out = append(out, id)
						}
					}
				}
			}
		case *ast.ValueSpec:
			if len(x.Names) == len(x.Values) {
				for i, id := range x.Names {
					if _, ok := ast.Unparen(x.Values[i]).(*ast.FuncLit); ok && id.Name != "_" {
						out = append(out, id)
					}
				}
			}
		}
		return true
	})
	return out
}

func usedNames(pk *packages.Package) map[types.Object][]string {
	out := map[types.Object][]string{}
	for _, f := range pk.Syntax {
		for _, d := range f.Decls {
			fd, ok := d.(*ast.FuncDecl)
			if !ok || fd.Body == nil {
				continue
			}
			self := pk.TypesInfo.Defs[fd.Name]
			if self == nil {
				continue
			}
			set := map[string]bool{}
			ast.Inspect(fd.Body, func(n ast.Node) bool {
				id, ok := n.(*ast.Ident)
				if !ok {
					return true
				}
				o := pk.TypesInfo.Uses[id]
				if o == nil || o.Pkg() == nil {
					return true
				}
				switch x := o.(type) {
				case *types.Func:
					set[x.Name()] = true
				case *types.Var:
					if x.IsField() || x.Parent() == x.Pkg().Scope() {
						set[x.Name()] = true
					}
				case *types.TypeName, *types.Const:
					if o.Parent() == o.Pkg().Scope() {
						set[o.Name()] = true
					}
				}
				return true
			})
			var l []string
			for k := range set {
				l = append(l, k)
			}
			sort.Strings(l)
			out[self] = l
		}
	}
	return out
}

func jaccard(a, b []string) float64 {
	if len(a) == 0 && len(b) == 0 {
		return 1
	}
	m := map[string]bool{}
	for _, x := range a {
		m[x] = true
	}
	inter := 0
	for _, x := range b {
		if m[x] {
			inter++
		}
	}
	union := len(m)
	for _, x := range b {
		if !m[x] {
			union++
		}
	}
	if union == 0 {
		return 1
	}
	return float64(inter) / float64(union)
}

func loadSymtab() (symTable, error) {
	t := symTable{}
	if len(symtabJSON) == 0 {
		return t, nil
	}
	if err := json.Unmarshal(symtabJSON, &t); err != nil {
		return nil, err
	}
	return t, nil
}

func membersFor(e *symEntry, cfg string) []string {
	if m, ok := e.MembersBy[cfg]; ok {
		return m
	}
	return e.Members
}

func hasCfg(e *symEntry, cfg string) bool {
	for _, c := range e.Configs {
		if c == cfg {
			return true
		}
	}
	return false
}

func splitKey(key string) (pkg, owner, name string) {
	i := strings.IndexByte(key, '|')
	pkg, rest := key[:i], key[i+1:]
	if j := strings.IndexByte(rest, '.'); j >= 0 {
		return pkg, rest[:j], rest[j+1:]
	}
	return pkg, "", rest
}

// detectRenames matches reference symbols that the current tree lacks with symbols that the
// reference tree lacks.  Types first, then their members and the other package-level names.
func detectRenames(ref symTable, cfg string, cur symTable, objs map[string]types.Object) []renameRec {
	var recs []renameRec
	inRef := func(k string) bool { e := ref[k]; return e != nil && hasCfg(e, cfg) }

	// --- types
	typeRen := map[string]string{} // pkg|New -> Old
	var missingTypes, freshTypes []string
	for k, e := range ref {
		if e.Kind == "type" && hasCfg(e, cfg) && cur[k] == nil {
			missingTypes = append(missingTypes, k)
		}
	}
	for k, e := range cur {
		if e.Kind == "type" && !inRef(k) {
			freshTypes = append(freshTypes, k)
		}
	}
	sort.Strings(missingTypes)
	sort.Strings(freshTypes)
	taken := map[string]bool{}
	matched := map[string]bool{}
	// in rounds: a type whose definition mentions another renamed type (a slice of it, a struct holding it) has the
	// reference's definition only after that other rename has been read back
	sigOf := func(fk string) string {
		sg := cur[fk].Sig
		for nk, old := range typeRen {
			p, _, n := splitKey(nk)
			sg = regexp.MustCompile(regexp.QuoteMeta(p+"."+n)+`\b`).ReplaceAllString(sg, p+"."+old)
		}
		return sg
	}
	for round := 0; round < 3; round++ {
		progress := false
		for _, mk := range missingTypes {
			if matched[mk] {
				continue
			}
			mp, _, mname := splitKey(mk)
			best, second, bestK := -1.0, -1.0, ""
			for _, fk := range freshTypes {
				fp, _, _ := splitKey(fk)
				fsig := sigOf(fk)
				if fp != mp || taken[fk] || fsig != ref[mk].Sig && (ref[mk].Sig == "struct" || ref[mk].Sig == "interface" || fsig == "struct" || fsig == "interface") {
					continue
				}
				s := jaccard(ref[mk].Members, cur[fk].Members)
				if ref[mk].Shape != "" && ref[mk].Shape == cur[fk].Shape && s < 0.9 {
					// the same fields in the same order under other names: judged by the methods alone
					var rm, cm []string
					for _, m := range ref[mk].Members {
						if !strings.HasPrefix(m, ".") {
							rm = append(rm, m)
						}
					}
					for _, m := range cur[fk].Members {
						if !strings.HasPrefix(m, ".") {
							cm = append(cm, m)
						}
					}
					if ms := jaccard(rm, cm); ms >= 0.5 {
						s = 0.9
					}
				}
				if fsig == ref[mk].Sig && len(ref[mk].Members) == 0 && len(cur[fk].Members) == 0 {
					s = 1
				}
				// a defined type that is not a struct or an interface (a slice, a map, a number) with the reference's
				// definition and as many methods: its methods may have been renamed with it
				if fsig == ref[mk].Sig && fsig != "struct" && fsig != "interface" && len(ref[mk].Members) == len(cur[fk].Members) && s < 0.7 {
					s = 0.7
				}
				if s > best {
					second, best, bestK = best, s, fk
				} else if s > second {
					second = s
				}
			}
			if bestK != "" && best >= 0.5 && best-second >= 0.2 {
				taken[bestK] = true
				matched[mk] = true
				progress = true
				_, _, newName := splitKey(bestK)
				typeRen[bestK] = mname
				recs = append(recs, renameRec{Key: mk, Old: mname, New: newName, obj: objs[bestK]})
			}
		}
		if !progress {
			break
		}
	}

	// canonicalise the current table under the type renames
	canon := func(s string) string { return s }
	if len(typeRen) > 0 {
		type rep struct {
			re  *regexp.Regexp
			new string
		}
		var reps []rep
		for nk, old := range typeRen {
			p, _, n := splitKey(nk)
			reps = append(reps, rep{regexp.MustCompile(regexp.QuoteMeta(p+"."+n) + `\b`), p + "." + old})
		}
		canon = func(s string) string {
			for _, r := range reps {
				s = r.re.ReplaceAllString(s, r.new)
			}
			return s
		}
	}
	ccur := symTable{}
	cobj := map[string]types.Object{}
	for k, e := range cur {
		p, owner, name := splitKey(k)
		nk := k
		if owner == "" {
			if old, ok := typeRen[k]; ok {
				nk = p + "|" + old
			}
		} else if old, ok := typeRen[p+"|"+owner]; ok {
			nk = p + "|" + old + "." + name
		}
		ne := *e
		ne.Sig = canon(e.Sig)
		if owner != "" {
			if old, ok := typeRen[p+"|"+owner]; ok {
				ne.Owner = old
			}
		}
		ccur[nk] = &ne
		cobj[nk] = objs[k]
	}

	// --- everything else
	var missing []string
	for k, e := range ref {
		if e.Kind != "type" && hasCfg(e, cfg) && ccur[k] == nil {
			missing = append(missing, k)
		}
	}
	sort.Strings(missing)
	used := map[string]bool{}
	for _, mk := range missing {
		me := ref[mk]
		mp, mowner, mname := splitKey(mk)
		if mowner != "" && ccur[mp+"|"+mowner] == nil {
			continue // the owner itself is gone: nothing to match against
		}
		type cand struct {
			key   string
			score float64
		}
		var cands []cand
		for fk, fe := range ccur {
			if fe.Kind != me.Kind || used[fk] || inRef(fk) {
				continue
			}
			fp, fowner, _ := splitKey(fk)
			if fp != mp || fowner != mowner || fe.Sig != me.Sig {
				continue
			}
			sc := 0.0
			switch me.Kind {
			case "func", "method":
				sc = jaccard(membersFor(me, cfg), fe.Members)
			case "field":
				if fe.Index == me.Index {
					sc = 1
				}
			}
			cands = append(cands, cand{fk, sc})
		}
		if len(cands) == 0 {
			continue
		}
		sort.Slice(cands, func(i, j int) bool {
			if cands[i].score != cands[j].score {
				return cands[i].score > cands[j].score
			}
			return cands[i].key < cands[j].key
		})
		if len(cands) > 1 && cands[0].score-cands[1].score < 0.2 && (me.Kind == "func" || me.Kind == "method") {
			// two siblings with the same signature and the same neighbourhood (a counter's "take" and "peek"): told
			// apart by who calls them
			callersOf := func(tab symTable, name string, cfgAware bool) []string {
				var out []string
				for k, e := range tab {
					if e.Kind != "func" && e.Kind != "method" {
						continue
					}
					ms := e.Members
					if cfgAware {
						if !hasCfg(e, cfg) {
							continue
						}
						ms = membersFor(e, cfg)
					}
					for _, m := range ms {
						if m == name {
							out = append(out, k)
						}
					}
				}
				sort.Strings(out)
				return out
			}
			refCallers := callersOf(ref, mname, true)
			for i := range cands {
				_, _, cn := splitKey(cands[i].key)
				cands[i].score += jaccard(refCallers, callersOf(ccur, cn, false))
			}
			sort.Slice(cands, func(i, j int) bool {
				if cands[i].score != cands[j].score {
					return cands[i].score > cands[j].score
				}
				return cands[i].key < cands[j].key
			})
		}
		if len(cands) > 1 && cands[0].score-cands[1].score < 0.2 {
			continue // ambiguous
		}
		if (me.Kind == "func" || me.Kind == "method") && len(membersFor(me, cfg)) > 3 && cands[0].score < 0.3 {
			continue // same type, different neighbourhood: a new function, not a rename
		}
		used[cands[0].key] = true
		o := cobj[cands[0].key]
		if o == nil {
			continue
		}
		recs = append(recs, renameRec{Key: mk, Old: mname, New: o.Name(), obj: o})
	}
	// a package function that became a method under another name (marshalFileStat(b, flags, fs) -> fs.marshalByFlags(b,
	// flags)): the receiver and the parameters together are the old parameters, the results and the neighbourhood are
	// the same.  Renamed back; that the home differs is resolved where functions are looked up (Program.FuncIn).
	for _, mk := range missing {
		me := ref[mk]
		mp, mowner, mname := splitKey(mk)
		if me.Kind != "func" || mowner != "" {
			continue
		}
		already := false
		for _, r := range recs {
			if r.Key == mk {
				already = true
			}
		}
		if already {
			continue
		}
		rp, rr, ok := splitSig(me.Sig)
		if !ok {
			continue
		}
		best, second, bestK := -1.0, -1.0, ""
		for fk, fe := range ccur {
			if fe.Kind != "method" || used[fk] || inRef(fk) || cobj[fk] == nil {
				continue
			}
			fp, fowner, _ := splitKey(fk)
			if fp != mp || fowner == "" {
				continue
			}
			pp, pr, ok := splitSig(fe.Sig)
			if !ok || strings.Join(pr, ",") != strings.Join(rr, ",") || len(pp)+1 != len(rp) {
				continue
			}
			match := false
			for _, recv := range []string{"*" + fp + "." + fowner, fp + "." + fowner} {
				a := append(append([]string{}, pp...), recv)
				b := append([]string{}, rp...)
				sort.Strings(a)
				sort.Strings(b)
				if strings.Join(a, ";") == strings.Join(b, ";") {
					match = true
				}
			}
			if !match {
				continue
			}
			sc := jaccard(membersFor(me, cfg), fe.Members)
			if sc > best {
				second, best, bestK = best, sc, fk
			} else if sc > second {
				second = sc
			}
		}
		if bestK != "" && best >= 0.6 && best-second >= 0.2 {
			used[bestK] = true
			recs = append(recs, renameRec{Key: mk, Old: mname, New: cobj[bestK].Name(), obj: cobj[bestK]})
		}
	}
	// a method that lost its name the way its siblings did: when some method m has been recognised as renamed to n,
	// a missing T.m and an unknown T.n of the same signature are that rename too, whatever has become of the body
	// (the body is what the rules are there to judge; it must not decide whether they get to see it)
	family := map[string]string{} // old name -> new name
	for _, r := range recs {
		if e := ref[r.Key]; e != nil && e.Kind == "method" {
			family[r.Old] = r.New
		}
	}
	if len(family) > 0 {
		for _, mk := range missing {
			me := ref[mk]
			mp, mowner, mname := splitKey(mk)
			nn, ok := family[mname]
			if !ok || me.Kind != "method" || mowner == "" {
				continue
			}
			already := false
			for _, r := range recs {
				if r.Key == mk {
					already = true
				}
			}
			if already {
				continue
			}
			fk := mp + "|" + mowner + "." + nn
			fe := ccur[fk]
			if fe == nil || fe.Kind != "method" || used[fk] || inRef(fk) || fe.Sig != me.Sig || cobj[fk] == nil {
				continue
			}
			used[fk] = true
			recs = append(recs, renameRec{Key: mk, Old: mname, New: nn, obj: cobj[fk]})
		}
	}
	return recs
}

// buildOverlay rewrites every identifier that denotes a renamed object back to the reference name.
func buildOverlay(fset *token.FileSet, pkgs map[string]*packages.Package, recs []renameRec) (map[string][]byte, error) {
	target := map[types.Object]string{}
	for _, r := range recs {
		target[r.obj] = r.Old
	}
	// embedded fields carry the name of their type
	for _, r := range recs {
		if tn, ok := r.obj.(*types.TypeName); ok {
			for _, pk := range pkgs {
				if pk.TypesInfo == nil {
					continue
				}
				for _, o := range pk.TypesInfo.Uses {
					if v, ok := o.(*types.Var); ok && v.Embedded() && v.Name() == tn.Name() {
						if n := namedOf(v.Type()); n != nil && n.Obj() == tn {
							target[v] = r.Old
						}
					}
				}
			}
		}
	}
	// methods of unnamed interface types (interface{ m() } in a declaration or assertion) follow
	// the methods they are satisfied by
	fam := map[string]string{}
	for _, r := range recs {
		if f, ok := r.obj.(*types.Func); ok && f.Type().(*types.Signature).Recv() != nil {
			fam[r.New+sigNoRecv(f)] = r.Old
		}
	}
	if len(fam) > 0 {
		for path, pk := range pkgs {
			if !strings.HasPrefix(path, pkgSftp) || pk.TypesInfo == nil {
				continue
			}
			for _, o := range pk.TypesInfo.Defs {
				f, ok := o.(*types.Func)
				if !ok || target[f] != "" {
					continue
				}
				sig := f.Type().(*types.Signature)
				if sig.Recv() == nil || !types.IsInterface(sig.Recv().Type()) {
					continue
				}
				if old, ok := fam[f.Name()+sigNoRecv(f)]; ok {
					target[f] = old
				}
			}
		}
	}
	type edit struct {
		off, n int
		s      string
	}
	edits := map[string][]edit{}
	add := func(id *ast.Ident, o types.Object) {
		old, ok := target[o]
		if !ok || id.Name == old {
			return
		}
		ps := fset.Position(id.Pos())
		edits[ps.Filename] = append(edits[ps.Filename], edit{ps.Offset, len(id.Name), old})
	}
	for path, pk := range pkgs {
		if !strings.HasPrefix(path, pkgSftp) || pk.TypesInfo == nil {
			continue
		}
		for id, o := range pk.TypesInfo.Defs {
			if o != nil {
				add(id, o)
			}
		}
		for id, o := range pk.TypesInfo.Uses {
			add(id, o)
		}
	}
	out := map[string][]byte{}
	for file, es := range edits {
		src, err := os.ReadFile(file)
		if err != nil {
			return nil, err
		}
		sort.Slice(es, func(i, j int) bool { return es[i].off > es[j].off })
		last := -1
		for _, e := range es {
			if e.off == last {
				continue // the same identifier recorded twice (embedded field: type use and field)
			}
			last = e.off
			if e.off+e.n > len(src) {
				return nil, fmt.Errorf("overlay: edit out of range in %s", file)
			}
			src = append(src[:e.off:e.off], append([]byte(e.s), src[e.off+e.n:]...)...)
		}
		out[file] = src
	}
	return out, nil
}

// writeSymtab merges the symbols of all configurations of repo into one table.
func writeSymtab(repo, path string) error {
	merged := symTable{}
	for _, cfg := range []BuildConfig{cfgDefault, cfg386, cfgDebug, cfgDarwin, cfgWindows, cfgPlan9} {
		pkgs, _, err := loadPackages(repo, cfg, nil)
		if err != nil {
			return fmt.Errorf("%s: %v", cfg.Name, err)
		}
		tab, _ := collectSymbols(pkgs)
		for k, e := range tab {
			if m := merged[k]; m != nil {
				// the default configuration's entry is kept; the others add their name (and their members where a
				// build-tagged variant of the symbol differs)
				m.Configs = append(m.Configs, cfg.Name)
				if strings.Join(m.Members, ",") != strings.Join(e.Members, ",") {
					if m.MembersBy == nil {
						m.MembersBy = map[string][]string{}
					}
					m.MembersBy[cfg.Name] = e.Members
				}
				continue
			}
			e.Configs = []string{cfg.Name}
			merged[k] = e
		}
	}
	b, err := json.MarshalIndent(merged, "", " ")
	if err != nil {
		return err
	}
	return os.WriteFile(path, append(b, '\n'), 0o644)
}

// splitSig splits a signature rendered by sigNoRecv, "func(A, B) (R, S)", into its parameter and result types
// (commas inside brackets, parentheses and braces do not split).
func splitSig(sig string) (params, results []string, ok bool) {
	if !strings.HasPrefix(sig, "func(") {
		return nil, nil, false
	}
	depth, i := 0, 4
	end := -1
	for j := i; j < len(sig); j++ {
		switch sig[j] {
		case '(', '[', '{':
			depth++
		case ')', ']', '}':
			depth--
			if depth == 0 && end < 0 {
				end = j
			}
		}
		if end >= 0 {
			break
		}
	}
	if end < 0 {
		return nil, nil, false
	}
	split := func(s string) []string {
		var out []string
		d, start := 0, 0
		for j := 0; j < len(s); j++ {
			switch s[j] {
			case '(', '[', '{':
				d++
			case ')', ']', '}':
				d--
			case ',':
				if d == 0 {
					out = append(out, strings.TrimSpace(s[start:j]))
					start = j + 1
				}
			}
		}
		if t := strings.TrimSpace(s[start:]); t != "" {
			out = append(out, t)
		}
		return out
	}
	params = split(sig[5:end])
	rest := strings.TrimSpace(sig[end+1:])
	rest = strings.TrimSuffix(strings.TrimPrefix(rest, "("), ")")
	results = split(rest)
	return params, results, true
}
