#!/bin/bash
# Builds /verif/bin/sftpcheck offline from /verif/checker with go1.26.8 + x/tools v0.50.0 (module cache only).
set -e
cd "$(dirname "$0")/checker"
export PATH=/opt/veriftools/go1.26.8/bin:$PATH GOFLAGS=-mod=mod GOPROXY=off GOSUMDB=off GOTOOLCHAIN=local GOWORK=off CGO_ENABLED=0
mkdir -p ../bin ../evidence
go build -o ../bin/sftpcheck .
